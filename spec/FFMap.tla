------------------------------- MODULE FFMap -------------------------------
(***************************************************************************)
(* C01 / C14 - from a residue graph and a force field to the fine-grained  *)
(* molecule (polyply gen_params: MapToMolecule, ApplyLinks' bookkeeping,   *)
(* ApplyModifications, expand_excl).                                       *)
(*                                                                         *)
(* P-layer (what a user relies on, written without polyply's algorithm):   *)
(*   PBase(I)   - the molecule is the concatenation, in residue-id order,  *)
(*                of re-indexed copies of the residues' blocks             *)
(*   PFinal(I)  - PBase changed only where an applicable link / selected   *)
(*                modification names an atom or an interaction             *)
(*   ExclP(I)   - two atoms are excluded iff their bond-graph distance is  *)
(*                within the distance of the block of one of them, or a    *)
(*                block / link excludes them explicitly                    *)
(* I-layer (one action per code step): MatchNodes, TagExclusions,          *)
(*   AddBlock (one per residue node, resid order, the three offsets of     *)
(*   vermouth's merge_molecule), ApplyLinks (interaction dictionary,       *)
(*   replace, scheduled removal, expand_excl), ApplyMods.                  *)
(* Deviation flags Dev.* switch single steps to realistic wrong designs    *)
(* (and to the repaired / open findings F7 F14 F15 F30 F31 F32).               *)
(*                                                                         *)
(* Residues are identified by their position 1..n in residue-id order      *)
(* (resid = start + pos - 1); node keys and insertion order are not part   *)
(* of the abstraction (the harness shuffles them).  Atoms are 1-based.     *)
(***************************************************************************)
EXTENDS Integers, Sequences, FiniteSets, TLC, SequencesExt

CONSTANTS Inputs,   \* set of input records [id, ff (id), F (the force field: [blocks, links, mods]), n, start, rn, fi, edges, sel,
                    \*                       useApps, apps]   (shapes: see MC_FFMap / FFTrace)
          Dev       \* record of BOOLEAN deviation flags

VARIABLES inp,      \* the input of this behaviour
          pc,       \* "match" "tag" "add" "links" "mods" "done"
          n2b,      \* residue -> block name                       (node_to_block)
          slice,    \* from_itp residue -> its fragment (Seq of residues)   (fragments / node_to_fragment)
          bx,       \* block name -> [nrexcl, tag]                 (block.nrexcl, node attribute "exclude"; tag -1 = none)
          order,    \* Seq of residues: loop order of add_blocks
          k,        \* next index into order
          atoms,    \* Seq of atom records                         (molecule.nodes, in node order)
          inters,   \* Seq of interaction records                  (molecule.interactions)
          medges,   \* set of 2-sets of atom indices               (molecule.edges)
          gattr,    \* residue -> set of atom indices              (meta node attribute 'graph')
          added,    \* from_itp residues whose block is merged     (added_fragment_nodes)
          cbase,    \* residue -> atom offset of its block copy
          fid,      \* from_itp residue -> number of its fragment  (node_to_fragment)
          clist,    \* atom offsets of the merged block copies, in the order they were merged   (multiblock_correspondence)
          removed,  \* atoms removed by links                      (nodes_to_remove)
          molN,     \* molecule nrexcl
          err,      \* "" or the name of the error the step raised
          fired     \* open deviations that changed this behaviour
vars == <<inp, pc, n2b, slice, bx, order, k, atoms, inters, medges, gattr, added, cbase, fid, clist, removed, molN, err, fired>>

(* deviation flag settings *)
NoDev == [unsorted |-> FALSE, firstKeeps |-> FALSE, sliceAny |-> FALSE, offByOne |-> FALSE, renumber |-> FALSE,
          keepRemoved |-> FALSE, firstFragUnshifted |-> FALSE, treeEdges |-> FALSE, dedupKey |-> FALSE,
          exMax |-> FALSE, exTagLost |-> FALSE, exCutoff |-> FALSE, modAnyRes |-> FALSE, versionInKey |-> FALSE, fragIdOrder |-> FALSE, modAnyName |-> FALSE, explicitAfterExcl |-> FALSE, retagLowered |-> FALSE, tagDropped |-> FALSE]
DevUnsorted == [NoDev EXCEPT !.unsorted = TRUE]
DevFirstKeeps == [NoDev EXCEPT !.firstKeeps = TRUE]
DevSliceAny == [NoDev EXCEPT !.sliceAny = TRUE]
DevOffByOne == [NoDev EXCEPT !.offByOne = TRUE]
DevRenumber == [NoDev EXCEPT !.renumber = TRUE]
DevKeepRemoved == [NoDev EXCEPT !.keepRemoved = TRUE]
DevF14 == [NoDev EXCEPT !.firstFragUnshifted = TRUE]
DevF31 == [NoDev EXCEPT !.treeEdges = TRUE]
DevF30 == [NoDev EXCEPT !.dedupKey = TRUE]
DevExMax == [NoDev EXCEPT !.exMax = TRUE]
DevExTagLost == [NoDev EXCEPT !.exTagLost = TRUE]
DevExCutoff == [NoDev EXCEPT !.exCutoff = TRUE]
DevModAnyRes == [NoDev EXCEPT !.modAnyRes = TRUE]
DevModAnyName == [NoDev EXCEPT !.modAnyName = TRUE]
DevExplicitAfterExcl == [NoDev EXCEPT !.explicitAfterExcl = TRUE]
DevRetagLowered == [NoDev EXCEPT !.retagLowered = TRUE]
DevTagDropped == [NoDev EXCEPT !.retagLowered = TRUE, !.tagDropped = TRUE]      \* seed5-C14-2 on top of what the tree does
\* what the tree currently does: the open findings switched on (known_findings.d)
DevVersionInKey == [NoDev EXCEPT !.versionInKey = TRUE]
DevF32 == [NoDev EXCEPT !.fragIdOrder = TRUE]
\* what the tree currently does = NoDev plus the open findings; none is open (F14 fc4ff7c, F30 cca8623, F31 a812f9b, F32 8d129a5 repaired)
DevAsIs == [NoDev EXCEPT !.retagLowered = TRUE]      \* open: retag-lowered (C14, histories of one force-field object)

ProteinNames == {"GLY", "ALA", "CYS", "VAL", "LEU", "ILE", "MET", "PRO", "HYP", "ASN", "GLN", "ASP", "ASP0", "GLU", "GLU0",
                 "THR", "SER", "LYS", "LYS0", "ARG", "ARG0", "HIS", "HISH", "PHE", "TYR", "TRP"}
EdgeSections == {"bonds", "constraints"}
VerTags == <<"i1", "i2", "i3", "i4", "i5", "i6", "i7", "i8", "i9">>      \* integer version tags as the projection writes them

(* ------------------------------------------------------------------ *)
(* generic helpers                                                    *)
(* ------------------------------------------------------------------ *)
MaxOf(a, b) == IF a < b THEN b ELSE a
\* With(v, F): F(v) with v evaluated exactly once (TLC does not reliably cache LET definitions that are used inside
\* lazily evaluated function constructors; a bound variable always holds a value)
With(v, F(_)) == CHOOSE r \in {F(x) : x \in {v}} : TRUE
RECURSIVE SumTo(_, _)
SumTo(f, n) == IF n = 0 THEN 0 ELSE f[n] + SumTo(f, n - 1)
RECURSIVE Reach(_, _)
Reach(E, S) == LET T == S \cup {y \in UNION E : \E x \in S : {x, y} \in E} IN IF T = S THEN S ELSE Reach(E, T)
Sorted(S) == SetToSortSeq(S, <)
IdxOf(s, x) == CHOOSE i \in DOMAIN s : s[i] = x
Perms(S) == {p \in [1..Cardinality(S) -> S] : \A i, j \in DOMAIN p : i # j => p[i] # p[j]}
\* pairs within bond-graph distance d (BFS balls)
RECURSIVE Ball(_, _, _)
Ball(E, a, d) == IF d <= 0 THEN {a} ELSE LET B == Ball(E, a, d - 1) IN B \cup {y \in UNION E : \E x \in B : {x, y} \in E}
Within(E, a, b, d) == d >= 0 /\ b \in Ball(E, a, d)
\* BallTab[a][d + 1] = atoms within d bonds of a, d = 0..dmax
BallTab(E, nA, dmax) == TLCEval([a \in 1..nA |-> TLCEval([d \in 1..(dmax + 1) |-> Ball(E, a, d - 1)])])

(* ------------------------------------------------------------------ *)
(* input accessors                                                    *)
(* ------------------------------------------------------------------ *)
FB(I) == I.F.blocks
FL(I) == I.F.links
FM(I) == I.F.mods
Pos(I) == 1..I.n
Resid(I, i) == I.start + i - 1
GE(I) == {{e[1], e[2]} : e \in ToSet(I.edges)}
IsFrag(I, i) == I.fi[i] # ""
BlkName(I, i) == IF IsFrag(I, i) THEN I.fi[i] ELSE I.rn[i]
HasBlock(I, nm) == \E b \in DOMAIN FB(I) : FB(I)[b].name = nm
BlockNamed(I, nm) == FB(I)[CHOOSE b \in DOMAIN FB(I) : FB(I)[b].name = nm]
Blk(I, i) == BlockNamed(I, BlkName(I, i))
NRes(b) == Cardinality({b.atoms[a].res : a \in DOMAIN b.atoms})
LastCg(b) == b.atoms[Len(b.atoms)].cg
BlockEdges(b) == {{e[1], e[2]} : e \in ToSet(b.edges)}
Shift(x, off) == [x EXCEPT !.at = TLCEval([j \in DOMAIN x.at |-> x.at[j] + off])]
\* fragment edges: residue-graph edges between two from_itp residues of the same block
FragEdges(I) == {e \in GE(I) : \A x \in e : IsFrag(I, x) /\ \A y \in e : I.fi[x] = I.fi[y]}

(* ------------------------------------------------------------------ *)
(* P-layer, C01                                                       *)
(* ------------------------------------------------------------------ *)
\* Layout: which block copy a residue belongs to.
\*  comp[i]  - the fragment of i: the maximal connected set of from_itp residues of the same multi-residue block
\*  loc[i]   - i is the loc-th residue of its block copy: fragment residues map to block residues in residue-id order,
\*             one copy per NRes(block) fragment residues
\*  first[i] - the first residue of i's block copy
Layout(I) ==
  LET fe    == FragEdges(I)
      comp  == TLCEval([i \in Pos(I) |-> IF IsFrag(I, i) THEN Reach(fe, {i}) ELSE {i}])
      blk   == TLCEval([i \in Pos(I) |-> Blk(I, i)])
      nres  == TLCEval([i \in Pos(I) |-> NRes(blk[i])])
      rank  == TLCEval([i \in Pos(I) |-> Cardinality({j \in comp[i] : j < i})])
      loc   == TLCEval([i \in Pos(I) |-> IF IsFrag(I, i) THEN (rank[i] % nres[i]) + 1 ELSE 1])
      first == TLCEval([i \in Pos(I) |-> IF IsFrag(I, i) THEN Sorted(comp[i])[rank[i] - (loc[i] - 1) + 1] ELSE i])
  IN [comp |-> comp, blk |-> blk, nres |-> nres, loc |-> loc, first |-> first]
Comp(I, i) == Layout(I).comp[i]

PBaseL(I, L) ==
  LET firsts == {i \in Pos(I) : L.first[i] = i}
      \* block atoms that make up residue i
      mine  == TLCEval([i \in Pos(I) |-> {a \in DOMAIN L.blk[i].atoms : L.blk[i].atoms[a].res = L.loc[i]}])
      nat   == TLCEval([i \in Pos(I) |-> Cardinality(mine[i])])
      off   == TLCEval([i \in Pos(I) |-> SumTo(nat, i - 1)])                        \* atoms before residue i
      total == SumTo(nat, I.n)
      ioff  == TLCEval([i \in Pos(I) |-> off[L.first[i]]])                          \* atom offset of the block copy of residue i
      lastcg == TLCEval([i \in Pos(I) |-> IF i \in firsts THEN LastCg(L.blk[i]) ELSE 0])
      cgoff == TLCEval([i \in Pos(I) |-> SumTo(lastcg, L.first[i] - 1)])            \* one charge-group offset per copy
      resOf == TLCEval([g \in 1..total |-> CHOOSE i \in Pos(I) : off[i] < g /\ g <= off[i] + nat[i]])
      atom(g) == LET i == resOf[g]  b == L.blk[i].atoms[g - ioff[i]] IN
                   [an |-> b.an, ty |-> b.ty, q |-> b.q, m |-> b.m, rn |-> b.rn, cg |-> b.cg + cgoff[i], resid |-> Resid(I, i)]
  IN [atoms  |-> TLCEval([g \in 1..total |-> atom(g)]),
      inters |-> UNION {{Shift(L.blk[f].inters[x], off[f]) : x \in DOMAIN L.blk[f].inters} : f \in firsts},
      ninters |-> SumTo([i \in Pos(I) |-> IF i \in firsts THEN Len(L.blk[i].inters) ELSE 0], I.n),
      edges  |-> UNION {{{e[1] + off[f], e[2] + off[f]} : e \in ToSet(L.blk[f].edges)} : f \in firsts},
      gattr  |-> TLCEval([i \in Pos(I) |-> {g \in 1..total : resOf[g] = i}]),
      blockOf |-> TLCEval([g \in 1..total |-> BlkName(I, resOf[g])])]

PBase(I) == With(Layout(I), LAMBDA L : PBaseL(I, L))

\* the inputs the property quantifies over (besides connectedness, which the generators guarantee)
BlocksOK(ff) ==
  \A b \in DOMAIN ff.blocks : LET B == ff.blocks[b] IN
        /\ \A a \in DOMAIN B.atoms : B.atoms[a].res \in 1..NRes(B)
        /\ \A a \in 1..(Len(B.atoms) - 1) : B.atoms[a].res <= B.atoms[a + 1].res                   \* atoms grouped by residue
DomOK(I) ==
  /\ \A i \in Pos(I) : HasBlock(I, BlkName(I, i))
  /\ \E L \in {Layout(I)} :
       \A i \in Pos(I) :
         IF IsFrag(I, i)
         THEN /\ Cardinality(L.comp[i]) % L.nres[i] = 0
              \* a copy occupies consecutive residue ids (the residue names inside the block need not be those of the graph nodes:
              \* the atoms keep the names the block gives them)
              /\ \A j \in 0..(L.nres[i] - 1) : L.first[i] + j \in L.comp[i] /\ L.loc[L.first[i] + j] = j + 1
         ELSE L.nres[i] = 1
  /\ BlocksOK(I.F)
  \* an explicit (by_atom_id) link names two different atoms of the molecule
  /\ \A li \in DOMAIN FL(I) : FL(I)[li].kind = "explicit" =>
        FL(I)[li].ex[1] # FL(I)[li].ex[2] /\ \A j \in 1..2 : FL(I)[li].ex[j] \in 1..Len(PBase(I).atoms)

(* ---- applicable links (kept minimal: the link rule itself is C02, spec/Links.tla) ---- *)
OrdOK(o, i, j) == IF o = "+" THEN j = i + 1 ELSE IF o = ">" THEN j > i ELSE i = j
NamedIn(A, S, nm) == {g \in S : A[g].an = nm}
ResMatches(I, l) ==
  IF l.kind = "bond" THEN {<<i, j>> \in Pos(I) \X Pos(I) : {i, j} \in GE(I) /\ i # j /\ OrdOK(l.ord, i, j) /\ I.rn[i] \in ToSet(l.rns) /\ I.rn[j] \in ToSet(l.rns)}
  ELSE {<<i, i>> : i \in {x \in Pos(I) : I.rn[x] \in ToSet(l.rns)}}
PairLess(p, q) == p[1] < q[1] \/ (p[1] = q[1] /\ p[2] < q[2])
\* applications of link number li given the current atoms A and the residue -> atoms map gat
AppsOfLink(I, li, A, gat) ==
  LET l == FL(I)[li]
      ms == SetToSortSeq(ResMatches(I, l), PairLess)
      \* a link applies only where every atom it names is found exactly once
      ok(m) == /\ Cardinality(NamedIn(A, gat[m[1]], l.a)) = 1
               /\ (l.kind = "bond" => Cardinality(NamedIn(A, gat[m[2]], l.b)) = 1)
               /\ (l.kind = "bond" /\ l.xb # "" => Cardinality(NamedIn(A, gat[m[2]], l.xb)) = 1)
      app(m) == LET ga == CHOOSE g \in NamedIn(A, gat[m[1]], l.a) : TRUE IN
                  IF l.kind = "bond"
                  THEN LET gb == CHOOSE g \in NamedIn(A, gat[m[2]], l.b) : TRUE IN
                         [lk |-> li, rep |-> <<>>, rem |-> <<>>,
                          ints |-> <<[sec |-> l.sec, at |-> <<ga, gb>>, par |-> l.par, ver |-> "i1", occ |-> 1]>>
                                   \o (IF l.xb = "" THEN <<>>      \* the same link may also exclude atom xb of the next residue from a
                                       ELSE <<[sec |-> "exclusions", at |-> <<ga, CHOOSE g \in NamedIn(A, gat[m[2]], l.xb) : TRUE>>,
                                               par |-> <<>>, ver |-> "i1", occ |-> 1]>>)]
                  ELSE IF l.kind = "remove"
                  THEN [lk |-> li, rep |-> <<>>, rem |-> <<ga>>, ints |-> <<>>]
                  ELSE [lk |-> li, rep |-> <<[a |-> ga, f |-> "ty", v |-> l.par[1]], [a |-> ga, f |-> "q", v |-> l.par[2]]>>, rem |-> <<>>, ints |-> <<>>]
      sel == SelectSeq(ms, ok)
  IN TLCEval([x \in DOMAIN sel |-> app(sel[x])])
\* the applicable (link, match) pairs: by the minimal link rule above, or - for force fields whose links go beyond it (the
\* library force fields in trace validation) - as observed at ApplyLinks.apply_link_between_residues (I.useApps)
LinkApps(I, A, gat) == IF I.useApps THEN I.apps ELSE FlattenSeq([li \in DOMAIN FL(I) |-> AppsOfLink(I, li, A, gat)])

SetF(atom, f, v) == CASE f = "ty" -> [atom EXCEPT !.ty = v] [] f = "q" -> [atom EXCEPT !.q = v] [] f = "an" -> [atom EXCEPT !.an = v]
                      [] f = "m" -> [atom EXCEPT !.m = v] [] f = "rn" -> [atom EXCEPT !.rn = v] [] OTHER -> atom
Key(x) == <<x.sec, x.at, x.ver>>
Touches(x, S) == \E j \in DOMAIN x.at : x.at[j] \in S
RenumIdx(g, R) == g - Cardinality({r \in R : r < g})
Renum(x, R) == [x EXCEPT !.at = TLCEval([j \in DOMAIN x.at |-> RenumIdx(x.at[j], R)])]
\* explicit links ([ molmeta ] by_atom_id true): applied to the atoms with the written numbers whatever the residues are; the
\* interaction replaces an untagged one on the same atoms, else it is added; its atoms become bonded in the molecule graph
ExplLinks(I) == IF I.useApps THEN <<>> ELSE SelectSeq(FL(I), LAMBDA l : l.kind = "explicit")
ExplInter(l) == [sec |-> l.sec, at |-> l.ex, par |-> l.par, ver |-> "i1", occ |-> 1]
ExplHits(I, x) == \E j \in DOMAIN ExplLinks(I) : LET l == ExplLinks(I)[j] IN x.sec = l.sec /\ x.at = l.ex /\ x.ver = "i1"
LinkEdges(apps) == UNION {{{apps[j].ints[x].at[1], apps[j].ints[x].at[2]} : x \in {y \in DOMAIN apps[j].ints : apps[j].ints[y].sec \in EdgeSections}} : j \in DOMAIN apps}

\* which modifications are selected: an explicit -mods list, or the protein termini by default
ModSel(I) == IF I.sel # <<>> THEN I.sel ELSE <<[pos |-> 1, mod |-> "N-ter"], [pos |-> I.n, mod |-> "C-ter"]>>
ModNamed(I, nm) == FM(I)[CHOOSE x \in DOMAIN FM(I) : FM(I)[x].name = nm]
ModEligible(I, s) == FM(I) # <<>> /\ I.rn[s.pos] \in ProteinNames /\ \E x \in DOMAIN FM(I) : FM(I)[x].name = s.mod

\* PFinal: PBase, changed only where an applicable link or a selected modification names an atom or an interaction.
\*  apps: the applicable (link, match) pairs in link order (computed by LinkApps, or as observed from the code in trace validation)
PFinalB(I, B, apps) ==
  LET nA == Len(B.atoms)
      R == UNION {ToSet(apps[j].rem) : j \in DOMAIN apps}
      \* attribute replaced by a link: the last application that names (atom, field) wins
      reps == UNION {{<<j, r>> : r \in DOMAIN apps[j].rep} : j \in DOMAIN apps}
      lastRep(g, f) == LET c == {p \in reps : apps[p[1]].rep[p[2]].a = g /\ apps[p[1]].rep[p[2]].f = f} IN
                         IF c = {} THEN <<>> ELSE LET p == CHOOSE p \in c : \A o \in c : o = p \/ PairLess(o, p) IN <<apps[p[1]].rep[p[2]].v>>
      afterLinks(g) == LET t == lastRep(g, "ty")  q == lastRep(g, "q")  a == lastRep(g, "an")  m == lastRep(g, "m")  rn == lastRep(g, "rn")
                           a0 == B.atoms[g]
                           a1 == IF t = <<>> THEN a0 ELSE [a0 EXCEPT !.ty = t[1]]
                           a2 == IF q = <<>> THEN a1 ELSE [a1 EXCEPT !.q = q[1]]
                           a3 == IF a = <<>> THEN a2 ELSE [a2 EXCEPT !.an = a[1]]
                           a4 == IF m = <<>> THEN a3 ELSE [a3 EXCEPT !.m = m[1]]
                       IN IF rn = <<>> THEN a4 ELSE [a4 EXCEPT !.rn = rn[1]]
      \* interactions: a link interaction replaces the image with the same (section, atoms, version); the last link wins
      lints == UNION {{<<j, x>> : x \in DOMAIN apps[j].ints} : j \in DOMAIN apps}
      lkeys == {Key(apps[p[1]].ints[p[2]]) : p \in lints}
      lwin == {p \in lints : ~\E o \in lints : PairLess(p, o) /\ Key(apps[o[1]].ints[o[2]]) = Key(apps[p[1]].ints[p[2]])}
      all == {x \in B.inters : Key(x) \notin lkeys} \cup {apps[p[1]].ints[p[2]] : p \in lwin}
      after == TLCEval([g \in 1..nA |-> afterLinks(g)])
      kept0 == {x \in all : ~Touches(x, R)}
      kept == {x \in kept0 : ~ExplHits(I, x)} \cup {ExplInter(ExplLinks(I)[j]) : j \in DOMAIN ExplLinks(I)}
      \* modifications: only the atoms a selected modification names, in its target residue
      sel == ModSel(I)
      elig == {s \in DOMAIN sel : ModEligible(I, sel[s])}
      tgt(s, nm) == {g \in B.gattr[sel[s].pos] \ R : after[g].an = nm}
      modAtom(s, g) == LET md == ModNamed(I, sel[s].mod) IN {x \in DOMAIN md.atoms : md.atoms[x].rep /\ g \in tgt(s, md.atoms[x].an)}
      lastMod(g) == {s \in elig : modAtom(s, g) # {} /\ \A s2 \in elig : s2 > s => modAtom(s2, g) = {}}
      final(g) == LET a == after[g] IN
                    IF lastMod(g) = {} THEN a
                    ELSE LET s == CHOOSE s \in lastMod(g) : TRUE  md == ModNamed(I, sel[s].mod)
                             x == CHOOSE x \in modAtom(s, g) : TRUE
                         IN [a EXCEPT !.ty = md.atoms[x].ty, !.q = md.atoms[x].q]
      modInts == UNION {LET md == ModNamed(I, sel[s].mod) IN
                          {[sec |-> md.inters[x].sec, par |-> md.inters[x].par, ver |-> "i1", occ |-> s,
                            at |-> <<CHOOSE g \in tgt(s, md.inters[x].a) : TRUE, CHOOSE g \in tgt(s, md.inters[x].b) : TRUE>>] : x \in DOMAIN md.inters}
                        : s \in elig}
      keep == SelectSeq([g \in 1..nA |-> g], LAMBDA g : g \notin R)
  IN [atoms  |-> TLCEval([x \in DOMAIN keep |-> final(keep[x])]),
      inters |-> {Renum(x, R) : x \in kept \cup modInts},
      gattr  |-> TLCEval([i \in Pos(I) |-> {RenumIdx(g, R) : g \in B.gattr[i] \ R}]),
      blockOf |-> TLCEval([x \in DOMAIN keep |-> B.blockOf[keep[x]]])]

PFinalWith(I, apps) == With(PBase(I), LAMBDA B : With(apps, LAMBDA ap : PFinalB(I, B, ap)))
PLinkApps(I) == With(PBase(I), LAMBDA B : LinkApps(I, B.atoms, B.gattr))
PFinal(I) == With(PBase(I), LAMBDA B : With(LinkApps(I, B.atoms, B.gattr), LAMBDA ap : PFinalB(I, B, ap)))

(* ------------------------------------------------------------------ *)
(* P-layer, C14                                                       *)
(* ------------------------------------------------------------------ *)
BondE(ints) == {{x.at[1], x.at[2]} : x \in {y \in ints : y.sec \in EdgeSections}}
Explicit(ints) == UNION {{{x.at[1], x.at[j]} : j \in 2..Len(x.at)} : x \in {y \in ints : y.sec = "exclusions"}}
PairsOf(nA) == {{a, b} : a \in 1..nA, b \in 1..nA} \ {{a} : a \in 1..nA}
NrexclOf(I, nm) == BlockNamed(I, nm).nrexcl
\* excluded iff the bond-graph distance in the final molecule is within the distance prescribed by the block of one of the
\* two atoms, or a block or link excludes the pair explicitly
ExclPT(I, F, T, e) ==
  LET nA == Len(F.atoms) IN
    {p \in PairsOf(nA) : \E a \in p : \E b \in p \ {a} : b \in T[a][MaxOf(e[a], e[b]) + 1]}
    \cup (Explicit(F.inters) \ {{a} : a \in 1..nA})
ExclPF(I, F) == With(BallTab(BondE(F.inters), Len(F.atoms), 4), LAMBDA T :
                  With(TLCEval([g \in 1..Len(F.atoms) |-> NrexclOf(I, F.blockOf[g])]), LAMBDA e : ExclPT(I, F, T, e)))
ExclP(I) == With(PFinal(I), LAMBDA F : ExclPF(I, F))
\* what a written molecule means: pairs within nrexcl bonds plus the listed pairs
ExclEff(N, ints, nA) == With(BallTab(BondE(ints), nA, N), LAMBDA T :
                          {p \in PairsOf(nA) : \E a \in p : \E b \in p \ {a} : b \in T[a][N + 1]})
                        \cup (Explicit(ints) \ {{a} : a \in 1..nA})
UsedNrexcl(I) == {NrexclOf(I, BlkName(I, i)) : i \in Pos(I)}
Uniform(I) == Cardinality(UsedNrexcl(I)) = 1

(* ------------------------------------------------------------------ *)
(* I-layer                                                            *)
(* ------------------------------------------------------------------ *)
NoTag == 0 - 1
Init == /\ inp \in Inputs
        /\ pc = "match" /\ n2b = <<>> /\ slice = <<>> /\ bx = <<>> /\ order = <<>> /\ k = 1
        /\ atoms = <<>> /\ inters = <<>> /\ medges = {} /\ gattr = [i \in Pos(inp) |-> {}] /\ added = {}
        /\ cbase = [i \in Pos(inp) |-> 0] /\ fid = [i \in Pos(inp) |-> 0] /\ clist = <<>> /\ removed = {}
        /\ molN = 0 /\ err = "" /\ fired = {}

(* ---- match_nodes_to_blocks ---- *)
\* depth-first search trees of the residue graph (finding F31, repaired a812f9b: only the tree edges of nx.dfs_edges were looked at)
Anc(T, r, u, v) == u = v \/ u = r \/ v \notin Reach({e \in T : u \notin e}, {r})
DfsTrees(I) == {T \in SUBSET GE(I) : /\ Cardinality(T) = I.n - 1
                                      /\ Reach(T, {1}) = Pos(I)
                                      /\ \E r \in Pos(I) : \A e \in GE(I) \ T : \E u \in e : \E v \in e \ {u} : Anc(T, r, u, v)}
MinOf(S) == CHOOSE x \in S : \A y \in S : x <= y
MatchWith(fe, perm, co) ==
  LET I == inp
      fr == {i \in Pos(I) : IsFrag(I, i)}
      comp(i) == Reach(fe, {i})
      \* fragments are numbered component by component in the iteration order co of the components
      copies(c) == Cardinality(c) \div NRes(Blk(I, MinOf(c)))
      before(i) == SumTo([x \in DOMAIN co |-> IF x < IdxOf(co, comp(i)) THEN copies(co[x]) ELSE 0], Len(co))
      bad == \E i \in fr : Cardinality(comp(i)) % NRes(Blk(I, i)) # 0
      \* the nodes of a fragment in residue-id order (F15, repaired: in set-iteration order = perm) cut into copies
      seqOf(i) == IF Dev.sliceAny THEN perm[comp(i)] ELSE Sorted(comp(i))
      sl(i) == LET s == seqOf(i)  p == IdxOf(s, i)  L == NRes(Blk(I, i))  f == ((p - 1) \div L) * L IN SubSeq(s, f + 1, f + L)
      \* the copies the residues belong to when the fragments are taken from all residue-graph edges
      sl0(i) == LET s == Sorted(Comp(I, i))  p == IdxOf(s, i)  L == NRes(Blk(I, i))  f == ((p - 1) \div L) * L IN SubSeq(s, f + 1, f + L)
      treeMatters == Dev.treeEdges /\ (bad \/ \E i \in fr : sl(i) # sl0(i))
  IN /\ fired' = IF treeMatters THEN fired \cup {"F31"} ELSE fired
     /\ IF bad
        THEN /\ err' = "mismatch" /\ pc' = "done"
             /\ UNCHANGED <<n2b, slice, fid>>
        ELSE /\ n2b' = [i \in Pos(I) |-> BlkName(I, i)]
             /\ slice' = [i \in Pos(I) |-> IF i \in fr THEN sl(i) ELSE <<i>>]
             /\ fid' = [i \in Pos(I) |-> IF i \in fr THEN before(i) + ((IdxOf(seqOf(i), i) - 1) \div NRes(Blk(I, i))) + 1 ELSE 0]
             /\ err' = "" /\ pc' = "tag"
\* iteration orders of the fragment components: residue-id order of their first residue, or (finding F32, repaired) any order -
\* nx.connected_components follows the insertion order of the nodes
CompOrders(fe) ==
  LET cs == {Reach(fe, {i}) : i \in {x \in Pos(inp) : IsFrag(inp, x)}} IN
    IF Dev.fragIdOrder THEN Perms(cs) ELSE {SetToSortSeq(cs, LAMBDA c1, c2 : MinOf(c1) < MinOf(c2))}
MatchNodes ==
  /\ pc = "match"
  /\ IF Dev.treeEdges
     THEN \E T \in DfsTrees(inp) : \E co \in CompOrders(FragEdges(inp) \cap T) :
            MatchWith(FragEdges(inp) \cap T, <<>>, co)
     ELSE IF Dev.sliceAny
     THEN \E perm \in [{Comp(inp, i) : i \in Pos(inp)} -> UNION {Perms(Comp(inp, i)) : i \in Pos(inp)}] :
            /\ \A c \in DOMAIN perm : ToSet(perm[c]) = c /\ Len(perm[c]) = Cardinality(c)
            /\ \E co \in CompOrders(FragEdges(inp)) : MatchWith(FragEdges(inp), perm, co)
     ELSE \E co \in CompOrders(FragEdges(inp)) : MatchWith(FragEdges(inp), <<>>, co)
  /\ UNCHANGED <<inp, bx, order, k, atoms, inters, medges, gattr, added, cbase, clist, removed, molN>>

(* ---- tag_exclusions ---- *)
\* History layer: one force-field OBJECT may serve several molecules in one process (I.hist = the residue names of the molecules
\* built before from the same object).  tag_exclusions changes the object: the blocks a mixed molecule uses keep the lowered nrexcl and
\* the tag with their original distance.  TagStep is one call of tag_exclusions on the block state X for the blocks `used`.
\*  intended: the original distance of a block is its tag if it carries one, else its nrexcl; a molecule that uses one distance restores it
\*  Dev.retagLowered (what the tree does, finding retag-lowered): the current - possibly lowered - nrexcl is taken for the original
\*           distance and written into the tag; nothing is restored
\*  Dev.tagDropped (seed5-C14-2): tags left by earlier molecules are removed while the distances are collected
TagStep(X, used, D) ==
  LET orig(b) == IF D.retagLowered \/ X[b].tag = NoTag \/ D.tagDropped THEN X[b].nrexcl ELSE X[b].tag
      ub == {b \in DOMAIN X : X[b].name \in used}
      ex == {orig(b) : b \in ub}
      lo == CHOOSE x \in ex : \A y \in ex : (IF D.exMax THEN y <= x ELSE x <= y)
  IN [b \in DOMAIN X |->
        IF b \notin ub THEN X[b]
        ELSE IF Cardinality(ex) > 1 THEN [name |-> X[b].name, nrexcl |-> lo, tag |-> IF D.exTagLost THEN NoTag ELSE orig(b)]
        ELSE IF D.retagLowered THEN (IF D.tagDropped THEN [X[b] EXCEPT !.tag = NoTag] ELSE X[b])
        ELSE [name |-> X[b].name, nrexcl |-> orig(b), tag |-> NoTag]]
RECURSIVE BxAfter(_, _, _, _)
BxAfter(I, X, h, D) == IF h > Len(I.hist) THEN X ELSE BxAfter(I, TagStep(X, ToSet(I.hist[h]), D), h + 1, D)
Bx0(I, D) == BxAfter(I, [b \in DOMAIN FB(I) |-> [name |-> FB(I)[b].name, nrexcl |-> FB(I)[b].nrexcl, tag |-> NoTag]], 1, D)
TagExclusions ==
  /\ pc = "tag"
  /\ LET I == inp
         used == {n2b[i] : i \in Pos(I)}
     IN /\ bx' = TagStep(Bx0(I, Dev), used, Dev)
        /\ fired' = IF Dev.retagLowered /\ TagStep(Bx0(I, Dev), used, Dev) # TagStep(Bx0(I, NoDev), used, NoDev)
                     THEN fired \cup {"retag-lowered"} ELSE fired
        \* add_blocks loops over the residue nodes sorted by residue id
        /\ \E o \in (IF Dev.unsorted THEN Perms(Pos(I)) ELSE {[i \in Pos(I) |-> i]}) : order' = o
  /\ pc' = "add" /\ k' = 1
  /\ UNCHANGED <<inp, n2b, slice, atoms, inters, medges, gattr, added, cbase, fid, clist, removed, molN, err>>

(* ---- add_blocks: one residue node per step ---- *)
BxOf(nm) == bx[CHOOSE b \in DOMAIN bx : bx[b].name = nm]
AddBlock ==
  /\ pc = "add" /\ k <= Len(order) /\ err = ""
  /\ LET I == inp
         r == order[k]
         b == BlockNamed(I, n2b[r])
         nb == Len(b.atoms)
         base == Len(atoms)
         ofs == IF Dev.offByOne /\ base > 0 THEN base - 1 ELSE base
     IN IF r \in added
        THEN \* the block copy of this fragment is already merged: pick this residue's atoms out of the stored correspondence
             \* (finding F32, repaired 8d129a5: the correspondences were stored in merge order but looked up by fragment number)
             IF Dev.fragIdOrder /\ fid[r] > Len(clist)
             THEN /\ err' = "fragindex" /\ fired' = fired \cup {"F32"}
                  /\ UNCHANGED <<atoms, inters, medges, gattr, added, cbase, clist, molN>>
             ELSE LET cb == IF Dev.fragIdOrder THEN clist[fid[r]] ELSE cbase[r] IN
                  /\ gattr' = [gattr EXCEPT ![r] = {g \in (cb + 1)..(cb + nb) : g <= Len(atoms) /\ atoms[g].resid = Resid(I, r)}]
                  /\ fired' = IF cb # cbase[r] THEN fired \cup {"F32"} ELSE fired
                  /\ UNCHANGED <<atoms, inters, medges, added, cbase, clist, molN, err>>
        ELSE LET \* offsets as merge_molecule computes them: residue id and charge group of the last atom present
                 roff == IF base = 0 THEN 0 ELSE atoms[base].resid
                 cgoff == IF base = 0 THEN 0 ELSE atoms[base].cg
                 newres(a) == IF k = 1
                              THEN (IF IsFrag(I, r) THEN b.atoms[a].res + (IF Dev.firstFragUnshifted THEN 0 ELSE Resid(I, r) - 1)
                                    ELSE IF Dev.firstKeeps THEN b.atoms[a].res ELSE Resid(I, r))
                              ELSE b.atoms[a].res + roff
                 new == [a \in 1..nb |-> [an |-> b.atoms[a].an, ty |-> b.atoms[a].ty, q |-> b.atoms[a].q, m |-> b.atoms[a].m,
                                         rn |-> b.atoms[a].rn, cg |-> b.atoms[a].cg + cgoff, resid |-> newres(a),
                                         ex |-> BxOf(b.name).tag, blk |-> b.name]]
                 mine == IF k = 1 /\ ~IsFrag(I, r) THEN (base + 1)..(base + nb)
                         ELSE {base + a : a \in {x \in 1..nb : new[x].resid = Resid(I, r)}}
             IN /\ atoms' = atoms \o new
                /\ inters' = inters \o [x \in DOMAIN b.inters |-> Shift(b.inters[x], ofs)]
                /\ medges' = medges \cup {{e[1] + base, e[2] + base} : e \in ToSet(b.edges)}
                /\ gattr' = [gattr EXCEPT ![r] = mine]
                /\ added' = IF IsFrag(I, r) THEN added \cup ToSet(slice[r]) ELSE added
                /\ cbase' = [i \in Pos(I) |-> IF IsFrag(I, r) /\ i \in ToSet(slice[r]) THEN base ELSE cbase[i]]
                /\ clist' = IF IsFrag(I, r) THEN Append(clist, base) ELSE clist
                /\ molN' = BxOf(b.name).nrexcl
                /\ err' = IF base > 0 /\ molN # BxOf(b.name).nrexcl THEN "nrexcl" ELSE err
                /\ fired' = IF k = 1 /\ IsFrag(I, r) /\ Dev.firstFragUnshifted /\ Resid(I, r) # 1 THEN fired \cup {"F14"} ELSE fired
  /\ k' = k + 1
  /\ UNCHANGED <<inp, pc, n2b, slice, bx, order, fid, removed>>
AddDone == /\ pc = "add" /\ (k > Len(order) \/ err # "") /\ pc' = (IF err = "" THEN "links" ELSE "done")
           /\ UNCHANGED <<inp, n2b, slice, bx, order, k, atoms, inters, medges, gattr, added, cbase, fid, clist, removed, molN, err, fired>>

(* ---- ApplyLinks.run_molecule ---- *)
\* interaction dictionary keyed by (section, atoms, version): last writer wins
RECURSIVE DictPut(_, _)
DictPut(d, s) == IF s = <<>> THEN d
                 ELSE LET x == Head(s)  hit == {j \in DOMAIN d : Key(d[j]) = Key(x)} IN
                        DictPut(IF hit = {} THEN Append(d, x) ELSE [d EXCEPT ![CHOOSE j \in hit : TRUE] = x], Tail(s))
RECURSIVE ApplyReps(_, _)
ApplyReps(A, s) == IF s = <<>> THEN A ELSE ApplyReps([A EXCEPT ![Head(s).a] = SetF(@, Head(s).f, Head(s).v)], Tail(s))
\* expand_excl: neighbourhood(node, max = tag, min = nrexcl) counts path length in nodes
Generated(A, E, N) ==
  IF \A g \in DOMAIN A : A[g].ex <= N THEN {} ELSE
  With(BallTab(E, Len(A), 5), LAMBDA T :
    {p \in PairsOf(Len(A)) : \E a \in p : \E b \in p \ {a} :
       /\ A[a].ex > N
       /\ LET hi == IF Dev.exCutoff THEN A[a].ex - 1 ELSE A[a].ex IN hi >= 0 /\ b \in T[a][hi + 1]
       /\ (N - 2 < 0 \/ b \notin T[a][N - 2 + 1])})
ApplyLinks ==
  /\ pc = "links"
  /\ \E apps \in {LinkApps(inp, atoms, gattr)} :
     LET I == inp
         \* a residue whose 'graph' is empty makes the atom look-up of any link that reaches it fail with an IndexError
         idxErr == ~I.useApps /\ \E li \in DOMAIN FL(I) : \E m \in ResMatches(I, FL(I)[li]) : gattr[m[1]] = {} \/ gattr[m[2]] = {}
         A1 == ApplyReps(atoms, FlattenSeq([j \in DOMAIN apps |-> apps[j].rep]))
         R == UNION {ToSet(apps[j].rem) : j \in DOMAIN apps}
         lseq == FlattenSeq([j \in DOMAIN apps |-> apps[j].ints])
         \* finding F30: the images of the block interactions go through the same dictionary, so images with equal
         \* (section, atoms, version) collapse; intended: only link interactions replace
         d0 == IF Dev.dedupKey THEN DictPut(<<>>, inters) ELSE SelectSeq(inters, LAMBDA x : \A y \in ToSet(lseq) : Key(y) # Key(x))
         d1 == IF Dev.dedupKey THEN DictPut(d0, lseq) ELSE d0 \o DictPut(<<>>, lseq)
         \* finding "removed-node-key-equals-version" (repaired, commit 5922ace): the write-back loop tested the members of the
         \* dictionary key (0-based atom keys ..., version number) instead of the atoms
         verHit(x) == Dev.versionInKey /\ \E v \in 1..9 : x.ver = VerTags[v] /\ (v + 1) \in R
         d2 == IF Dev.keepRemoved THEN d1 ELSE SelectSeq(d1, LAMBDA x : ~Touches(x, R) /\ ~verHit(x))
         \* finding F7 (repaired): relabel_and_redo_res_graph renumbers all residue ids from 0
         A2 == TLCEval(IF Dev.renumber /\ R # {} THEN [g \in DOMAIN A1 |-> [A1[g] EXCEPT !.resid = @ - I.start]] ELSE A1)
         \* explicit links: add_or_replace_interaction + edges, before expand_excl (seed3-C14-2: after it = Dev.explicitAfterExcl)
         xl == ExplLinks(I)
         xerr == \E j \in DOMAIN xl : \E a \in 1..2 : xl[j].ex[a] \in R \/ xl[j].ex[a] > Len(atoms)
         d3 == SelectSeq(d2, LAMBDA x : ~ExplHits(I, x)) \o [j \in DOMAIN xl |-> ExplInter(xl[j])]
         E1 == {e \in medges \cup LinkEdges(apps) : e \cap R = {}}
         E2 == E1 \cup {{xl[j].ex[1], xl[j].ex[2]} : j \in DOMAIN xl}
         gen == {p \in Generated(A2, IF Dev.explicitAfterExcl THEN E1 ELSE E2, molN) : p \cap R = {}}
         genSeq == SetToSeq(gen)
     IN IF idxErr \/ xerr THEN /\ err' = (IF idxErr THEN "index" ELSE "explicit") /\ pc' = "done" /\ UNCHANGED <<atoms, inters, medges, gattr, removed, fired>>
        ELSE /\ atoms' = A2
             /\ removed' = R
             /\ medges' = E2
             /\ gattr' = [i \in Pos(I) |-> gattr[i] \ R]
             /\ inters' = d3 \o [x \in DOMAIN genSeq |-> LET p == genSeq[x]  a == CHOOSE a \in p : \A o \in p : a <= o IN
                                    [sec |-> "exclusions", at |-> <<a, CHOOSE o \in p : o # a>>, par |-> <<>>, ver |-> "gen", occ |-> 1]]
             /\ fired' = (IF Dev.dedupKey /\ Len(d0) # Len(inters) THEN fired \cup {"F30"} ELSE fired)
                          \cup (IF \E j \in DOMAIN d1 : verHit(d1[j]) /\ ~Touches(d1[j], R) THEN {"removed-node-key-equals-version"} ELSE {})
             /\ err' = err /\ pc' = "mods"
  /\ UNCHANGED <<inp, n2b, slice, bx, order, k, added, cbase, fid, clist, molN>>

(* ---- ApplyModifications.run_molecule ---- *)
RECURSIVE ModFold(_, _, _, _)
ModFold(I, A, X, s) ==
  IF s > Len(ModSel(I)) THEN [atoms |-> A, inters |-> X]
  ELSE LET se == ModSel(I)[s] IN
       \* Dev.modAnyName: the residue name is not (or too loosely, seed-C01-2: by prefix) compared with the amino-acid names
       IF ~(ModEligible(I, se) \/ (Dev.modAnyName /\ \E x \in DOMAIN FM(I) : FM(I)[x].name = se.mod)) THEN ModFold(I, A, X, s + 1)
       ELSE LET md == ModNamed(I, se.mod)
                \* Dev.modAnyRes: atoms are looked up by name in the whole molecule instead of the target residue
                scope == IF Dev.modAnyRes THEN (1..Len(A)) \ removed ELSE gattr[se.pos]
                hit(g) == {x \in DOMAIN md.atoms : md.atoms[x].an = A[g].an}
                A2 == [g \in DOMAIN A |-> IF g \in scope /\ hit(g) # {}
                                          THEN LET x == CHOOSE x \in hit(g) : TRUE IN
                                                 IF md.atoms[x].rep THEN [A[g] EXCEPT !.ty = md.atoms[x].ty, !.q = md.atoms[x].q] ELSE A[g]
                                          ELSE A[g]]
                idx(nm) == CHOOSE g \in scope : A[g].an = nm /\ \A o \in scope : A[o].an = nm => o <= g
                X2 == X \o [x \in DOMAIN md.inters |-> [sec |-> md.inters[x].sec, par |-> md.inters[x].par, ver |-> "i1", occ |-> s,
                                                        at |-> <<idx(md.inters[x].a), idx(md.inters[x].b)>>]]
            IN ModFold(I, A2, X2, s + 1)
ApplyMods ==
  /\ pc = "mods"
  /\ LET r == ModFold(inp, atoms, inters, 1) IN atoms' = r.atoms /\ inters' = r.inters
  /\ pc' = "done"
  /\ UNCHANGED <<inp, n2b, slice, bx, order, k, medges, gattr, added, cbase, fid, clist, removed, molN, err, fired>>

Next == MatchNodes \/ TagExclusions \/ AddBlock \/ AddDone \/ ApplyLinks \/ ApplyMods
Spec == Init /\ [][Next]_vars

(* ------------------------------------------------------------------ *)
(* projection of the I-layer state = what the written .itp shows       *)
(* ------------------------------------------------------------------ *)
Strip(a) == [an |-> a.an, ty |-> a.ty, q |-> a.q, m |-> a.m, rn |-> a.rn, cg |-> a.cg, resid |-> a.resid]
Keep == SelectSeq([g \in 1..Len(atoms) |-> g], LAMBDA g : g \notin removed)
ProjAtoms == With(Keep, LAMBDA kp : TLCEval([x \in DOMAIN kp |-> Strip(atoms[kp[x]])]))
\* with Dev.keepRemoved an interaction may still point at a removed atom: such an atom projects to index 0
ProjInter(x) == [x EXCEPT !.at = [j \in DOMAIN x.at |-> IF x.at[j] \in removed THEN 0 ELSE RenumIdx(x.at[j], removed)]]
ProjInters == TLCEval([x \in DOMAIN inters |-> ProjInter(inters[x])])
ProjGattr == TLCEval([i \in Pos(inp) |-> {RenumIdx(g, removed) : g \in gattr[i]}])
IsGen(x) == x.ver = "gen"

(* ------------------------------------------------------------------ *)
(* properties                                                         *)
(* ------------------------------------------------------------------ *)
\* C01: the final molecule is PFinal - every residue a verbatim, re-indexed copy of its block, each block interaction exactly
\* once per copy, differences only where a link / modification names them ((i)-(v) of DESIGN 4.1)
C01_Inv == (pc = "done") =>
   \E F \in {PFinal(inp)} : \E own \in {SelectSeq(ProjInters, LAMBDA x : ~IsGen(x))} :
     /\ err = ""
     /\ ProjAtoms = F.atoms
     /\ ToSet(own) = F.inters /\ Len(own) = Cardinality(F.inters)
     /\ ProjGattr = F.gattr
\* after MapToMolecule alone (no link, no modification yet) the molecule is PBase
Base_Inv == (pc = "links") =>
   \E B \in {PBase(inp)} :
     /\ [g \in DOMAIN atoms |-> Strip(atoms[g])] = B.atoms
     /\ ToSet(inters) = B.inters /\ Len(inters) = B.ninters
     /\ medges = B.edges /\ gattr = B.gattr
\* the atoms of residue i carry i's residue id and the residue ids increase along the molecule: every residue exactly once
Layout_Inv == (pc = "done" /\ err = "") =>
   \E PA \in {ProjAtoms} : \E PG \in {ProjGattr} :
     /\ \A x \in 1..(Len(PA) - 1) : PA[x].resid <= PA[x + 1].resid
     /\ \A i \in Pos(inp) : \A g \in PG[i] : PA[g].resid = Resid(inp, i)
\* C14
C14_Inv == (pc = "done") =>
   /\ err = ""
   /\ \E PI \in {ToSet(ProjInters)} : ExclEff(molN, PI, Len(ProjAtoms)) = ExclP(inp)
   /\ Uniform(inp) => /\ molN = CHOOSE x \in UsedNrexcl(inp) : TRUE
                      /\ ~\E x \in ToSet(ProjInters) : IsGen(x)
\* non-vacuity helpers (must be violated): some behaviour reaches the interesting situations
Reach_Frag2 == ~(pc = "done" /\ \E i \in Pos(inp) : IsFrag(inp, i) /\ Cardinality(Comp(inp, i)) > NRes(Blk(inp, i)))
Reach_Removed == ~(pc = "done" /\ removed # {})
Reach_Gen == ~(pc = "done" /\ \E x \in ToSet(inters) : IsGen(x))
Reach_Mod == ~(pc = "done" /\ \E s \in DOMAIN ModSel(inp) : ModEligible(inp, ModSel(inp)[s]))
=============================================================================
