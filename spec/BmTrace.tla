---------------------------- MODULE BmTrace ----------------------------
(* I->S for C06: one trace per molecule handed to the real Backmap.run_molecule (real optimiser, real          *)
(* templates).  The header lists the residues in node order (flag, template key, atoms); one "place" event is   *)
(* recorded per orient_template call with the list of built residues the code passed, the set of atoms whose   *)
(* coordinates changed, and the four booleans of the numeric monitor (Kabsch fit of the placed atoms to the     *)
(* template): the trace specification REQUIRES them.  Residues that are not flagged produce no event: the       *)
(* specification takes Skip silently.  "end" closes the trace: every flagged residue must have been placed.    *)
(* Doc.rots holds sampled outputs of rotate_xyz: orthogonality / determinant booleans for arbitrary angles and, *)
(* for multiples of pi/2, the rounded matrix which must equal the integer matrix of the specification.          *)
EXTENDS Backmap, Json, IOUtils, SequencesExt
VARIABLES tid, l
Doc == JsonDeserialize(IOEnv.TRACE_FILE)
Traces == Doc.traces
TNone == [names |-> <<"x">>, u |-> [n \in {"x"} |-> <<0, 0, 0>>], bonds |-> <<>>, vs |-> <<>>]
TTypeDefs == [t \in {"none"} |-> TNone]
TMols == {<<>>}
TFudges == {<<1, 1>>}
TAngles == {<<0, 0, 0>>}
ASSUME TLCSet(1, {}) /\ TLCSet(2, [t \in 1..Len(Traces) |-> 0])
Tr == Traces[tid]
Ev == Tr.events[l]
NodeOf(r) == Tr.nodes[r]
TMol == [r \in 1..Len(Tr.nodes) |-> [type |-> NodeOf(r).key, centre |-> <<0, 0, 0>>, bm |-> NodeOf(r).bm]]
TInit == /\ tid \in 1..Len(Traces) /\ l = 1
         /\ mol = [r \in 1..Len(Traces[tid].nodes) |-> [type |-> Traces[tid].nodes[r].key, centre |-> <<0, 0, 0>>, bm |-> Traces[tid].nodes[r].bm]]
         /\ fud = <<1, 1>> /\ placed = 0 /\ done = {} /\ built = <<>> /\ pos = <<>> /\ last = [op |-> "init", r |-> 0]
Keep == tid' = tid /\ pos' = pos
\* a residue that is not flagged is passed over without any call
TSkip == SkipProto /\ last' = [op |-> "skip", r |-> placed + 1] /\ l' = l /\ Keep
BuiltResids == [i \in 1..Len(built) |-> NodeOf(built[i]).resid]
TPlace == /\ l <= Len(Tr.events) /\ Ev.op = "place"
          /\ PlaceProto
          /\ Ev.node = placed + 1                                          \* node order
          /\ Ev.built = BuiltResids                                        \* the list handed to orient_template
          /\ Ev.key = NodeOf(placed + 1).key                               \* the residue's own template
          /\ ToSet(Ev.changed) = ToSet(NodeOf(placed + 1).atoms)           \* own residue only, every atom of it
          /\ Len(Ev.changed) = Len(NodeOf(placed + 1).atoms)
          /\ ToSet(NodeOf(placed + 1).names) = ToSet(Tr.tnames[Ev.key])    \* one template position per atom name
          /\ Len(NodeOf(placed + 1).names) = Cardinality(ToSet(NodeOf(placed + 1).names))
          /\ Ev.centred /\ Ev.rigid /\ Ev.scale_ok /\ Ev.proper            \* numeric monitor
          /\ last' = [op |-> "place", r |-> placed + 1] /\ l' = l + 1 /\ Keep
TEnd == /\ l <= Len(Tr.events) /\ Ev.op = "end"
        /\ placed = Len(mol)
        /\ ToSet(Ev.changed) = UNION {ToSet(NodeOf(r).atoms) : r \in done}
        /\ UNCHANGED <<mol, fud, placed, done, built, last>> /\ l' = l + 1 /\ Keep
TNext == TSkip \/ TPlace \/ TEnd
TSpec == TInit /\ [][TNext]_<<vars, tid, l>>
Mark == (l = Len(Tr.events) + 1) => TLCSet(1, TLCGet(1) \cup {tid})
Prog == TLCSet(2, [TLCGet(2) EXCEPT ![tid] = IF @ < l - 1 THEN l - 1 ELSE @])
\* sampled rotate_xyz outputs
RotOK(s) == /\ s.orth /\ s.det_ok
            /\ s.lattice => AsTuple(s.m) = RotCalc(<<s.k[1] % 4, s.k[2] % 4, s.k[3] % 4>>)
BadRots == {i \in 1..Len(Doc.rots) : ~RotOK(Doc.rots[i])}
Accepted == /\ IF TLCGet(1) = 1..Len(Traces) THEN TRUE
               ELSE (PrintT(<<"REJECTED", ToJson(SetToSeq({<<t, TLCGet(2)[t]>> : t \in (1..Len(Traces)) \ TLCGet(1)}))>>) /\ FALSE)
            /\ IF BadRots = {} THEN TRUE ELSE (PrintT(<<"REJECTEDROT", ToJson(SetToSeq(BadRots))>>) /\ FALSE)
=============================================================================
