SPECIFICATION Spec
CONSTANTS
 Cases <- CasesProt
 FFs <- FFcat
 Dev <- DevKey0
INVARIANT Confluent
CHECK_DEADLOCK FALSE
