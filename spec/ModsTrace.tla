------------------------------ MODULE ModsTrace ------------------------------
(* I->S for X05: runs of the real ApplyModifications (random force fields / modifications / requests beyond the model bound, *)
(* the shipped martini3 library) recorded through wrappers are validated against the I-layer of Mods step by step.  A trace  *)
(* carries its input (library id, residues, the projected molecule before the modifications, the requests as given) and one   *)
(* event per observable action: load | error(load), begin | nomods (with the parsed requests), select | skip, visit (atom,     *)
(* assignments), add (interaction), error (kind) | finish (with the projected atoms and the added interactions).  `next` (end  *)
(* of a request) is silent.  The flags of the open findings follow the ledger (Doc.asis); the findings that changed a          *)
(* behaviour are reported per trace (FIRED).                                                                                   *)
EXTENDS Mods, Json, IOUtils, SequencesExt
VARIABLES tid, l
Doc == JsonDeserialize(IOEnv.TRACE_FILE)
Traces == Doc.traces
TLibOf(id) == Doc.libs[id]
TDev == [NoDev EXCEPT !.trunc2 = Doc.asis.trunc2, !.terKeyError = Doc.asis.terKeyError, !.edgeFirstChar = Doc.asis.edgeFirstChar]
ASSUME TLCSet(1, {}) /\ TLCSet(2, [t \in 1..Len(Traces) |-> 0]) /\ TLCSet(3, [t \in 1..Len(Traces) |-> {}])
Tr == Traces[tid]
E == Tr.events[l]
TInit == tid \in 1..Len(Traces) /\ l = 1 /\ inp = Traces[tid].inp /\ InitRest
AddedOf(s) == [y \in 1..(Len(s) - Len(inp.base)) |-> Strip(s[Len(inp.base) + y])]
Match == /\ ev'.op = E.op /\ ev'.k = E.k /\ ev'.a = E.a /\ ev'.sets = E.sets /\ ev'.x = E.x /\ ev'.err = E.err
         /\ (E.op \in {"begin", "nomods"} => reqs' = E.reqs)
         /\ (E.op \in {"finish", "error"} => atoms' = E.atoms /\ AddedOf(inters') = E.added)
TNext == /\ Next
         /\ IF ev'.op = "next" THEN l' = l
            ELSE l <= Len(Tr.events) /\ Match /\ l' = l + 1
         /\ tid' = tid
Finished == l = Len(Tr.events) + 1 /\ Done
Mark == Finished => (TLCSet(1, TLCGet(1) \cup {tid}) /\ TLCSet(3, [TLCGet(3) EXCEPT ![tid] = fired]))
Prog == TLCSet(2, [TLCGet(2) EXCEPT ![tid] = IF @ < l - 1 THEN l - 1 ELSE @])
ResolveUnlessFired == fired = {} => ResolveLaw
Accepted == /\ PrintT(<<"FIRED", ToJson([t \in 1..Len(Traces) |-> SetToSeq(TLCGet(3)[t])])>>)
            /\ IF TLCGet(1) = 1..Len(Traces) THEN TRUE
               ELSE (PrintT(<<"REJECTED", ToJson(SetToSeq({<<t, TLCGet(2)[t]>> : t \in (1..Len(Traces)) \ TLCGet(1)}))>>) /\ FALSE)
=============================================================================
