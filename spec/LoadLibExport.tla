--------------------------- MODULE LoadLibExport ---------------------------
(* S->I export for X02: every configuration with the I-layer history (one entry per action: label, file, projected      *)
(* store after it) and the P-layer's final answers.                                                                      *)
EXTENDS LoadLibMC, Json
VARIABLE hist
XInit == Init /\ hist = <<>>
XNext == Next /\ hist' = Append(hist, [op |-> Label, file |-> FileName, st |-> Proj(st')])
XSpec == XInit /\ [][XNext]_<<vars, hist>>
AllF == AllFiles(cfg)
Exp == [lastlink |-> [nm \in {"A", "B"} |-> PLastLink(AllF, nm)],
        effblock |-> [nm \in {"A", "B", "C"} |-> IF \E b \in PBlocks(AllF) : b.n = nm THEN (CHOOSE b \in PBlocks(AllF) : b.n = nm).d ELSE 0],
        order |-> PBlockOrder(AllF), err |-> PErr(cfg, Len(POrder(cfg)))]
ExportInv == Done => PrintT(<<"CASE", ToJson([cfg |-> cfg, hist |-> hist, exp |-> Exp, idrisk |-> risk])>>)
=============================================================================
