--------------------------- MODULE LoadLibExport ---------------------------
(* S->I export for X02: every configuration with the I-layer history (one entry per action: label, file, projected      *)
(* store after it) and the P-layer's final answers.                                                                      *)
EXTENDS LoadLibMC, Json
VARIABLE hist
Pairs(seq) == [i \in 1..Len(seq) |-> [n |-> seq[i].n, d |-> seq[i].d]]
Proj(s) == [blocks |-> Pairs(s.blocks), links |-> s.links, mods |-> Pairs(s.mods),
            cites |-> SetToSortSeq(s.cites, LAMBDA a, b : a.d < b.d),
            volR |-> Pairs(s.volR), volG |-> [i \in 1..Len(s.volG) |-> [n |-> s.volG[i].n, d |-> s.volG[i].d, named |-> s.volG[i].named]],
            tmpl |-> Pairs(s.tmpl), err |-> s.err]
Label == IF pc = "idle" THEN (LET f == Head(queue) IN IF Parsed(cfg.mode, f) THEN "open" ELSE IF f.user THEN "error" ELSE "skip")
         ELSE IF cur.kind = "bib" THEN "end"
         ELSE IF cur.kind = "bld" THEN (IF si < Len(cur.secs) THEN "bldsec" ELSE "end")
         ELSE IF ph = "new" /\ si < Len(cur.secs) THEN (IF cur.secs[si + 1].t = "other" THEN "new_other" ELSE "new")
         ELSE IF ph = "fin" THEN "fin"
         ELSE IF ph = "new" THEN "finempty"
         ELSE "end"
FileName == IF pc = "idle" THEN Head(queue).name ELSE cur.name
XInit == Init /\ hist = <<>>
XNext == Next /\ hist' = Append(hist, [op |-> Label, file |-> FileName, st |-> Proj(st')])
XSpec == XInit /\ [][XNext]_<<vars, hist>>
AllF == AllFiles(cfg)
Exp == [lastlink |-> [nm \in {"A", "B"} |-> PLastLink(AllF, nm)],
        effblock |-> [nm \in {"A", "B", "C"} |-> IF \E b \in PBlocks(AllF) : b.n = nm THEN (CHOOSE b \in PBlocks(AllF) : b.n = nm).d ELSE 0],
        order |-> PBlockOrder(AllF), err |-> PErr(cfg, Len(POrder(cfg)))]
ExportInv == Done => PrintT(<<"CASE", ToJson([cfg |-> cfg, hist |-> hist, exp |-> Exp])>>)
=============================================================================
