SPECIFICATION Spec
CONSTANTS
 Cases <- DevCases
 MaxFail = 0
 DevItpBeforeLinks = FALSE
 DevGroBlockOrder = FALSE
 DevGateSkipped = TRUE
 DevJsonIdShift = FALSE
 DevContinueAfterFail = FALSE
INVARIANT GateLaw
CHECK_DEADLOCK FALSE
