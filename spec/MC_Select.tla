---------------------------- MODULE MC_Select ----------------------------
(* Instance families of Select (C18).  Every family varies one aspect exhaustively inside the bound of DESIGN 4.18:  *)
(* <= 5 molecules over 3 names with repeats, <= 4 residues per molecule over 2 residue names, ranges lo,hi in 0..5,  *)
(* all 16 field-omission patterns of a residue specification, split strings over residues of 2-4 atoms.              *)
EXTENDS Select

NoSpec == [hasMol |-> FALSE, mol |-> "", hasIdx |-> FALSE, idx |-> 0, hasRn |-> FALSE, rn |-> "", hasId |-> FALSE, id |-> 0]
AtomNames == <<"a1", "a2", "a3", "a4">>
Res(rn, id, n) == [rn |-> rn, id |-> id, atoms |-> SubSeq(AtomNames, 1, n)]
Line(k, name, lo, hi, tag) == [k |-> k, name |-> name, lo |-> lo, hi |-> hi, tag |-> tag]
\* three molecule types, every one with at least two residues (distance restraints address nodes 0 and 1)
T3 == [MA |-> <<Res("RA", 1, 2), Res("RB", 2, 3), Res("RB", 3, 2)>>,
       MB |-> <<Res("RB", 1, 2), Res("RA", 2, 2)>>,
       MC |-> <<Res("RB", 1, 1), Res("RB", 2, 2), Res("RA", 3, 2), Res("RB", 4, 2)>>]
\* ligand residues get their own atom names: residues with equal atom names and bonds share one template (and volume), see C15
T4 == [MA |-> T3.MA, MB |-> T3.MB, MC |-> T3.MC, LG |-> <<[rn |-> "W", id |-> 1, atoms |-> <<"w1">>], [rn |-> "V", id |-> 2, atoms |-> <<"v1">>]>>]
Base == [fam |-> "", mols |-> <<>>, types |-> T3, split |-> <<>>, bld |-> <<>>, vols |-> <<>>, start |-> <<>>, lig |-> <<>>]
SeqsUpTo(S, n) == UNION {[1..k -> S] : k \in 1..n}
MolNames == {"MA", "MB", "MC"}
R05 == 0..5
Ordered == {r \in R05 \X R05 : r[1] <= r[2]} \cup {<<3, 1>>}

(* ---- [ molecule ] name lo hi : every molecule list x every block header ---- *)
FMol(n) == \E ms \in SeqsUpTo(MolNames, n), nm \in MolNames, lo \in R05, hi \in R05 :
             InitCase([Base EXCEPT !.fam = "mol", !.mols = ms,
                          !.bld = <<Line("mol", nm, lo, hi, 0), Line("geom", "RB", 1, 3, 1), Line("rw", "RA", 1, 4, 2)>>])
(* ---- molecule-level directives of a block (distance restraint between nodes 0 and 1, persistence length) ---- *)
FMolD == \E ms \in SeqsUpTo({"MA", "MB"}, 3), nm \in {"MA", "MB"}, lo \in R05, hi \in R05, k \in {"dist", "pers"} :
           InitCase([Base EXCEPT !.fam = "mold", !.mols = ms, !.bld = <<Line("mol", nm, lo, hi, 0), Line(k, "", 0, 1, 3)>>])
(* ---- residue directive: every residue-name sequence of length 1..4, first residue id 1 or 2 ---- *)
FRes == \E rs \in SeqsUpTo({"RA", "RB"}, 4), off \in {0, 1}, kd \in {"geom", "rw"}, rn \in {"RA", "RB"}, lo \in R05, hi \in R05 :
          InitCase([Base EXCEPT !.fam = "res", !.mols = <<"MA">>,
                       !.types = [MA |-> [k \in 1..Len(rs) |-> Res(rs[k], k + off, 2)]],
                       !.bld = <<Line("mol", "MA", 0, 1, 0), Line(kd, rn, lo, hi, 1)>>])
(* ---- two blocks: overlapping / adjacent / nested / empty molecule ranges, same and different names ---- *)
FMulti == \E r1 \in Ordered, r2 \in Ordered, n2 \in {"MA", "MB", "MX"} :      \* MX: a name no molecule carries
            InitCase([Base EXCEPT !.fam = "multi", !.mols = <<"MA", "MB", "MA", "MA", "MB">>,
                         !.bld = <<Line("mol", "MA", r1[1], r1[2], 0), Line("geom", "RB", 1, 3, 1), Line("rw", "RA", 1, 2, 2),
                                   Line("mol", n2, r2[1], r2[2], 0), Line("geom", "RB", 2, 4, 3), Line("rw", "RB", 2, 3, 4)>>])
(* ---- two residue lines of one block: overlapping / adjacent / nested / empty resid ranges ---- *)
FMultiR == \E r1 \in Ordered, r2 \in Ordered, n1 \in {"RA", "RB"}, n2 \in {"RA", "RB"} :
             InitCase([Base EXCEPT !.fam = "multir", !.mols = <<"MC">>,
                          !.bld = <<Line("mol", "MC", 0, 1, 0), Line("geom", n1, r1[1], r1[2], 1), Line("geom", n2, r2[1], r2[2], 2)>>])

(* ---- -start: all field-omission patterns x values ---- *)
Specs(mols, idxs, rns, ids) ==
  { [hasMol |-> hm, mol |-> IF hm THEN mo ELSE "", hasIdx |-> hi, idx |-> IF hi THEN ix ELSE 0,
     hasRn |-> hr, rn |-> IF hr THEN rn ELSE "", hasId |-> hd, id |-> IF hd THEN id ELSE 0]
    : hm \in BOOLEAN, mo \in mols, hi \in BOOLEAN, ix \in idxs, hr \in BOOLEAN, rn \in rns, hd \in BOOLEAN, id \in ids }
StartMols == <<"MA", "MB", "MA", "MC", "MB">>
\* domain: a specification finds a residue in every molecule it selects (otherwise the code raises IndexError)
StartInDomain(c, sp) == /\ \A m \in SpecMols(c, sp) : SpecRes(PNodes(c, m), sp) # {}
                        /\ (Contradictory(c, sp) => SpecRes(PNodes(c, sp.idx), sp) # {})
FStart == LET b == [Base EXCEPT !.fam = "start", !.mols = StartMols] IN
          \E sp \in Specs(MolNames, 0..4, {"RA", "RB"}, 1..4) : StartInDomain(b, sp) /\ InitCase([b EXCEPT !.start = <<sp>>])
\* two specifications naming disjoint sets of molecules
Sp(hm, mo, hi, ix, hr, rn, hd, id) == [hasMol |-> hm, mol |-> mo, hasIdx |-> hi, idx |-> ix, hasRn |-> hr, rn |-> rn, hasId |-> hd, id |-> id]
Start2List == { Sp(TRUE, "MA", FALSE, 0, TRUE, "RB", FALSE, 0), Sp(TRUE, "MA", TRUE, 2, TRUE, "RB", TRUE, 3), Sp(FALSE, "", TRUE, 0, FALSE, "", TRUE, 2),
                Sp(TRUE, "MB", FALSE, 0, TRUE, "RA", FALSE, 0), Sp(FALSE, "", TRUE, 3, TRUE, "RB", TRUE, 4), Sp(TRUE, "MC", TRUE, 3, FALSE, "", FALSE, 0),
                Sp(FALSE, "", TRUE, 4, FALSE, "", FALSE, 0), Sp(TRUE, "MB", TRUE, 1, FALSE, "", TRUE, 2) }
FStart2 == LET b == [Base EXCEPT !.fam = "start2", !.mols = StartMols] IN
           \E s1 \in Start2List, s2 \in Start2List : SpecMols(b, s1) \cap SpecMols(b, s2) = {} /\ InitCase([b EXCEPT !.start = <<s1, s2>>])

(* ---- -lig host:ligand ---- *)
LigMols == <<"MA", "LG", "MB", "LG", "LG">>
HostSpecs == Specs({"MA", "MB"}, {0, 2}, {"RA", "RB"}, {1, 2})
LigSpecs == Specs({"LG"}, {1, 2, 3}, {"W", "V"}, {1, 2})
\* domain: no molecule is host and ligand at once; the ligand specification finds a residue in every ligand molecule;
\* (more host residues than ligand molecules, and a ligand without name and index, must be rejected: kept)
LigInDomain(c, h, l) ==
  LET hosts == UNION { {<<m, n>> : n \in SpecRes(PNodes(c, m), h)} : m \in SpecMols(c, h) }
      ligm == IF l.hasIdx THEN {l.idx} ELSE SpecMols(c, l)           \* also what the code would take
  IN /\ {x[1] : x \in hosts} \cap ligm = {}
     /\ \A m \in ligm : SpecRes(PNodes(c, m), l) # {}
FLig == LET b == [Base EXCEPT !.fam = "lig", !.mols = LigMols, !.types = T4] IN
        \E h \in HostSpecs, l \in LigSpecs, v \in {<<>>, <<"W", "V">>} :
           /\ LigInDomain(b, h, l) /\ (v = <<>> \/ ~l.hasId)
           /\ InitCase([b EXCEPT !.lig = <<[h |-> h, l |-> l]>>, !.vols = v])
\* two -lig options with disjoint ligand molecules
FLig2 == LET b == [Base EXCEPT !.fam = "lig2", !.mols = LigMols, !.types = T4] IN
         \E h1 \in {Sp(TRUE, "MA", FALSE, 0, TRUE, "RA", FALSE, 0), Sp(FALSE, "", TRUE, 2, FALSE, "", TRUE, 1)},
            h2 \in {Sp(TRUE, "MB", FALSE, 0, TRUE, "RA", FALSE, 0), Sp(TRUE, "MA", TRUE, 0, TRUE, "RB", TRUE, 2)}, ix \in {3, 4} :
           InitCase([b EXCEPT !.lig = <<[h |-> h1, l |-> Sp(TRUE, "LG", TRUE, 1, FALSE, "", FALSE, 0)],
                                        [h |-> h2, l |-> Sp(FALSE, "", TRUE, ix, TRUE, "W", FALSE, 0)]>>])

(* ---- -split: every assignment of the atoms of RB (2-4 atoms) to {stay, X, Y} ---- *)
PartsOf(asg, k) == LET at(nn) == SelectSeq(SubSeq(AtomNames, 1, k), LAMBDA a : \E j \in 1..k : AtomNames[j] = a /\ asg[j] = nn)
                   IN SelectSeq(<<[nn |-> "X", atoms |-> at("X")], [nn |-> "Y", atoms |-> at("Y")]>>, LAMBDA p : p.atoms # <<>>)
SplitTypes(k) == [MA |-> <<Res("RA", 1, 2), Res("RB", 2, k), Res("RA", 3, 2), Res("RB", 4, k)>>, MB |-> <<Res("RB", 1, k), Res("RB", 2, k)>>]
Asgs(k) == {a \in [1..k -> {"", "X", "Y"}] : \E j \in 1..k : a[j] # ""}
FSplit == \E k \in 2..4 : \E a \in Asgs(k), ms \in {<<"MA", "MB", "MA">>, <<"MB", "MB">>} :
            InitCase([Base EXCEPT !.fam = "split", !.mols = ms, !.types = SplitTypes(k), !.split = <<[rn |-> "RB", parts |-> PartsOf(a, k)]>>])
\* two split strings (RA and RB)
FSplit2 == \E a \in Asgs(2), b \in Asgs(3) :
             InitCase([Base EXCEPT !.fam = "split2", !.mols = <<"MA", "MB">>, !.types = SplitTypes(3),
                          !.split = <<[rn |-> "RA", parts |-> PartsOf(a, 2)], [rn |-> "RB", parts |-> PartsOf(b, 3)]>>])

(* ---- two split strings for different residue names that create the SAME new residue name, both string orders, every chain ---- *)
(* ---- of 3-4 residues over {RA, RB} that holds both: residues from different sources must stay different residues          ---- *)
FSplit3 == \E rs \in SeqsUpTo({"RA", "RB"}, 4), a \in Asgs(2), b \in Asgs(2), o \in BOOLEAN :
             /\ Len(rs) >= 3 /\ {rs[i] : i \in 1..Len(rs)} = {"RA", "RB"}
             /\ ({a[j] : j \in 1..2} \cap {b[j] : j \in 1..2}) \ {""} # {}
             /\ LET sa == [rn |-> "RA", parts |-> PartsOf(a, 2)]  sb == [rn |-> "RB", parts |-> PartsOf(b, 2)] IN
                InitCase([Base EXCEPT !.fam = "split3", !.mols = <<"MA">>, !.types = [MA |-> [k \in 1..Len(rs) |-> Res(rs[k], k, 2)]],
                                      !.split = IF o THEN <<sa, sb>> ELSE <<sb, sa>>])

(* ---- listing order independent of residue id (star / graft / capped molecules: core listed first, numbered last): every ---- *)
(* ---- permutation of the ids 1..n over the listed residues, n = 3, 4                                                   ---- *)
Perms(n) == {p \in [1..n -> 1..n] : \A i, j \in 1..n : i # j => p[i] # p[j]}
PermNames(n) == IF n = 3 THEN {<<"RB", "RB", "RB">>, <<"RA", "RB", "RB">>} ELSE {<<"RB", "RB", "RB", "RB">>, <<"RA", "RB", "RB", "RA">>, <<"RB", "RA", "RB", "RB">>}
FPerm == \E n \in {3, 4} : \E p \in Perms(n), rs \in PermNames(n), r \in Ordered, rn \in {"RA", "RB"}, kd \in {"geom", "rw"} :
           /\ (kd = "rw" => n = 3)
           /\ InitCase([Base EXCEPT !.fam = "perm", !.mols = <<"MA", "MA">>,
                                    !.types = [MA |-> [k \in 1..n |-> Res(rs[k], p[k], 2)]],
                                    !.bld = <<Line("mol", "MA", 0, 2, 0), Line(kd, rn, r[1], r[2], 1)>>])
\* -split and -start on a molecule whose residues are not listed in id order
FPermSplit == \E p \in Perms(3), a \in Asgs(2), hd \in BOOLEAN :
                InitCase([Base EXCEPT !.fam = "permsplit", !.mols = <<"MA">>,
                                     !.types = [MA |-> <<Res("RA", p[1], 2), Res("RB", p[2], 2), Res("RB", p[3], 2)>>],
                                     !.split = IF hd THEN <<[rn |-> "RB", parts |-> PartsOf(a, 2)]>> ELSE <<>>,
                                     !.start = IF hd THEN <<>> ELSE <<Sp(TRUE, "MA", FALSE, 0, a[1] = "X", "RB", TRUE, p[3])>>])

(* ---- options address the residues -split creates (ids from 0) ---- *)
ComboTypes == [MB |-> <<Res("RB", 1, 3), Res("RB", 2, 3)>>, LG |-> <<[rn |-> "W", id |-> 1, atoms |-> <<"w1">>]>>]
FCombo == \E r \in {<<0, 1>>, <<0, 3>>, <<2, 3>>, <<1, 2>>}, q \in {<<0, 1>>, <<0, 3>>, <<2, 4>>, <<1, 2>>, <<0, 5>>} :
          InitCase([Base EXCEPT !.fam = "combo", !.mols = <<"MB", "LG", "MB">>, !.types = ComboTypes, !.vols = <<"W">>,
                         !.split = <<[rn |-> "RB", parts |-> <<[nn |-> "X", atoms |-> <<"a1">>], [nn |-> "Y", atoms |-> <<"a3", "a2">>]>>]>>,
                         !.bld = <<Line("mol", "MB", r[1], r[2], 0), Line("geom", "X", q[1], q[2], 1)>>,
                         !.start = <<Sp(TRUE, "MB", FALSE, 0, TRUE, "Y", TRUE, 3)>>,
                         !.lig = <<[h |-> Sp(FALSE, "", TRUE, 2, TRUE, "X", TRUE, 0), l |-> Sp(TRUE, "LG", FALSE, 0, FALSE, "", FALSE, 0)]>>])

RestA == FMolD \/ FRes \/ FMulti \/ FMultiR \/ FPerm \/ FPermSplit
RestB == FStart \/ FStart2 \/ FLig \/ FLig2 \/ FSplit \/ FSplit2 \/ FSplit3 \/ FCombo
Rest == RestA \/ RestB
QuickInit == FMol(4) \/ Rest
FullInit == FMol(5) \/ Rest
QuickSpec == QuickInit /\ [][Next]_vars
FullSpec == FullInit /\ [][Next]_vars
NoDev == {{}}

(* ---- sensitivity: a handful of cases on which every deviation shows ---- *)
DevCases ==
  { [Base EXCEPT !.fam = "dev", !.mols = <<"MA">>, !.types = [MA |-> <<Res("RB", 4, 2), Res("RB", 1, 2), Res("RB", 2, 2)>>],
                 !.bld = <<Line("mol", "MA", 0, 1, 0), Line("geom", "RB", 1, 3, 1)>>],
    [Base EXCEPT !.fam = "dev", !.mols = <<"MA", "MB", "MA", "MA">>,
                 !.bld = <<Line("mol", "MA", 0, 2, 0), Line("geom", "RB", 1, 2, 1), Line("rw", "RA", 1, 2, 2), Line("rw", "RB", 3, 4, 3),
                           Line("dist", "", 0, 1, 4), Line("pers", "", 0, 1, 5)>>],
    [Base EXCEPT !.fam = "dev", !.mols = <<"MA", "MB", "MA", "MC", "MB">>, !.start = <<Sp(TRUE, "MB", TRUE, 2, FALSE, "", TRUE, 2)>>],
    [Base EXCEPT !.fam = "dev", !.mols = <<"MA", "MB", "MA", "MC", "MB">>, !.start = <<Sp(FALSE, "", FALSE, 0, TRUE, "RA", FALSE, 0)>>],
    [Base EXCEPT !.fam = "dev", !.mols = <<"MA", "MB", "MA", "MC", "MB">>, !.start = <<Sp(TRUE, "MB", FALSE, 0, TRUE, "RB", FALSE, 0)>>],
    [Base EXCEPT !.fam = "dev", !.mols = LigMols, !.types = T4,
                 !.lig = <<[h |-> Sp(TRUE, "MA", FALSE, 0, TRUE, "RA", FALSE, 0), l |-> Sp(TRUE, "LG", TRUE, 2, FALSE, "", TRUE, 1)]>>],
    [Base EXCEPT !.fam = "dev", !.mols = LigMols, !.types = T4,
                 !.lig = <<[h |-> Sp(TRUE, "MA", FALSE, 0, TRUE, "RA", FALSE, 0), l |-> Sp(TRUE, "LG", FALSE, 0, TRUE, "W", FALSE, 0)]>>],
    [Base EXCEPT !.fam = "dev", !.mols = <<"MA", "MB", "MA">>, !.types = SplitTypes(3),
                 !.split = <<[rn |-> "RB", parts |-> <<[nn |-> "X", atoms |-> <<"a1">>], [nn |-> "Y", atoms |-> <<"a3">>]>>]>>] }
DevInit == \E c \in DevCases : InitCase(c)
DevSpec == DevInit /\ [][Next]_vars
AllFlags == {"breakAtFirstBeyond", "closedRes", "closedMol", "resnameIgnored", "molNameIgnored", "splitDrop", "rwLastWins", "molRawRange",
             "startIdxIgnoresName", "startNoMolKeyError", "startNameIgnored", "ligIdxIgnoresName", "ligNoTemplate",
             "splitLosesBuild", "ligWrongMol"}
SingleDevs == {{f} : f \in AllFlags}
AllOK == ErrOK /\ MolListUnchanged /\ Correct
Refute(f) == (dev = {f}) => AllOK
Refute_closedRes == Refute("closedRes")
Refute_closedMol == Refute("closedMol")
Refute_resnameIgnored == Refute("resnameIgnored")
Refute_molNameIgnored == Refute("molNameIgnored")
Refute_splitDrop == Refute("splitDrop")
Refute_rwLastWins == Refute("rwLastWins")
Refute_molRawRange == Refute("molRawRange")
Refute_startIdxIgnoresName == Refute("startIdxIgnoresName")
Refute_startNoMolKeyError == Refute("startNoMolKeyError")
Refute_startNameIgnored == Refute("startNameIgnored")
Refute_ligIdxIgnoresName == Refute("ligIdxIgnoresName")
Refute_ligNoTemplate == Refute("ligNoTemplate")
Refute_splitLosesBuild == Refute("splitLosesBuild")
Refute_breakAtFirstBeyond == Refute("breakAtFirstBeyond")
\* ligWrongMol is caught by the action property HandBack (Sel_dev_hand.cfg)
OnlyWrongMol == {{"ligWrongMol"}}
=============================================================================
