---------------------------- MODULE SeqCallsP ----------------------------
(* C19, P-layer of ONE CALL of the entry point  gen_params(seq_file = path | seq = blocks, dsdna = ds):                        *)
(* the residue graph that is handed to the mapping stage is a function of the CURRENT CONTENT of the source and of the flag,   *)
(* and of nothing else - not of earlier calls of the same process, not of what the path held earlier, not of other sources.    *)
(*   content  an abstract sequence input: a .fasta / .ig file record (fam "file", read as SeqInput!ExpFile says), a .json      *)
(*            strand (fam "dsdna": names, node keys, first residue id, labelled edge, ring) or an inline -seq list (fam        *)
(*            "seqlist")                                                                                                     *)
(*   Parsed   what the reader makes of the content (the P-layer of C12)                                                        *)
(*   ExpCall  ds = FALSE: Parsed; ds = TRUE: Complement(Parsed) - 2n residues, never more -, or a rejection when the strand    *)
(*            holds a name that is not one of the 12 DNA names                                                                *)
EXTENDS SeqInput

Parsed(i) == CASE i.fam = "file"    -> ExpFile(i)
               [] i.fam = "dsdna"   -> Strand(i)
               [] i.fam = "seqlist" -> ExpSeqList(i)
\* the strand that a completion looks at is the one that ends at the last residue (SeqInput!LastStart)
RejX(x) == \E r \in LastStart(x)..x.n : ~KnownDNA(x.name[r])
ExpCall(i, ds) == LET x == Parsed(i) IN
                  IF ds /\ RejX(x) THEN [rej |-> TRUE, g |-> EmptyG]
                  ELSE [rej |-> FALSE, g |-> IF ds THEN Complement(x) ELSE x]
\* the call agrees with the completion law of SeqInput on single strands (what C19 states): 2n residues, first strand = the file
CallIsCompletion(i) == LET s == Parsed(i) e == ExpCall(i, TRUE) IN
                       /\ LastStart(s) = 1
                       /\ (i.fam = "dsdna" => (e.rej = Rejected(i) /\ e.g = ExpDsDNA(i)))
                       /\ (~e.rej => /\ e.g.n = 2 * s.n /\ FirstStrand(e.g) = s /\ Disconnected(e.g)
                                     /\ SecondStrand(Complement(SecondStrand(e.g))) = s)
=============================================================================
