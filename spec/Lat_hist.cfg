SPECIFICATION Spec
CONSTANTS
 L = 3
 History <- HRingChain
 Grid <- Grid3
 Bundle <- Bundle6
 MaxIter = 5
 MaxReject <- Unlimited
 Force = TRUE
 Dev <- NoDev
INVARIANT StepOne
INVARIANT InBox
INVARIANT NoOverlap
INVARIANT RootOnGrid
INVARIANT Contiguous
INVARIANT Final
INVARIANT ForceWithinLimit
CHECK_DEADLOCK FALSE
