SPECIFICATION Spec
CONSTANTS
 Cases <- AllCases
 FFs <- FFcat
 Dev <- DevKnownCanon
INVARIANT ExportDevRes
CHECK_DEADLOCK FALSE
