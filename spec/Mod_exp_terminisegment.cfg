INIT MCInitTiny
NEXT Next
CONSTANTS
 Inputs = {}
 LibOf <- MCLibOf
 Dev <- NoDev
 FreeOrder = TRUE
INVARIANT ExpTerminiPerSegment
CHECK_DEADLOCK FALSE
