------------------------- MODULE IndependenceHistMC -------------------------
(* The history machine bound to the abstract pipeline: inputs are catalogue cases, a run is PRun on the force-field objects   *)
(* the process holds.  Intended design: a new force field is read for every call, the writer queue is flushed by the call     *)
(* that filled it, the output file is replaced, the default value of gen_params' inpath argument (one list object for the whole   *)
(* process) stays empty.  An input either hands over its files explicitly (HLib[i] = <<>>: all files of its force field, a new  *)
(* list per call) or names a LIBRARY (HLib[i] = the files of the catalogue entry that make up the library) and leaves inpath at  *)
(* its default: the call then reads  default-inpath files, then the library files.  Deviations: inpathLeak (the library files   *)
(* are appended to the default inpath list: seed-C13-1), readerCache (file content cached by path: seed3-C13-2).  The file system  *)
(* is state OUTSIDE the process: inputs of mode "path" write their own definitions to ONE shared path before the call (a file      *)
(* rewritten between calls); Run reads the current content - with readerCache the content the process saw first, cacheFF (loaded force fields kept in a module-level cache - the   *)
(* retagged exclusion distances and the grown citation sets of an earlier run leak), writerAppend (output appended to an       *)
(* existing file), flushLate (the queue is written out by the NEXT call).                                                      *)
EXTENDS IndependenceCat, IndependenceHist, Json

\* a case outside the domain of the pipeline model: residue name without a block (the call fails before anything is written)
CaseFail == Case(29, 6, 1, <<"A", "C">>, NoFi(2), Chain(2), <<>>)
HCase(id) == IF id = 29 THEN CaseFail ELSE CHOOSE c \in AllCases : c.id = id
HIn3 == <<HCase(26), HCase(27), HCase(21)>>
HIn4 == <<HCase(26), HCase(27), HCase(21), CaseFail>>
CONSTANTS HInputs, HLib
\* "sub" = explicit inpath (a new list per call) holding the listed files of the force field only.  proc.mac = the parameter-macro table a parser
\* CLASS would hold (deviation defineLeak, seed7-C13-2: macros met in one call are substituted in every later call).
\* HLib[i] = [mode, files]: "all" = every file of the force field, explicit inpath (a new list per call); "lib" = the files make up a library,
\* inpath left at its default; "path" = the files' content is written to the one shared path, which is then passed as inpath
HL(mode, files) == [mode |-> mode, files |-> files]
HInL == <<HCase(33), HCase(33), HCase(26)>>       \* the same residue graph on library X, on library Y, and an input with explicit files
HLibL == <<HL("lib", <<1>>), HL("lib", <<2>>), HL("all", <<>>)>>
HInP == <<HCase(33), HCase(33), HCase(26)>>       \* the shared path holding the definitions X, then rewritten to Y (or the other way round)
HLibP == <<HL("path", <<1>>), HL("path", <<2>>), HL("all", <<>>)>>
\* parameter macros: an input whose .itp uses a bonded type name, an input whose .itp defines a macro of that name, and one reading both files
HInD == <<HCase(41), HCase(42), HCase(40)>>
HLibD == <<HL("sub", <<2, 3>>), HL("sub", <<1, 3>>), HL("all", <<>>)>>
NoLib3 == <<HL("all", <<>>), HL("all", <<>>), HL("all", <<>>)>>
NoLib4 == <<HL("all", <<>>), HL("all", <<>>), HL("all", <<>>), HL("all", <<>>)>>
FileRec(F, k) == [syn |-> F.files[k].syn, src |-> k, defs |-> F.files[k].defs]
LibFiles(i) == [k \in DOMAIN HLib[i].files |-> FileRec(FFof(HInputs[i]), HLib[i].files[k])]

P0 == [ff |-> <<>>, fs |-> [i \in 1..Len(HInputs) |-> <<>>], queue |-> <<>>, dflt |-> <<>>, rc |-> <<>>, mac |-> <<>>]
\* what one call reads: explicit files, or (default inpath) ++ (library files)
\* rc = what a reader that caches by path holds for the shared path (<<>> = nothing yet)
FilesRead(i, dflt, rc) == IF HLib[i].mode = "all" THEN BasePresentation(FFof(HInputs[i]))
                          ELSE IF HLib[i].mode = "lib" THEN dflt \o LibFiles(i)
                          ELSE IF HLib[i].mode = "sub" THEN LibFiles(i)
                          ELSE IF Dev.readerCache /\ rc # <<>> THEN rc ELSE LibFiles(i)
FreshRes(i) == LET c == HInputs[i]
                   L == Loaded(FFof(c), FilesRead(i, <<>>, <<>>), FALSE)
                   o == PRun(c, L, FreshBx(FFof(c), L)).out
               IN [out |-> o, file |-> IF o.err = "" THEN <<o>> ELSE <<>>]
RunInMC(i, p) ==
  LET c == HInputs[i]
      cached == Dev.cacheFF /\ c.ff \in DOMAIN p.ff
      L == IF cached THEN p.ff[c.ff].L ELSE LoadedM(FFof(c), FilesRead(i, p.dflt, p.rc), FALSE, Dev.defineLeak, p.mac)
      bx0 == IF cached THEN p.ff[c.ff].bx ELSE FreshBx(FFof(c), L)
      r == PRun(c, L, bx0)
      ok == r.out.err = ""
      \* deferred writer: the call queues its file and flushes the queue
      q1 == IF ok THEN Append(p.queue, [path |-> i, out |-> r.out]) ELSE p.queue
      flushNow == IF Dev.flushLate THEN p.queue ELSE IF ok THEN q1 ELSE <<>>
      q2 == IF Dev.flushLate THEN (IF ok THEN <<[path |-> i, out |-> r.out]>> ELSE <<>>) ELSE IF ok THEN <<>> ELSE p.queue
      put(fs, e) == [fs EXCEPT ![e.path] = IF Dev.writerAppend THEN @ \o <<e.out>> ELSE <<e.out>>]
      RECURSIVE flush(_, _, _)
      flush(fs, q, k) == IF k > Len(q) THEN fs ELSE flush(put(fs, q[k]), q, k + 1)
      fs2 == flush(p.fs, flushNow, 1)
  IN [res |-> [out |-> r.out, file |-> fs2[i]],
      proc |-> [ff |-> IF Dev.cacheFF THEN (c.ff :> [L |-> L, bx |-> r.bx]) @@ p.ff ELSE p.ff, fs |-> fs2, queue |-> q2,
               dflt |-> IF Dev.inpathLeak /\ HLib[i].mode = "lib" THEN p.dflt \o LibFiles(i) ELSE p.dflt,
               mac |-> IF Dev.defineLeak THEN L.macs ELSE p.mac,
               rc |-> IF Dev.readerCache /\ HLib[i].mode = "path" /\ p.rc = <<>> THEN LibFiles(i) ELSE p.rc]]
FreshTab == TLCEval([i \in 1..Len(HInputs) |-> FreshRes(i)])
FreshOf(i) == FreshTab[i]
NIn == Len(HInputs)

OutJ(o) == [err |-> o.err, atoms |-> o.atoms, ints |-> SetToSeq({[x |-> x, n |-> o.ints[x]] : x \in DOMAIN o.ints}), nrexcl |-> o.nrexcl, cites |-> SetToSeq(o.cites)]
EdgeSeq(E) == SetToSortSeq({<<MinOf(e), MaxOf(e)>> : e \in E}, LAMBDA x, y : x[1] < y[1] \/ (x[1] = y[1] /\ x[2] < y[2]))
CaseJ(c) == [id |-> c.id, ff |-> c.ff, n |-> c.n, start |-> c.start, rn |-> c.rn, fi |-> c.fi, E |-> EdgeSeq(c.E), mods |-> c.mods, mark |-> c.mark]
\* S->I: every history with the results the specification gives to each of its runs (only the equality classes matter to the
\* harness: it compares each run with the fresh-process run of the same input; the expected projection is checked as well)
ExportHist == (Len(h) >= 1) => PrintT(<<"HIST", ToJson([h |-> h, same |-> [k \in DOMAIN h |-> res[k] = FreshOf(h[k])]])>>)
ExportInputs == (Len(h) = 0) => PrintT(<<"HINPUTS", ToJson([i \in 1..NIn |-> [case |-> CaseJ(HInputs[i]), expected |-> OutJ(FreshRes(i).out), lib |-> HLib[i]]])>>)
=============================================================================
