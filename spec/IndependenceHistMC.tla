------------------------- MODULE IndependenceHistMC -------------------------
(* The history machine bound to the abstract pipeline: inputs are catalogue cases, a run is PRun on the force-field objects   *)
(* the process holds.  Intended design: a new force field is read for every call, the writer queue is flushed by the call     *)
(* that filled it, the output file is replaced, the default value of gen_params' inpath argument (one list object for the whole   *)
(* process) stays empty.  An input either hands over its files explicitly (HLib[i] = <<>>: all files of its force field, a new  *)
(* list per call) or names a LIBRARY (HLib[i] = the files of the catalogue entry that make up the library) and leaves inpath at  *)
(* its default: the call then reads  default-inpath files, then the library files.  Deviations: inpathLeak (the library files   *)
(* are appended to the default inpath list: seed-C13-1), cacheFF (loaded force fields kept in a module-level cache - the   *)
(* retagged exclusion distances and the grown citation sets of an earlier run leak), writerAppend (output appended to an       *)
(* existing file), flushLate (the queue is written out by the NEXT call).                                                      *)
EXTENDS IndependenceCat, IndependenceHist, Json

\* a case outside the domain of the pipeline model: residue name without a block (the call fails before anything is written)
CaseFail == Case(29, 6, 1, <<"A", "C">>, NoFi(2), Chain(2), <<>>)
HCase(id) == IF id = 29 THEN CaseFail ELSE CHOOSE c \in AllCases : c.id = id
HIn3 == <<HCase(26), HCase(27), HCase(21)>>
HIn4 == <<HCase(26), HCase(27), HCase(21), CaseFail>>
CONSTANTS HInputs, HLib
HInL == <<HCase(33), HCase(33), HCase(26)>>       \* the same residue graph on library X, on library Y, and an input with explicit files
HLibL == <<<<1>>, <<2>>, <<>>>>
NoLib3 == <<<<>>, <<>>, <<>>>>
NoLib4 == <<<<>>, <<>>, <<>>, <<>>>>
FileRec(F, k) == [syn |-> F.files[k].syn, src |-> k, defs |-> F.files[k].defs]
LibFiles(i) == [k \in DOMAIN HLib[i] |-> FileRec(FFof(HInputs[i]), HLib[i][k])]

P0 == [ff |-> <<>>, fs |-> [i \in 1..Len(HInputs) |-> <<>>], queue |-> <<>>, dflt |-> <<>>]
\* what one call reads: explicit files, or (default inpath) ++ (library files)
FilesRead(i, dflt) == IF HLib[i] = <<>> THEN BasePresentation(FFof(HInputs[i])) ELSE dflt \o LibFiles(i)
FreshRes(i) == LET c == HInputs[i]
                   L == Loaded(FFof(c), FilesRead(i, <<>>), FALSE)
                   o == PRun(c, L, FreshBx(FFof(c), L)).out
               IN [out |-> o, file |-> IF o.err = "" THEN <<o>> ELSE <<>>]
RunInMC(i, p) ==
  LET c == HInputs[i]
      cached == Dev.cacheFF /\ c.ff \in DOMAIN p.ff
      L == IF cached THEN p.ff[c.ff].L ELSE Loaded(FFof(c), FilesRead(i, p.dflt), FALSE)
      bx0 == IF cached THEN p.ff[c.ff].bx ELSE FreshBx(FFof(c), L)
      r == PRun(c, L, bx0)
      ok == r.out.err = ""
      \* deferred writer: the call queues its file and flushes the queue
      q1 == IF ok THEN Append(p.queue, [path |-> i, out |-> r.out]) ELSE p.queue
      flushNow == IF Dev.flushLate THEN p.queue ELSE IF ok THEN q1 ELSE <<>>
      q2 == IF Dev.flushLate THEN (IF ok THEN <<[path |-> i, out |-> r.out]>> ELSE <<>>) ELSE IF ok THEN <<>> ELSE p.queue
      put(fs, e) == [fs EXCEPT ![e.path] = IF Dev.writerAppend THEN @ \o <<e.out>> ELSE <<e.out>>]
      RECURSIVE flush(_, _, _)
      flush(fs, q, k) == IF k > Len(q) THEN fs ELSE flush(put(fs, q[k]), q, k + 1)
      fs2 == flush(p.fs, flushNow, 1)
  IN [res |-> [out |-> r.out, file |-> fs2[i]],
      proc |-> [ff |-> IF Dev.cacheFF THEN (c.ff :> [L |-> L, bx |-> r.bx]) @@ p.ff ELSE p.ff, fs |-> fs2, queue |-> q2,
               dflt |-> IF Dev.inpathLeak /\ HLib[i] # <<>> THEN p.dflt \o LibFiles(i) ELSE p.dflt]]
FreshTab == TLCEval([i \in 1..Len(HInputs) |-> FreshRes(i)])
FreshOf(i) == FreshTab[i]
NIn == Len(HInputs)

OutJ(o) == [err |-> o.err, atoms |-> o.atoms, ints |-> SetToSeq({[x |-> x, n |-> o.ints[x]] : x \in DOMAIN o.ints}), nrexcl |-> o.nrexcl, cites |-> SetToSeq(o.cites)]
EdgeSeq(E) == SetToSortSeq({<<MinOf(e), MaxOf(e)>> : e \in E}, LAMBDA x, y : x[1] < y[1] \/ (x[1] = y[1] /\ x[2] < y[2]))
CaseJ(c) == [id |-> c.id, ff |-> c.ff, n |-> c.n, start |-> c.start, rn |-> c.rn, fi |-> c.fi, E |-> EdgeSeq(c.E), mods |-> c.mods]
\* S->I: every history with the results the specification gives to each of its runs (only the equality classes matter to the
\* harness: it compares each run with the fresh-process run of the same input; the expected projection is checked as well)
ExportHist == (Len(h) >= 1) => PrintT(<<"HIST", ToJson([h |-> h, same |-> [k \in DOMAIN h |-> res[k] = FreshOf(h[k])]])>>)
ExportInputs == (Len(h) = 0) => PrintT(<<"HINPUTS", ToJson([i \in 1..NIn |-> [case |-> CaseJ(HInputs[i]), expected |-> OutJ(FreshRes(i).out), lib |-> HLib[i]]])>>)
=============================================================================
