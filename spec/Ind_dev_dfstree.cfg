SPECIFICATION Spec
CONSTANTS
 Cases <- CasesTri
 FFs <- FFcat
 Dev <- DevDfsTreeFrag
INVARIANT Confluent
CHECK_DEADLOCK FALSE
