SPECIFICATION HSpec
CONSTANTS
 FFs <- FFcat
 Dev <- NoDev
 HInputs <- HInD
 HLib <- HLibD
 NInputs <- NIn
 MaxLen = 3
 Fresh <- FreshOf
 RunIn <- RunInMC
 Proc0 <- P0
INVARIANT HistoryIndependent
INVARIANT RepeatStable
INVARIANT ExportHist
INVARIANT ExportInputs
CHECK_DEADLOCK FALSE
