---------------------------- MODULE SelExport ----------------------------
(* S->I export for C18: every case of the instance families is model checked (I |= P) and, when its behaviour is    *)
(* over, printed as one JSON line: the abstract input and the abstract state the intended I-layer ends in (which   *)
(* TLC has just shown to satisfy the P-layer).  The harness renders the input to real files / option strings, runs *)
(* the real code phase by phase and compares.                                                                      *)
EXTENDS MC_Select, Json
Out(s) == [err |-> s.err, nodes |-> s.nodes, geom |-> s.geom, rw |-> s.rw, dtags |-> s.dtags, start |-> s.startOf,
           was |-> (IF \A i \in 1..Len(s.added) : s.added[i] = <<>> THEN s.was ELSE s.added), handed |-> s.handed]
ExportInv == Done => PrintT(<<"CASE", ToJson([c |-> case, x |-> Out(st), a |-> [i \in 1..(pc - 1) |-> steps[i].a]])>>)
MolSpecQ == FMol(4) /\ [][Next]_vars
MolSpecF == FMol(5) /\ [][Next]_vars
RestASpec == RestA /\ [][Next]_vars
RestBSpec == RestB /\ [][Next]_vars
=============================================================================
