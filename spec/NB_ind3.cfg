SPECIFICATION IndSpec
CONSTANTS
 Nodes <- INodes3
 MolOf <- IMolOf3
 Pts <- IPts5
 LX = 3
 LY = 3
 LZ = 3
 Cut2 = 1
 Thr = 1
 Filler = 0
 DevReadd = FALSE
 MaxOps = 1
 MaxTrees = 4
INVARIANT Views
INVARIANT QueriesAgree
PROPERTY LastGiven
CHECK_DEADLOCK FALSE
