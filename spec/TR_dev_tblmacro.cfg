SPECIFICATION Spec
CONSTANTS
 Cases <- DihSmallTbl
 TISet <- TI_quick
 DefSet <- Def_both
 MissSet <- Miss_both
 Stratified = TRUE
 DevOneDirection = FALSE
 DevNoReverse = FALSE
 DevFirstInstOnly = FALSE
 DevSpecOrder = FALSE
 DevDefineFirstOnly = FALSE
 DevPairsUntyped = FALSE
 DevTableMacrosKept = TRUE
 DevDefineLazyCond = FALSE
 DevDefineBlockDropped = FALSE
 DevDefineInactiveKept = FALSE
INVARIANT LookupAgrees
INVARIANT ConformsDev
INVARIANT Conforms
CHECK_DEADLOCK FALSE
