---------------------------- MODULE MC_Polyply ----------------------------
(* Exhaustive instances of Polyply: sequences of <= 4 residues over the block names A (one bead) and B (two beads),  *)
(* force fields with a `+` link, a `>` link, no link, or without block B; homopolymers, copolymers, branched and      *)
(* disconnected json graphs from gen_seq macros; 1-2 molecules.                                                       *)
EXTENDS Polyply

LibAB == [A |-> <<"BB">>, B |-> <<"BB", "SC">>]
Names == {"A", "B"}
FFplus == [blocks |-> {"A", "B"}, links |-> {"plus"}]
FFgt == [blocks |-> {"A", "B"}, links |-> {"gt"}]
FFnone == [blocks |-> {"A", "B"}, links |-> {}]
FFonlyA == [blocks |-> {"A"}, links |-> {"plus"}]
FFboth == [blocks |-> {"A", "B"}, links |-> {"plus", "gt"}]

Mac(r, l, b) == [res |-> r, lv |-> l, bf |-> b]
RECURSIVE SumLv(_, _)
SumLv(ms, k) == IF k = 0 THEN 0 ELSE SumLv(ms, k - 1) + ms[k].lv
Alternating(ms) == \A k \in 1..(Len(ms) - 1) : ms[k].res # ms[k + 1].res
LinUnits == {Mac(r, l, 1) : r \in Names, l \in 1..4}
\* run-length encodings of all sequences of 1..4 residues over {A, B}: 30
LinMacros == {ms \in UNION {[1..k -> LinUnits] : k \in 1..4} : Alternating(ms) /\ SumLv(ms, Len(ms)) <= 4}
\* gen_seq connects that chain the entries head to tail
LinConnects(ms) == [k \in 1..(Len(ms) - 1) |-> <<k - 1, k, ms[k].lv - 1, 0>>]

Mk0(mode, ms, cn, tag, ff, cnt) == [mode |-> mode, macros |-> ms, connects |-> cn, tag |-> tag, ff |-> ff, count |-> cnt, lib |-> LibAB, on |-> {}]
\* injected failures: a representative of every mode / force field / shape class
Probe(c) == \/ (c.mode = "both" /\ c.macros = <<Mac("A", 2, 1), Mac("B", 1, 1)>> /\ c.ff = FFplus /\ c.tag = 1)
            \/ (c.mode = "both" /\ c.macros = <<Mac("B", 1, 1), Mac("A", 1, 1), Mac("B", 1, 1)>> /\ c.ff = FFgt)
            \/ (c.mode = "chain2" /\ c.macros = <<Mac("B", 2, 1), Mac("A", 2, 1)>> /\ c.count = 2)
            \/ (c.mode = "chain2" /\ c.macros = <<Mac("A", 1, 1), Mac("B", 1, 1)>> /\ c.ff \in {FFonlyA, FFnone})
            \/ (c.mode = "chain3" /\ c.macros = <<Mac("A", 2, 2), Mac("B", 1, 1)>> /\ c.count = 1 /\ c.tag = 1)
            \/ (c.mode = "chain3" /\ c.connects = <<>> /\ c.macros = <<Mac("A", 2, 1), Mac("B", 2, 1)>> /\ c.count = 1 /\ c.tag = 0)
Mk(mode, ms, cn, tag, ff, cnt) == LET c == Mk0(mode, ms, cn, tag, ff, cnt) IN
   [mode |-> mode, macros |-> ms, connects |-> cn, tag |-> tag, ff |-> ff, count |-> cnt, lib |-> LibAB, on |-> {}, probe |-> Probe(c)]

\* gen_params -seq | gen_coords
Chain2 == {Mk("chain2", ms, <<>>, 0, ff, 1) : ms \in LinMacros, ff \in {FFplus, FFgt, FFnone, FFonlyA}}
          \cup {Mk("chain2", ms, <<>>, 0, FFplus, 2) : ms \in LinMacros}
\* gen_seq | gen_params -seqf | gen_coords  and its twin  gen_params -seq | gen_coords
Both == {Mk("both", ms, LinConnects(ms), t, FFplus, 1) : ms \in LinMacros, t \in {0, 1}}
        \cup {Mk("both", ms, LinConnects(ms), 0, ff, 2) : ms \in LinMacros, ff \in {FFgt, FFboth}}
        \cup {Mk("both", ms, LinConnects(ms), Len(ms), FFonlyA, 1) : ms \in LinMacros}
\* json graphs that no -seq can express
Tree3A == <<Mac("A", 2, 2)>>                                   \* 1-2, 1-3
Tree3B == <<Mac("B", 2, 2)>>
Shapes == { [ms |-> Tree3A, cn |-> <<>>],
            [ms |-> Tree3B, cn |-> <<>>],
            [ms |-> <<Mac("A", 2, 2), Mac("B", 1, 1)>>, cn |-> << <<0, 1, 2, 0>> >>],      \* B hangs on a leaf
            [ms |-> <<Mac("A", 2, 2), Mac("B", 1, 1)>>, cn |-> << <<0, 1, 0, 0>> >>],      \* B hangs on the centre: a star
            [ms |-> <<Mac("B", 1, 1), Mac("A", 2, 2)>>, cn |-> << <<0, 1, 0, 1>> >>],
            [ms |-> <<Mac("A", 2, 1), Mac("B", 2, 1)>>, cn |-> << <<0, 1, 0, 1>> >>],      \* 1-2, 3-4, 1-4: not consecutive
            [ms |-> <<Mac("A", 2, 1), Mac("B", 2, 1)>>, cn |-> << <<1, 0, 0, 1>> >>],      \* connect given backwards: 2-3
            [ms |-> <<Mac("A", 3, 1)>>, cn |-> << <<0, 0, 0, 2>> >>],                      \* a ring of three
            [ms |-> <<Mac("A", 2, 1), Mac("B", 2, 1)>>, cn |-> <<>>],                      \* two pieces: disconnected
            [ms |-> <<Mac("A", 2, 1), Mac("B", 1, 1)>>, cn |-> <<>>],                      \* a piece and a residue without neighbour
            [ms |-> <<Mac("A", 1, 1), Mac("B", 1, 1)>>, cn |-> <<>>],                      \* two residues without neighbour
            [ms |-> <<Mac("A", 1, 1), Mac("B", 1, 1), Mac("A", 1, 1)>>, cn |-> << <<0, 1, 0, 0>>, <<0, 2, 0, 0>> >>] }
Chain3 == {Mk("chain3", sh.ms, sh.cn, t, ff, cnt) : sh \in Shapes, t \in {0, 1}, ff \in {FFplus, FFgt}, cnt \in {1, 2}}

MCCases == Chain2 \cup Both \cup Chain3

\* quick instance: every shape class, fewer linear sequences
SmallLin(ms) == SumLv(ms, Len(ms)) <= 3 \/ Len(ms) >= 3
MCSmall == {c \in MCCases : c.mode = "chain3" \/ SmallLin(c.macros) \/ c.probe}

\* thorough instance: injected failures in every undecorated case (one molecule, no tag) of the `+` and the block-less force field
ProbeMore(c) == c.count = 1 /\ c.tag = 0 /\ (c.mode = "chain3" \/ c.ff \in {FFplus, FFonlyA})
MCDeep == {[c EXCEPT !.probe = c.probe \/ ProbeMore(c)] : c \in MCCases}

\* deviation instances: a handful of cases is enough to refute
DevCases == {c \in MCCases : c.probe} \cup {c \in Chain3 : c.count = 1 /\ c.tag = 0}
=============================================================================
