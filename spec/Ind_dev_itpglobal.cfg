SPECIFICATION Spec
CONSTANTS
 Cases <- CasesFiles
 FFs <- FFcat
 Dev <- DevItpGlobal
INVARIANT Confluent
CHECK_DEADLOCK FALSE
