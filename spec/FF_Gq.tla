----------------------------- MODULE FF_Gq -----------------------------
(* quick instance G: all connected residue graphs on 1..4 residues x kinds over {A, B, XX-pairs} x first residue id {1, 5} x 2 force fields *)
EXTENDS FFExport
MCFFs == FFsG
MCInputs == InputsG({2, 3}, 1..4)
ASSUME PrintT(<<"FFS", ToJson(MCFFs)>>)
=============================================================================
