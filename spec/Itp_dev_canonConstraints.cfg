INIT MCInit
NEXT Next
CONSTANTS
 Mols = {}
 Dev = "canonConstraints"
 FixedOrder = TRUE
INVARIANT RoundTripI
INVARIANT FastAgrees
CHECK_DEADLOCK FALSE
