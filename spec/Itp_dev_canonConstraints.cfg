SPECIFICATION Spec
CONSTANTS
 Mols <- MCMols
 Dev = "canonConstraints"
 FixedOrder = TRUE
INVARIANT RoundTripI
CHECK_DEADLOCK FALSE
