INIT MCInit
NEXT Next
CONSTANTS
 Mols = {}
 Dev = "canonConstraints"
 FixedOrder = TRUE
INVARIANT RoundTripI
CHECK_DEADLOCK FALSE
