SPECIFICATION Spec
CONSTANTS
 Mols <- MolsDev
 Dev = "canonConstraints"
 FixedOrder = TRUE
INVARIANT RoundTripI
CHECK_DEADLOCK FALSE
