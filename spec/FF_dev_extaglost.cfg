SPECIFICATION Spec
CONSTANTS
 Inputs <- MCInputs
 Dev <- DevExTagLost
INVARIANT C14_Inv
CHECK_DEADLOCK FALSE
