---------------------------- MODULE Independence ----------------------------
(***************************************************************************)
(* C13, I-layer: the gen_params pipeline step by step                      *)
(*   Load        load_ff_library: the input files in SOME order, the       *)
(*               definitions of a file in SOME order (any presentation of  *)
(*               the same set of definitions that keeps the relative order *)
(*               of definitions of the same thing)                         *)
(*   MatchNodes  MapToMolecule.match_nodes_to_blocks: depth-first tree of  *)
(*               the residue graph (root and neighbour order are whatever  *)
(*               the node / edge insertion order makes them), fragments of *)
(*               from_itp residues in SOME component order, sliced into    *)
(*               block copies                                              *)
(*   Tag         tag_exclusions (mutates the block objects)                *)
(*   AddBlock    add_blocks, one residue node per step                     *)
(*   BeginLink / TryMatch / EndLink   ApplyLinks: links in the order read, *)
(*               the matches of one link in SOME order                     *)
(*   WriteBack   removal of scheduled atoms, dictionary -> interactions    *)
(*   ApplyMods   ApplyModifications                                        *)
(*   Finish      expand_excl + what the writer prints (Project)            *)
(* Every iteration whose order the code does not fix is a nondeterministic *)
(* choice.  CONFLUENCE: every terminal state of every case projects to     *)
(* PResult(case), a function of the case alone.                            *)
(*                                                                         *)
(* Deviation flags (fields of Dev), each must make TLC refute Confluent:   *)
(*   sliceAny      fragment nodes sliced in set-iteration order (F15, repaired)            *)
(*   key0          terminal modification looked up by node key 0 / resid-1 (F9, repaired)  *)
(*   addAny        blocks added in node order instead of residue-id order                  *)
(*   firstMatchOnly a link is applied to the first match found only                        *)
(*   orientLink    the stored orientation of a residue edge decides the link direction     *)
(*   oncePerGroup  a link is applied at most once per SET of residues: of the two           *)
(*                 orientations of a `*` link only the one met first survives (seed-C13-2)  *)
(*   nameCache     per link, residue-NAME combinations for which the link atoms were not   *)
(*                 found are remembered and skipped (same-named residues can differ by a   *)
(*                 residue-level attribute: seed3-C13-1)                                   *)
(*   replaceVisible  values a link replaces are mirrored into the residue fragments, so a    *)
(*                 later link selecting on that attribute sees them (seed5-C13-2)          *)
(*   patternCache  residue-level matches cached per residue pattern of a link, stored in the   *)
(*                 node numbering of the link that filled the cache (seed7-C13-1)           *)
(*   defineLeak    `#define` parameter macros of polyply .itp input kept in one table for   *)
(*                 the whole process and substituted into later files (seed7-C13-2)         *)
(*   dfsTreeFrag   fragments are the components over depth-first TREE edges only  (F31, repaired) *)
(*   fragIdOrder   block-copy correspondences are stored in merge order but looked up by an  *)
(*                 id assigned in component-iteration order                       (F32, repaired) *)
(*   itpGlobal     finishing an .itp file re-tags the versions of all links read so far (F33, repaired) *)
(***************************************************************************)
EXTENDS IndependenceBase

CONSTANTS Cases

VARIABLES case, s
vars == <<case, s>>

Known == {"dfsTreeFrag", "fragIdOrder", "itpGlobal"}

(* ---- depth-first trees: rooted spanning trees in which every other edge joins a node to one of its ancestors *)
IsSpanTree(c, T) == Cardinality(T) = c.n - 1 /\ ReachIn(T, {1}) = Pos(c)
Anc(T, r, x, y) == x = r \/ x = y \/ y \notin ReachIn({e \in T : x \notin e}, {r})
DfsTrees(c) == {T \in SUBSET c.E : IsSpanTree(c, T) /\ \E r \in Pos(c) : \A e \in c.E \ T : \E x, y \in e : x # y /\ Anc(T, r, x, y)}

\* tabulated once, as explicit tuples of explicit sets (constant level): the presentations of every force field (baseOnly - not a
\* deviation - keeps only the base presentation, for sensitivity runs that are not about definition order) and what each leaves behind
RECURSIVE PresUpTo(_)
PresUpTo(k) == IF k = 0 THEN <<>> ELSE Append(PresUpTo(k - 1), TLCEval(IF Dev.baseOnly THEN {BasePresentation(FFs[k])} ELSE Presentations(FFs[k])))
PresTab == PresUpTo(Len(FFs))
RECURSIVE LoadUpTo(_)
LoadUpTo(k) == IF k = 0 THEN <<>> ELSE Append(LoadUpTo(k - 1), TLCEval({[L |-> LoadedM(FFs[k], fs, Dev.itpGlobal, Dev.defineLeak, <<>>), Li |-> Loaded(FFs[k], fs, FALSE)] : fs \in PresTab[k]}))
LoadTab == LoadUpTo(Len(FFs))

S0 == [pc |-> "load", L |-> L0, bx |-> <<>>, frags |-> <<>>, fid |-> <<>>, molN |-> 0, ord |-> <<>>, k |-> 1,
       M |-> [atoms |-> <<>>, gattr |-> <<>>, ints |-> {}, edges |-> {}, extra |-> <<>>, rm |-> {}],
       corr |-> <<>>, added |-> {}, li |-> 1, todo |-> {}, grp |-> {}, noat |-> {}, pcache |-> <<>>, cached |-> FALSE, orient |-> <<>>, err |-> "", fired |-> {}, out |-> ErrOut(""), exp |-> ErrOut("")]
\* exp: the declared result of the case, evaluated once and carried along
Init == case \in Cases /\ s = [S0 EXCEPT !.exp = PResult(case)]

Fail(e) == s' = [s EXCEPT !.pc = "done", !.err = e, !.out = ErrOut(e)]

(* ---- load_ff_library *)
Load == /\ s.pc = "load"
        /\ \E ld \in LoadTab[case.ff] :
             s' = [s EXCEPT !.pc = "match", !.L = ld.L, !.bx = FreshBx(FFof(case), ld.L),
                            !.fired = IF ld.L.ver # ld.Li.ver THEN @ \cup {"itpGlobal"} ELSE @]
        /\ UNCHANGED case

(* ---- match_nodes_to_blocks *)
\* slices of one fragment: nodes in residue-id order (sliceAny: in any order), cut into pieces of the block's number of residues
SliceSeqs(comp) == IF Dev.sliceAny THEN {[i \in 1..Cardinality(comp) |-> pm[i]] : pm \in PermsOf(comp)} ELSE {Sorted(comp)}
Cut(sq, len) == [q \in 1..(Len(sq) \div len) |-> SubSeq(sq, (q - 1) * len + 1, q * len)]
MatchNodes ==
  /\ s.pc = "match"
  /\ IF \E b \in Used(case) : b \notin DOMAIN s.L.b
     THEN Fail("IOError:noblock")
     ELSE \E T \in DfsTrees(case) :
            LET EE == IF Dev.dfsTreeFrag THEN T ELSE case.E
                comps == Comps(case, EE)
                lenOf(comp) == NRes(FFof(case).blocks[s.L.b[case.fi[CHOOSE p \in comp : TRUE]]])
            IN IF \E comp \in comps : Cardinality(comp) % lenOf(comp) # 0
               THEN s' = [s EXCEPT !.pc = "done", !.err = "IOError:fraglen", !.out = ErrOut("IOError:fraglen"),
                                   !.fired = IF comps # Comps(case, case.E) THEN @ \cup {"dfsTreeFrag"} ELSE @]
               ELSE \E cord \in PermsOf(comps) :                                     \* connected_components iteration order
                    \E sl \in [comps -> UNION {SliceSeqs(comp) : comp \in comps}] :
                      /\ \A comp \in comps : sl[comp] \in SliceSeqs(comp)
                      /\ LET frags == FlattenSeq([q \in DOMAIN cord |-> Cut(sl[cord[q]], lenOf(cord[q]))])      \* self.fragments
                             fid == [p \in {q \in Pos(case) : case.fi[q] # ""} |-> CHOOSE f \in DOMAIN frags : \E j \in DOMAIN frags[f] : frags[f][j] = p]
                         IN s' = [s EXCEPT !.pc = "tag", !.frags = frags, !.fid = fid,
                                           !.fired = IF comps # Comps(case, case.E) THEN @ \cup {"dfsTreeFrag"} ELSE @]
  /\ UNCHANGED case

(* ---- tag_exclusions *)
Tag == /\ s.pc = "tag"
       /\ LET bx == Tagged(case, s.bx) IN
          \E ord \in (IF Dev.addAny THEN {[i \in 1..case.n |-> pm[i]] : pm \in PermsOf(Pos(case))} ELSE {[i \in 1..case.n |-> i]}) :
            s' = [s EXCEPT !.pc = "add", !.bx = bx, !.molN = bx[BlkName(case, ord[1])].n, !.ord = ord, !.k = 1]
       /\ UNCHANGED case

(* ---- add_blocks: one residue node *)
AddBlock ==
  /\ s.pc = "add"
  /\ LET p == s.ord[s.k]
         F == FFof(case)
         nm == BlkName(case, p)
         b0 == F.blocks[s.L.b[nm]]
         b == [b0 EXCEPT !.inters = [q \in DOMAIN b0.inters |-> [b0.inters[q] EXCEPT !.par = ParOf(s.L, s.L.b[nm], b0.inters[q].par)]]]
         isFrag == case.fi[p] # ""
         M == s.M
         nat == Len(M.atoms)
         nxt(st) == IF s.k = case.n THEN [st EXCEPT !.pc = "begin", !.li = 1] ELSE [st EXCEPT !.k = @ + 1]
     IN IF isFrag /\ p \in s.added
        THEN \* the copy is already in the molecule: take the residue out of the stored correspondence
             \* intended: the correspondence of this node's own copy; fragIdOrder: the list filled in merge order, indexed by fragment id
             LET f == s.fid[p]
                 own == CHOOSE q \in DOMAIN s.corr : s.corr[q].f = f
                 idx == IF Dev.fragIdOrder THEN f ELSE own
             IN IF idx > Len(s.corr)
                THEN s' = [s EXCEPT !.pc = "done", !.err = "IndexError", !.out = ErrOut("IndexError"), !.fired = @ \cup {"fragIdOrder"}]
                ELSE s' = nxt([s EXCEPT !.M.gattr = (p :> {g \in s.corr[idx].atoms : M.atoms[g].resid = Resid(case, p)}) @@ @,
                                        !.fired = IF idx # own THEN @ \cup {"fragIdOrder"} ELSE @])
        ELSE IF ~isFrag /\ NRes(b) > 1
        THEN Fail("IOError:multiblock")
        ELSE LET \* vermouth merge_molecule: new residue ids follow the residue id of the last atom; the very first block of a regular
                 \* node is set to the node's residue id, of a from_itp node it keeps the block's ids
                 roff == IF nat = 0 THEN (IF isFrag THEN 0 ELSE Resid(case, p) - 1) ELSE M.atoms[nat].resid
                 new == [a \in DOMAIN b.atoms |-> [resid |-> b.atoms[a].res + roff, rn |-> b.atoms[a].rn, an |-> b.atoms[a].an, ty |-> b.atoms[a].ty, ty0 |-> b.atoms[a].ty, tag |-> s.bx[nm].tag]]
                 atoms2 == M.atoms \o new
                 range == (nat + 1)..(nat + Len(b.atoms))
                 M2 == [M EXCEPT !.atoms = atoms2,
                                 !.gattr = (p :> {g \in range : atoms2[g].resid = Resid(case, p)}) @@ @,
                                 !.ints = @ \cup {[kind |-> x.kind, at |-> [j \in DOMAIN x.at |-> x.at[j] + nat], par |-> x.par, ver |-> x.ver, li |-> 0] : x \in ToSet(b.inters)},
                                 !.edges = @ \cup UNION {{{y + nat : y \in pr} : pr \in Pairs(x.at)} : x \in ToSet(b.inters)}]
             IN s' = nxt([s EXCEPT !.M = M2,
                                   !.added = IF isFrag THEN @ \cup ToSet(s.frags[s.fid[p]]) ELSE @,
                                   !.corr = IF isFrag THEN Append(@, [f |-> s.fid[p], atoms |-> range]) ELSE @])
  /\ UNCHANGED case

(* ---- ApplyLinks *)
CurLink == FFof(case).links[s.L.l[s.li]]
\* orientLink: the residue edge is stored with an orientation (source, target); the link's order 0 goes to the source
OrientOK(l, phi) == IF s.cached THEN TRUE          \* read from the cache: the order check was made by the link that filled it
                    ELSE IF Dev.orientLink /\ NOrd(l) = 2 /\ {phi[1], phi[2]} \in case.E
                    THEN s.orient[{phi[1], phi[2]}] = phi[1]
                    ELSE OrderOK(case, l, phi)
\* patternCache (seed7-C13-1): the residue-level matches that passed the order check are kept per RESIDUE PATTERN of the link (orders, residue
\* names, residue-level connections - nothing that depends on the link's own numbering) for the whole run, but stored in the NODE NUMBERING of the
\* residue graph of the link that filled the cache.  make_residue_graph numbers the residues of a link by their smallest atom key (atom name with
\* its order prefix) in string order: `*` < `+` < `-` < digits < `<` < `>` < letters; more prefix characters sort earlier.  A later link of the same
\* pattern whose atoms sort differently (an order-0 atom name starting with a digit next to `>` / `<` orders) reads the matches with the residues swapped.
DigitFirst == {"1H", "1c", "2c"}          \* the atom names of the catalogue / the generators that start with a digit
NumKey(l, i) == LET o == l.orders[i] IN
                IF o >= 300 THEN 500 - (o - 300) ELSE IF o >= 200 THEN 600 - (o - 200) ELSE IF o >= 100 THEN 100 - (o - 100)
                ELSE IF o > 0 THEN 200 - o ELSE IF o < 0 THEN 300 + o
                ELSE IF \E a \in DOMAIN l.atoms : l.atoms[a].oi = i /\ l.atoms[a].an \in DigitFirst THEN 400 ELSE 700
NumOf(l) == [i \in 1..NOrd(l) |-> 1 + Cardinality({j \in 1..NOrd(l) : NumKey(l, j) < NumKey(l, i)})]
PatternOf(l) == [res |-> {<<l.orders[i], OrdRn(l, i)>> : i \in 1..NOrd(l)},
                 con |-> {{l.orders[i], l.orders[j]} : <<i, j>> \in {pr \in (1..NOrd(l)) \X (1..NOrd(l)) : pr[1] < pr[2] /\ PEdge(l, pr[1], pr[2])}}]
\* matches by node number: nm[k] = the residue matched to the node numbered k
ToNum(l, phi) == [k \in 1..NOrd(l) |-> phi[CHOOSE i \in 1..NOrd(l) : NumOf(l)[i] = k]]
FromNum(l, nm) == [i \in 1..NOrd(l) |-> nm[NumOf(l)[i]]]
BeginLink == /\ s.pc = "begin"
             /\ IF s.li > Len(s.L.l)
                THEN s' = [s EXCEPT !.pc = "write"]
                ELSE \E o \in (IF Dev.orientLink THEN {f \in [case.E -> Pos(case)] : \A e \in case.E : f[e] \in e} ELSE {<<>>}) :
                       LET l == CurLink
                           pat == PatternOf(l)
                           pre == Prefilter(s.M, l)
                           hit == Dev.patternCache /\ pre /\ pat \in DOMAIN s.pcache
                           fill == Dev.patternCache /\ pre /\ ~hit
                       IN s' = [s EXCEPT !.pc = "try", !.grp = {}, !.noat = {},
                                      !.orient = IF s.li = 1 THEN o ELSE @,
                                      !.cached = hit,
                                      !.pcache = IF fill THEN (pat :> {ToNum(l, phi) : phi \in {m \in ResMatches(case, l) : OrderOK(case, l, m)}}) @@ @ ELSE @,
                                      !.todo = IF hit THEN {FromNum(l, nm) : nm \in s.pcache[pat]}
                                               ELSE IF pre THEN ResMatches(case, l) ELSE {}]
             /\ UNCHANGED case
DictPut(D, new) == {x \in D : \A y \in new : Key(y) # Key(x)} \cup new
TryMatch(phi) ==
  /\ s.pc = "try" /\ phi \in s.todo
  /\ LET l == CurLink
         iv == ImgVec(case, s.M, l, phi)
         rng == {phi[i] : i \in DOMAIN phi}
         nkey == {<<i, case.rn[phi[i]]>> : i \in DOMAIN phi}
         skip == OrientOK(l, phi) /\ ((Dev.oncePerGroup /\ rng \in s.grp) \/ (Dev.nameCache /\ nkey \in s.noat))
         found == \A a \in DOMAIN l.atoms : iv[a] # 0
         ok == OrientOK(l, phi) /\ ~skip /\ found
     IN s' = IF ~ok THEN [s EXCEPT !.todo = @ \ {phi}, !.grp = IF OrientOK(l, phi) THEN @ \cup {rng} ELSE @,
                                   !.noat = IF OrientOK(l, phi) /\ ~skip /\ ~found THEN @ \cup {nkey} ELSE @]
             ELSE [s EXCEPT !.todo = IF Dev.firstMatchOnly THEN {} ELSE @ \ {phi}, !.grp = @ \cup {rng},
                            !.M.rm = @ \cup DelImg(l, iv),
                            !.M.atoms = [g \in DOMAIN s.M.atoms |-> IF \E r \in RepImg(l, s.li, iv) : r.g = g
                                                            THEN [s.M.atoms[g] EXCEPT !.ty = (CHOOSE r \in RepImg(l, s.li, iv) : r.g = g).ty] ELSE s.M.atoms[g]],
                            !.M.edges = @ \cup EdgeImg(l, iv),
                            !.M.ints = DictPut(@, IntImg(l, s.L.ver[s.L.l[s.li]], s.li, iv))]
  /\ UNCHANGED case
EndLink == /\ s.pc = "try" /\ s.todo = {}
           /\ s' = [s EXCEPT !.pc = "begin", !.li = @ + 1]
           /\ UNCHANGED case
WriteBack == /\ s.pc = "write"
             /\ s' = [s EXCEPT !.pc = "mods",
                               !.M.ints = {x \in @ : ~(\E j \in DOMAIN x.at : x.at[j] \in s.M.rm)},
                               !.M.edges = {e \in @ : e \cap s.M.rm = {}}]
             /\ UNCHANGED case

(* ---- ApplyModifications *)
\* key0: the node keys are whatever the input file uses; the first residue is "the node with key 0", the last "the node with key max_resid - 1"
KeyAssignments(c) == {ks \in [Pos(c) -> 0..(c.n + 1)] : \A p, q \in Pos(c) : p # q => ks[p] # ks[q]}
NodeOfKey(c, ks, key) == IF \E p \in Pos(c) : ks[p] = key THEN CHOOSE p \in Pos(c) : ks[p] = key ELSE 0
RECURSIVE ModFoldAt(_, _, _, _, _)
ModFoldAt(c, L, ME, ts, k) == IF k > Len(ts) THEN ME ELSE ModFoldAt(c, L, ModStep(c, L, ME, ts[k].t, ts[k].p), ts, k + 1)
ApplyMods ==
  /\ s.pc = "mods"
  /\ IF ~Dev.key0
     THEN LET ME == PModded(case, s.L, s.M) IN
          s' = [s EXCEPT !.pc = "finish", !.M = ME.M, !.err = ME.err]
     ELSE \E ks \in KeyAssignments(case) :
          LET maxres == Resid(case, case.n)
              n0 == NodeOfKey(case, ks, 0)
              nl == NodeOfKey(case, ks, maxres - 1)
          IN IF Len(case.mods) = 0 /\ (n0 = 0 \/ nl = 0)
             THEN Fail("KeyError:nodekey")
             ELSE LET ts == IF Len(case.mods) = 0 THEN <<[resid |-> 1, mod |-> "N-ter"], [resid |-> maxres, mod |-> "C-ter"]>> ELSE case.mods
                      tp == [q \in DOMAIN ts |-> [t |-> ts[q], p |-> NodeOfKey(case, ks, ts[q].resid - 1)]]
                      ME == IF DOMAIN s.L.m = {} THEN [M |-> s.M, err |-> ""] ELSE ModFoldAt(case, s.L, [M |-> s.M, err |-> ""], tp, 1)
                  IN s' = [s EXCEPT !.pc = "finish", !.M = ME.M, !.err = ME.err]
  /\ UNCHANGED case

Finish == /\ s.pc = "finish"
          /\ s' = [s EXCEPT !.pc = "done", !.out = IF s.err # "" THEN ErrOut(s.err) ELSE Project(s.M, s.molN, CitesOf(case, s.bx))]
          /\ UNCHANGED case

\* canonMatch (not a deviation): one fixed order of the matches, for runs that only need the results of the other choices
TryAny == IF Dev.canonMatch THEN s.todo # {} /\ TryMatch(CHOOSE phi \in s.todo : TRUE) ELSE \E phi \in s.todo : TryMatch(phi)
Next == Load \/ MatchNodes \/ Tag \/ AddBlock \/ BeginLink \/ TryAny \/ EndLink \/ WriteBack \/ ApplyMods \/ Finish
Spec == Init /\ [][Next]_vars

(* ---- I-layer |= P-layer: confluence *)
Confluent == s.pc = "done" => s.out = s.exp
\* the base molecule before links is the declared concatenation of block copies (where MapToMolecule did not fail)
BaseAsDeclared == (s.pc = "begin" /\ s.li = 1) =>
                    LET B == PBase(case, s.L, s.bx) IN s.M.atoms = B.atoms /\ s.M.gattr = B.gattr /\ s.M.ints = B.ints /\ s.M.edges = B.edges
\* the cases stay inside the stated domain
DomainInv == s.pc = "load" => (InDomain(case) /\ s.exp = PResult(case))
\* a run only fails where the declared result is that failure
NoSpuriousFailure == (s.pc = "done" /\ s.err # "") => s.exp.err = s.err
\* without a known deviation switched on nothing "fires"
FiredOnlyKnown == s.fired \subseteq {f \in Known : Dev[f]}
=============================================================================
