INIT MCInit
NEXT XNext
CONSTANTS
 Mols = {}
 Dev = "none"
 FixedOrder = TRUE
INVARIANT LawsAtStart
CHECK_DEADLOCK FALSE
