SPECIFICATION Spec
CONSTANTS
 L = 2
 Chains <- Chains2x3
 Closed <- Ring1
 Grid <- Grid2
 Bundle <- Bundle6
 MaxIter = 5
 MaxReject <- Unlimited
 Dev <- NoDev
INVARIANT StepOne
INVARIANT InBox
INVARIANT NoOverlap
INVARIANT RootOnGrid
INVARIANT Contiguous
INVARIANT Final
CHECK_DEADLOCK FALSE
