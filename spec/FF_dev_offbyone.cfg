SPECIFICATION Spec
CONSTANTS
 Inputs <- MCInputs
 Dev <- DevOffByOne
INVARIANT C01_Inv
CHECK_DEADLOCK FALSE
