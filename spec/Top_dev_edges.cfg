SPECIFICATION MCSpec
CONSTANTS
 FsOf <- MCFs
 MainOf <- MCMainOf
 Fuel = 4
 Which = "mols"
 MaxChunks = 1
 First = {}
 DevF3 = FALSE
 DevMolsPerFile = FALSE
 DevDirKeep = FALSE
 DevElseKeep = FALSE
 DevRootFirst = FALSE
 DevEdgesNewOnly = TRUE
CHECK_DEADLOCK FALSE
INVARIANT Same
