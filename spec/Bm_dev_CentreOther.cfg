SPECIFICATION Spec
CONSTANTS
 TypeDefs <- MCTypeDefs
 Mols <- MCMolsSmall
 Fudges <- MCFudgesSmall
 Angles <- MCAngles
 DevImproper = FALSE
 DevPerAtom = FALSE
 DevNoFudge = FALSE
 DevOtherTemplate = FALSE
 DevCentreOther = TRUE
INVARIANT Centred
CHECK_DEADLOCK FALSE
