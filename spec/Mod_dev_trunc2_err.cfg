INIT MCInitTiny
NEXT Next
CONSTANTS
 Inputs = {}
 LibOf <- MCLibOf
 Dev <- DevTrunc2
 FreeOrder = TRUE
INVARIANT ErrorLaw
CHECK_DEADLOCK FALSE
