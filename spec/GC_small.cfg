SPECIFICATION Spec
CONSTANTS
 Systems <- MCSys
 DevSkipConsumes = FALSE
INVARIANT LoopIsDeclarative
INVARIANT RowsDisjoint
INVARIANT RowsPrefix
INVARIANT OnlyMissingBuilt
INVARIANT ExportInv
CHECK_DEADLOCK FALSE
