SPECIFICATION Spec
CONSTANTS
 Instances <- MCSmall
 MaxFail = 3
 Dev <- DevRetryAll
INVARIANT SuppliedKept
CHECK_DEADLOCK FALSE
