"""X06 - pytest plugin: the repository's own tests as a source of traces.

Loaded with   -p harness.pytest_trace_plugin   (PYTHONPATH=/verif:<repo>), output directory in X06_OUT.
Nothing in /repo is edited: everything is interposition on public methods from here.

For every test (set-up, call and tear-down phases together) the plugin records
  WALK   one trace per *complete* BuildSystem.run_system execution (this includes gen_coords), produced by the recorder of
         harness/walk_util.py (events begin/root/rootfail/ok/fail/rewind/end/cleanup/handled/finish) with the C05 numeric
         monitor attached (step length, in box, >= 0.1 nm, force limit; step factor and force limit are read from the
         RandomWalk object the code under test constructed).  Format = the one spec/WalkTrace.tla reads.
         Pieces of RandomWalk driven directly by a unit test (update_positions, _rewind, run_molecule ... outside
         run_system) are not complete behaviours of Walk: they are counted, not recorded.
  ENGINE one trace per NonBondEngine object: init (constructor) / add / remove / concat with the projected state after the
         call (position table, index list per tree, node -> tree map, contents of every tree) and the read-only calls query
         (compute_force_point), dist (pbc_min_dist) and point (get_point).  Float points are opaque tokens (first seen =
         1, 2, ...; "no position" = -1): spec/NBTraceAbs.tla validates the four views action by action, the metric part
         of a query is judged by an independent brute-force monitor here (minimum-image distances, 12-6 force) whose
         verdict enters the trace as the boolean q_ok.
One JSON line per record (kind = test | walk | engine) is appended to  $X06_OUT/records-<pid>.ndjson.
"""
import functools
import json
import os
import random
import zlib

import numpy as np
import pytest

OUT = os.environ.get("X06_OUT")
SEED = int(os.environ.get("VERIF_SEED", "0") or 0)
MAX_RO = int(os.environ.get("X06_MAX_READONLY", "1500"))    # read-only events kept per engine trace (a FALSE verdict is always kept)
MAX_EV = int(os.environ.get("X06_MAX_EVENTS", "6000"))      # events kept per engine trace; the validated trace is then a prefix
MAX_WALK = int(os.environ.get("X06_MAX_WALK_EVENTS", "30000"))   # a longer build is not kept (a prefix is not a complete behaviour)
ABORT_AFTER = int(os.environ.get("X06_ABORT_AFTER", "2000"))     # engine calls a test may still make after a FALSE verdict


class X06Abort(BaseException):
    """a test in which a monitor verdict was FALSE is cut short (changed code can make the walk retry for hours); the recorded prefix
    already is the violation"""

CUR = None            # state of the running test
_DEPTH = [0]          # nesting of engine mutators (add_positions calls remove_positions): only the outermost call is an event
_IN_RUN = [False]     # inside BuildSystem.run_system
_INSTALLED = []


# ----------------------------------------------------------------------------- numeric monitors (independent of polyply)

def _min_image(d, box):
    return d - box * np.round(d / box)


def force_monitor(eng, point, mol_idx, node, exclude, got):
    """compute_force_point re-derived by brute force: every positioned residue (excluded or not) closer than 0.1 nm makes the
    answer inf; otherwise the sum over the positioned, non-excluded residues within the cut-off of the 12-6 force along the
    minimum-image vector.  Distances within 1e-9 of a threshold leave both answers open."""
    box = np.asarray(eng.boxsize, float)
    pos = np.asarray(eng.positions, float)
    p = np.asarray(point, float)
    cut = float(eng.cut_off)
    fin = np.where(np.all(np.isfinite(pos), axis=1))[0]
    excl = {eng.nodes_to_gndx[(mol_idx, n)] for n in exclude}
    me = eng.nodes_to_gndx[(mol_idx, node)]
    raw = {"npos": int(len(fin))}
    if len(fin):
        dv = _min_image(p - pos[fin], box)
        rr = np.sqrt((dv * dv).sum(axis=1))
    else:
        dv, rr = np.zeros((0, 3)), np.zeros(0)
    inr = rr <= cut + 1e-9
    sure_close = bool(np.any(rr[inr] < 0.1 - 1e-9))
    maybe_close = bool(np.any(rr[inr] < 0.1 + 1e-9))
    got_inf = bool(np.ndim(got) == 0 and np.isinf(got))
    raw["min_d"] = float(rr.min()) if len(rr) else -1.0
    if got_inf:
        raw["got"] = "inf"
        return maybe_close, raw
    if sure_close:
        raw["expected"] = "inf"
        raw["got"] = np.asarray(got, float).tolist() if np.ndim(got) else float(got)
        return False, raw
    gotv = np.zeros(3) if np.ndim(got) == 0 else np.asarray(got, float)
    sure, edge = np.zeros(3), []
    nsure = 0
    for g, d, r in zip(fin, dv, rr):
        if g in excl or r > cut + 1e-9:
            continue
        sig, eps = eng.interaction_matrix[frozenset([str(eng.atypes[me]), str(eng.atypes[g])])]
        f = 24.0 * eps * (2.0 * sig ** 12 / r ** 13 - sig ** 6 / r ** 7) * d / r
        if r < cut - 1e-9:
            sure += f
            nsure += 1
        else:
            edge.append(f)
    raw.update(contributing=nsure, got=gotv.tolist(), expected=sure.tolist())
    cands = [sure]
    if 0 < len(edge) <= 4:
        import itertools
        cands = [sure + sum(sub, np.zeros(3)) for k in range(len(edge) + 1) for sub in itertools.combinations(edge, k)]
    elif edge:
        return True, raw
    ok = any(np.allclose(gotv, c, rtol=1e-6, atol=1e-9) for c in cands)
    return bool(ok), raw


def dist_monitor(eng, a, b, got):
    a, b = np.asarray(a, float), np.asarray(b, float)
    box = np.asarray(eng.boxsize, float)
    if np.all(np.isinf(a)) or np.all(np.isinf(b)):
        return bool(np.isnan(got)), {"expected": "nan", "got": float(got)}
    exp = float(np.linalg.norm(_min_image(a - b, box)))
    return bool(abs(float(got) - exp) <= 1e-9 * max(1.0, exp)), {"expected": exp, "got": float(got)}


# ----------------------------------------------------------------------------- engine traces

class EngineRec:
    def __init__(self, eng, k):
        self.eng, self.k = eng, k            # the reference keeps id(eng) unique during the test
        self.tokens = {}
        self.evs = []
        self.snap = None
        self.pos = []
        self.tree_cache = {}
        self.ro = 0
        self.dropped = 0
        self.truncated = False
        self.false_after = []
        self.nn = int(len(eng.positions))
        self.event({"op": "init"}, mut=True)
        self.init = list(self.evs[0]["post"]["pos"])

    def tok(self, row):
        row = np.asarray(row, float).reshape(-1) + 0.0
        if row.shape == (3,) and np.all(np.isinf(row)) and np.all(row > 0):
            return -1
        key = row.tobytes()
        t = self.tokens.get(key)
        if t is None:
            t = self.tokens[key] = len(self.tokens) + 1
        return t

    def project(self):
        eng = self.eng
        now = np.array(eng.positions, float)
        if self.snap is None or self.snap.shape != now.shape:
            self.pos = [self.tok(r) for r in now]
        else:
            with np.errstate(invalid="ignore"):
                ch = np.where(np.any(~((self.snap == now) | (np.isnan(self.snap) & np.isnan(now))), axis=1))[0]
            for g in ch:
                self.pos[int(g)] = self.tok(now[g])
        self.snap = now
        trees, cache = [], {}
        for t in eng.position_trees:
            ent = self.tree_cache.get(id(t))
            if ent is None or ent[0] is not t:
                data = np.asarray(t.data, float).reshape(-1, 3)
                ent = (t, [self.tok(r) for r in data])
            cache[id(t)] = ent
            trees.append(list(ent[1]))
        self.tree_cache = cache
        return {"pos": list(self.pos), "defined": [[int(g) for g in d] for d in eng.defined_idxs], "trees": trees,
                "treeof": sorted([int(g), int(t)] for g, t in eng.gndx_to_tree.items())}

    def event(self, ev, mut=False, verdict=True):
        if not verdict and CUR is not None:
            CUR.false_seen += 1
        if self.truncated or len(self.evs) >= MAX_EV:
            self.truncated = True
            if not verdict and len(self.false_after) < 3:
                self.false_after.append({k: v for k, v in ev.items() if k != "post"})
            return
        if mut:
            ev["post"] = self.project()
        else:
            if verdict and self.ro >= MAX_RO:
                self.dropped += 1
                return
            self.ro += 1
        self.evs.append(ev)

    def record(self, nodeid):
        return {"kind": "engine", "nodeid": nodeid, "k": self.k, "nn": self.nn, "ntok": len(self.tokens), "init": self.init,
                "evs": self.evs, "dropped_readonly": self.dropped, "truncated": self.truncated, "false_after_truncation": self.false_after,
                "box": np.asarray(self.eng.boxsize, float).tolist() if self.eng.boxsize is not None else None,
                "cut_off": float(self.eng.cut_off) if self.eng.cut_off is not None else None}


class TestState:
    def __init__(self, nodeid):
        self.nodeid = nodeid
        self.engines = {}
        self.order = []
        self.walks = []
        self.cnt = {"run_system_started": 0, "run_system_completed": 0, "run_system_raised": 0, "unregistered_engine_calls": 0}
        self.pieces = {}
        self.outcome = {}
        self.false_seen = 0
        self.after_false = 0

    def rec_of(self, eng):
        er = self.engines.get(id(eng))
        if er is None or er.eng is not eng:
            self.cnt["unregistered_engine_calls"] += 1
            return None
        return er


def _rec(eng):
    T = CUR
    if T is None or _DEPTH[0] > 0:
        return None
    if T.false_seen:
        T.after_false += 1
        if T.after_false > ABORT_AFTER:
            T.cnt["cut_short_after_false_verdict"] = 1
            raise X06Abort("X06: a monitor verdict was FALSE %d engine calls ago; the test is cut short" % ABORT_AFTER)
    return T.rec_of(eng)


def _patch(obj, name, new):
    old = obj.__dict__[name] if isinstance(obj, type) else getattr(obj, name)
    _INSTALLED.append((obj, name, old))
    setattr(obj, name, new)


def install():
    if _INSTALLED:
        return
    from polyply.src import build_system as bs
    from polyply.src import random_walk as rw
    from polyply.src.nonbond_engine import NonBondEngine as NB
    from . import walk_util as w

    # ---------------- engine
    o_init = NB.__init__

    @functools.wraps(o_init)
    def __init__(self, *a, **k):
        o_init(self, *a, **k)
        T = CUR
        if T is not None:
            try:
                er = EngineRec(self, len(T.order) + 1)
            except Exception as exc:       # an engine that cannot be projected at all (never seen)
                T.cnt["unprojectable_engines"] = T.cnt.get("unprojectable_engines", 0) + 1
                return
            T.engines[id(self)] = er
            T.order.append(er)
    _patch(NB, "__init__", __init__)

    def mutator(name, describe, norm=None):
        o_func = NB.__dict__[name]

        @functools.wraps(o_func)
        def wrapper(self, *a, **k):
            er = _rec(self)
            if er is None:
                return o_func(self, *a, **k)
            if norm is not None:
                a, k = norm(*a, **k)
            try:
                ev = describe(er, self, *a, **k)
            except Exception:
                ev = None                  # arguments the engine itself will refuse
            _DEPTH[0] += 1
            try:
                r = o_func(self, *a, **k)
            except Exception as exc:
                er.event({"op": "raise", "call": name, "exc": "%s: %s" % (type(exc).__name__, exc), "args": ev}, mut=True, verdict=False)
                raise
            finally:
                _DEPTH[0] -= 1
            er.event(ev if ev is not None else {"op": "raise", "call": name, "exc": "arguments could not be described"}, mut=True)
            return r
        _patch(NB, name, wrapper)

    def d_add(er, self, point, mol_idx, node_key, start=True):
        return {"op": "add", "n": int(self.nodes_to_gndx[(mol_idx, node_key)]), "p": er.tok(point), "start": bool(start)}

    def d_rem(er, self, mol_idx, node_keys):
        return {"op": "remove", "nodes": [int(self.nodes_to_gndx[(mol_idx, key)]) for key in node_keys]}

    def n_rem(mol_idx, node_keys):       # an iterator given as node_keys is consumed once only
        return (mol_idx, list(node_keys)), {}

    def d_con(er, self):
        return {"op": "concat"}

    mutator("remove_positions", d_rem, n_rem)
    mutator("add_positions", d_add)
    mutator("concatenate_trees", d_con)

    o_cfp = NB.compute_force_point

    @functools.wraps(o_cfp)
    def compute_force_point(self, point, mol_idx, node, exclude=[], potential="LJ"):
        er = _rec(self)
        if er is None:
            return o_cfp(self, point, mol_idx, node, exclude=exclude, potential=potential)
        exclude = list(exclude)
        try:
            r = o_cfp(self, point, mol_idx, node, exclude=exclude, potential=potential)
        except Exception as exc:
            er.event({"op": "raise", "call": "compute_force_point", "exc": "%s: %s" % (type(exc).__name__, exc)}, verdict=False)
            raise
        try:
            ok, raw = force_monitor(self, point, mol_idx, node, exclude, r)
        except Exception as exc:
            ok, raw = False, {"monitor_error": "%s: %s" % (type(exc).__name__, exc)}
        er.event({"op": "query", "n": int(self.nodes_to_gndx[(mol_idx, node)]), "excl": [int(self.nodes_to_gndx[(mol_idx, n)]) for n in exclude],
                  "at": np.asarray(point, float).tolist(), "q_ok": bool(ok), "raw": raw}, verdict=bool(ok))
        return r
    _patch(NB, "compute_force_point", compute_force_point)

    o_dist = NB.pbc_min_dist

    @functools.wraps(o_dist)
    def pbc_min_dist(self, pos_a, pos_b):
        r = o_dist(self, pos_a, pos_b)
        er = _rec(self)
        if er is not None:
            try:
                ok, raw = dist_monitor(self, pos_a, pos_b, r)
            except Exception as exc:
                ok, raw = False, {"monitor_error": "%s: %s" % (type(exc).__name__, exc)}
            er.event({"op": "dist", "a": np.asarray(pos_a, float).tolist(), "b": np.asarray(pos_b, float).tolist(), "q_ok": bool(ok), "raw": raw},
                     verdict=bool(ok))
        return r
    _patch(NB, "pbc_min_dist", pbc_min_dist)

    o_get = NB.get_point

    @functools.wraps(o_get)
    def get_point(self, mol_idx, node):
        r = o_get(self, mol_idx, node)
        er = _rec(self)
        if er is not None:
            n = int(self.nodes_to_gndx[(mol_idx, node)])
            p = er.tok(r)
            er.event({"op": "point", "n": n, "p": p}, verdict=(n < len(er.pos) and er.pos[n] == p))
        return r
    _patch(NB, "get_point", get_point)

    # ---------------- pieces of the walk driven outside run_system: counted only
    def counted(cls, name):
        o_func = cls.__dict__[name]

        @functools.wraps(o_func)
        def wrapper(self, *a, **k):
            T = CUR
            if T is not None and not _IN_RUN[0]:
                T.pieces[name] = T.pieces.get(name, 0) + 1
            return o_func(self, *a, **k)
        _patch(cls, name, wrapper)
    for name in ("run_molecule", "update_positions", "_rewind", "_is_overlap", "checks_milestones", "bendiness"):
        counted(rw.RandomWalk, name)
    for name in ("_handle_random_walk", "_compose_system"):
        counted(bs.BuildSystem, name)

    # ---------------- complete behaviours: one walk_util.Recorder per run_system call
    pristine = bs.BuildSystem.__dict__["run_system"]

    def walk_monitor(bsobj):
        from .drivers import c05
        ignored = set(bsobj.ignore)
        grid = np.asarray(bsobj.box_grid, float)

        def mon(rec, ev):
            _mon(rec, ev)
            if ev.get("obs") and not all(ev["obs"].values()) and CUR is not None:
                CUR.false_seen += 1
            if len(rec.events) >= MAX_WALK:
                rec.overflow = True
                del rec.events[:]

        def _mon(rec, ev):
            eng = rec.engine
            if eng is None:
                return
            box = np.asarray(eng.boxsize, float)
            if ev["ev"] == "finish":
                bad = []
                for mi, mol in enumerate(rec.topology.molecules):
                    if mol.mol_name in ignored:
                        continue
                    for node in mol.nodes:
                        g = eng.nodes_to_gndx.get((mi, node))
                        q = np.asarray(eng.positions[g], float) if g is not None else np.array([np.inf] * 3)
                        if not (np.all(np.isfinite(q)) and np.all(q >= 0) and np.all(q < box + 1e-12)):
                            bad.append([mi, int(node)])
                ev["obs"], ev["raw"] = {"all_positioned_in_box": not bad}, {"unpositioned": bad[:20]}
                return
            if ev["ev"] not in ("ok", "root"):
                return
            walker = rec.cur.get("rw")
            mi = ev["mol"] - 1
            node = (ev["cur"] if ev["ev"] == "ok" else ev["node"]) - 1
            prev = ev["prev"] - 1 if ev["ev"] == "ok" else None
            obs, raw = c05.monitor_obs(eng, rec.topology.molecules[mi], mi, node, prev, float(walker.step_fudge), float(walker.max_force),
                                       box, grid)
            raw["step_fudge"], raw["max_force"] = float(walker.step_fudge), float(walker.max_force)
            if obs.get("dist_ok") is False and prev is not None:
                # a box edge shorter than two steps (test_box_input builds a trimer in a 0.79 nm box): the wrapped image of a point exactly
                # one step away can be closer than one step under the minimum-image convention.  The claim is about the step that
                # was taken: SOME periodic image of the new position is exactly one step from the predecessor.
                p = np.asarray(eng.positions[eng.nodes_to_gndx[(mi, node)]], float)
                q = np.asarray(eng.positions[eng.nodes_to_gndx[(mi, prev)]], float)
                if np.any(box < 2.0 * raw["step"]):
                    imgs = [float(np.linalg.norm(p - q + np.array([i, j, k]) * box)) for i in (-1, 0, 1) for j in (-1, 0, 1) for k in (-1, 0, 1)]
                    best = min(imgs, key=lambda d: abs(d - raw["step"]))
                    raw["dist_image"] = best
                    obs["dist_ok"] = bool(abs(best - raw["step"]) <= 1e-6)
            ev["obs"], ev["raw"] = obs, raw
        return mon

    def run_system(self, molecules):
        T = CUR
        if T is None or _IN_RUN[0]:
            return pristine(self, molecules)
        T.cnt["run_system_started"] += 1
        rec = w.Recorder(monitor=walk_monitor(self))
        bs.BuildSystem.run_system = pristine
        rec.install()
        _IN_RUN[0] = True
        try:
            r = bs.BuildSystem.run_system(self, molecules)
        except BaseException:
            T.cnt["run_system_raised"] += 1
            raise
        finally:
            _IN_RUN[0] = False
            rec.uninstall()
            bs.BuildSystem.run_system = run_system
        T.cnt["run_system_completed"] += 1
        if getattr(rec, "overflow", False):
            T.cnt["run_system_too_long"] = T.cnt.get("run_system_too_long", 0) + 1
            return r
        hdr = dict(rec.header)
        hdr["maxiter"] = int(self.rwargs.get("maxiter", _default(rw.RandomWalk, "maxiter", 80)))
        inst, evs = w.compact_trace(hdr, rec.events)
        T.walks.append({"inst": inst, "evs": evs, "hidden_molecules": hdr["nmol"] - inst["nmol"]})
        return r
    run_system.__wrapped__ = pristine
    _patch(bs.BuildSystem, "run_system", run_system)


def _default(cls, name, fallback):
    import inspect
    try:
        return inspect.signature(cls.__init__).parameters[name].default
    except Exception:
        return fallback


def uninstall():
    for obj, name, old in reversed(_INSTALLED):
        setattr(obj, name, old)
    del _INSTALLED[:]


# ----------------------------------------------------------------------------- pytest hooks

def _dump(T):
    if not OUT:
        return
    os.makedirs(OUT, exist_ok=True)
    with open(os.path.join(OUT, "records-%d.ndjson" % os.getpid()), "a") as fh:
        for k, wk in enumerate(T.walks, 1):
            fh.write(json.dumps({"kind": "walk", "nodeid": T.nodeid, "k": k, **wk}) + "\n")
        for er in T.order:
            fh.write(json.dumps(er.record(T.nodeid)) + "\n")
        fh.write(json.dumps({"kind": "test", "nodeid": T.nodeid, "outcome": T.outcome, "counts": T.cnt, "pieces": T.pieces,
                             "walks": len(T.walks), "engines": len(T.order)}) + "\n")


def pytest_configure(config):
    install()


def pytest_unconfigure(config):
    uninstall()


@pytest.hookimpl(hookwrapper=True, tryfirst=True)
def pytest_runtest_protocol(item, nextitem):
    global CUR
    sd = (zlib.crc32(item.nodeid.encode()) ^ (SEED * 2654435761)) & 0x7FFFFFFF
    np.random.seed(sd)
    random.seed(sd)
    CUR = TestState(item.nodeid)
    _DEPTH[0] = 0
    _IN_RUN[0] = False
    try:
        yield
    finally:
        T, CUR = CUR, None
        _dump(T)


def pytest_runtest_logreport(report):
    T = CUR
    if T is not None and T.nodeid == report.nodeid:
        T.outcome[report.when] = report.outcome
