"""Small numeric monitor for the real-valued sub-claims of C06 and C15 (DESIGN section 6).

numpy only, independent of polyply's implementations: similarity (Kabsch/Umeyama) fit, rotation-matrix tests,
the GROMACS virtual-site constructions (manual section "Virtual interaction sites"), distance / angle / GROMACS dihedral.
Every function returns plain booleans plus the raw numbers; the TLA+ trace specifications require the booleans.
"""
import numpy as np


# ------------------------------------------------------------------------------------------------ similarity fit

def similarity_fit(template, coords):
    """Least-squares fit  coords_i ~ c + s * R * template_i  with R a PROPER rotation (det +1) and s >= 0 uniform.

    template, coords: (n, 3) arrays in the same atom order.  Returns dict with
      cog      centre of geometry of coords
      scale    optimal uniform scale (nan if the template has no extent)
      rot      the optimal proper rotation
      rmsd     root mean square deviation after the optimal proper fit
      rmsd_any rmsd when reflections are allowed as well (optimal orthogonal matrix)
      rank     number of non-negligible singular values of the centred template (3 = chiral-capable, 2 planar, 1 linear, 0 point)
      det_free determinant (+1/-1) of the optimal orthogonal matrix, 0 when it is not determined (rank < 3)
      size     root mean square extent of the centred template
    """
    X = np.asarray(template, float)
    Y = np.asarray(coords, float)
    n = len(X)
    xc, yc = X.mean(axis=0), Y.mean(axis=0)
    X0, Y0 = X - xc, Y - yc
    size = float(np.sqrt((X0 * X0).sum() / n))
    sx = np.linalg.svd(X0, compute_uv=False) if n else np.zeros(3)
    rank = int((sx > 1e-9 * max(1.0, sx.max() if len(sx) else 1.0)).sum()) if size > 0 else 0
    H = X0.T @ Y0                      # 3x3 covariance
    U, S, Vt = np.linalg.svd(H)
    d = np.sign(np.linalg.det(Vt.T @ U.T))
    d = 1.0 if d == 0 else d
    D = np.diag([1.0, 1.0, d])
    R = Vt.T @ D @ U.T                 # proper rotation mapping template -> coords
    Rany = Vt.T @ U.T
    varx = float((X0 * X0).sum())
    if varx > 0:
        scale = float((S * np.diag(D)).sum() / varx)
        scale_any = float(S.sum() / varx)
    else:
        scale = scale_any = float("nan")
    if varx > 0:
        res = Y0 - scale * (X0 @ R.T)
        res_any = Y0 - scale_any * (X0 @ Rany.T)
    else:
        res = res_any = Y0
    rmsd = float(np.sqrt((res * res).sum() / max(n, 1)))
    rmsd_any = float(np.sqrt((res_any * res_any).sum() / max(n, 1)))
    det_free = int(round(float(np.linalg.det(Rany)))) if rank == 3 else 0
    return {"cog": yc, "tcog": xc, "scale": scale, "rot": R, "rmsd": rmsd, "rmsd_any": rmsd_any, "rank": rank,
            "det_free": det_free, "size": size}


def placement_verdict(template, coords, centre, fudge, tol=1e-6):
    """The four booleans of C06 for one backmapped residue (template and coords in the same atom order).

    centred : |cog(coords) - centre| <= tol
    rigid   : rmsd after the optimal proper rotation and uniform scale <= tol * max(size, 1e-3) (a point template: all atoms on the centre)
    scale_ok: optimal scale equals the backmapping factor (relative tol), vacuous for a point template
    proper  : the best orthogonal fit is a rotation, not a reflection (decidable only for non-planar templates; planar,
              linear and point templates have no handedness and pass)
    """
    fit = similarity_fit(template, coords)
    centre = np.asarray(centre, float)
    dc = float(np.linalg.norm(fit["cog"] - centre))
    size = fit["size"]
    centred = bool(dc <= tol)
    if size <= 1e-12:
        rigid = bool(fit["rmsd"] <= tol)
        scale_ok = True
        proper = True
    else:
        rigid = bool(fit["rmsd"] <= tol * max(size, 1e-3))
        scale_ok = bool(abs(fit["scale"] - fudge) <= tol * max(1.0, abs(fudge)))
        proper = bool(fit["det_free"] >= 0)
        if fit["rank"] == 3 and fudge != 0:
            # a reflected copy fits better with a reflection than with the best proper rotation
            proper = proper and fit["rmsd"] <= fit["rmsd_any"] + tol * max(size, 1e-3)
    return {"centred": centred, "rigid": rigid, "scale_ok": scale_ok, "proper": proper,
            "raw": {"dcog": dc, "rmsd": fit["rmsd"], "rmsd_reflect_allowed": fit["rmsd_any"], "scale": fit["scale"], "fudge": float(fudge),
                    "rank": fit["rank"], "det": fit["det_free"], "size": size}}


def rotation_verdict(M, tol=1e-12):
    """orthogonality and determinant of a 3x3 matrix"""
    M = np.asarray(M, float)
    orth = bool(np.abs(M @ M.T - np.eye(3)).max() <= tol and np.abs(M.T @ M - np.eye(3)).max() <= tol)
    det = float(np.linalg.det(M))
    return {"orth": orth, "det_ok": bool(abs(det - 1.0) <= tol), "det": det, "orth_err": float(np.abs(M @ M.T - np.eye(3)).max())}


def random_rotation(rng):
    """uniform random proper rotation (QR of a Gaussian matrix), rng: numpy Generator"""
    Q, R = np.linalg.qr(rng.normal(size=(3, 3)))
    Q = Q * np.sign(np.diag(R))
    if np.linalg.det(Q) < 0:
        Q[:, 0] = -Q[:, 0]
    return Q


# ------------------------------------------------------------------------------------------------ GROMACS virtual sites
# GROMACS reference manual, "Virtual interaction sites".  xs: list of constructing atom positions (i, j, k, l), p: parameters.

def _u(v):
    return v / np.linalg.norm(v)


def vs_2(xs, p):            # x_s = (1 - a) x_i + a x_j
    (xi, xj), (a,) = xs, p
    return (1.0 - a) * xi + a * xj


def vs_3(xs, p):            # x_s = (1 - a - b) x_i + a x_j + b x_k
    (xi, xj, xk), (a, b) = xs, p
    return (1.0 - a - b) * xi + a * xj + b * xk


def vs_3fd(xs, p):          # x_s = x_i + b * (r_ij + a r_jk) / |r_ij + a r_jk|
    (xi, xj, xk), (a, b) = xs, p
    v = (xj - xi) + a * (xk - xj)
    return xi + b * _u(v)


def vs_3fad(xs, p):         # x_s = x_i + d cos(theta) r_ij/|r_ij| + d sin(theta) r_perp/|r_perp|, r_perp = r_jk - (r_ij.r_jk / r_ij.r_ij) r_ij
    (xi, xj, xk), (theta, d) = xs, p
    rij, rjk = xj - xi, xk - xj
    perp = rjk - (np.dot(rij, rjk) / np.dot(rij, rij)) * rij
    t = np.deg2rad(theta)
    return xi + d * np.cos(t) * _u(rij) + d * np.sin(t) * _u(perp)


def vs_3out(xs, p):         # x_s = x_i + a r_ij + b r_ik + c (r_ij x r_ik)
    (xi, xj, xk), (a, b, c) = xs, p
    rij, rik = xj - xi, xk - xi
    return xi + a * rij + b * rik + c * np.cross(rij, rik)


def vs_4fdn(xs, p):         # r_ja = a r_ik - r_ij ; r_jb = b r_il - r_ij ; r_m = r_ja x r_jb ; x_s = x_i + c r_m/|r_m|
    (xi, xj, xk, xl), (a, b, c) = xs, p
    rij, rik, ril = xj - xi, xk - xi, xl - xi
    rm = np.cross(a * rik - rij, b * ril - rij)
    return xi + c * _u(rm)


def vs_n_cog(xs, p):        # virtual_sitesn, function 1: centre of geometry
    return np.mean(np.asarray(xs, float), axis=0)


VS = {("virtual_sites2", "1"): vs_2, ("virtual_sites3", "1"): vs_3, ("virtual_sites3", "2"): vs_3fd,
      ("virtual_sites3", "3"): vs_3fad, ("virtual_sites3", "4"): vs_3out, ("virtual_sites4", "2"): vs_4fdn,
      ("virtual_sitesn", "1"): vs_n_cog}


def construct(vs_type, func, xs, params):
    xs = [np.asarray(x, float) for x in xs]
    return VS[(vs_type, str(func))](xs, [float(v) for v in params])


# ------------------------------------------------------------------------------------------------ internal coordinates

def distance(a, b):
    return float(np.linalg.norm(np.asarray(a, float) - np.asarray(b, float)))


def angle_deg(a, b, c):
    """angle at b in degrees"""
    v1, v2 = np.asarray(a, float) - np.asarray(b, float), np.asarray(c, float) - np.asarray(b, float)
    cs = np.dot(v1, v2) / (np.linalg.norm(v1) * np.linalg.norm(v2))
    return float(np.degrees(np.arccos(np.clip(cs, -1.0, 1.0))))


def dihedral_deg(xi, xj, xk, xl):
    """GROMACS dihedral i-j-k-l in degrees (manual: phi = angle between the planes ijk and jkl, zero = cis; the sign of phi
    is the sign of r_ij . (r_kj x r_kl), i.e. IUPAC/IUB)."""
    xi, xj, xk, xl = (np.asarray(x, float) for x in (xi, xj, xk, xl))
    r_ij, r_kj, r_kl = xi - xj, xk - xj, xk - xl
    m, n = np.cross(r_ij, r_kj), np.cross(r_kj, r_kl)
    cs = np.dot(m, n) / (np.linalg.norm(m) * np.linalg.norm(n))
    phi = float(np.degrees(np.arccos(np.clip(cs, -1.0, 1.0))))
    return -phi if np.dot(r_ij, n) < 0 else phi
