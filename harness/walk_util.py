"""Shared by C17 / C04 (and C03/C05 drivers): building real polyply systems for Walk.tla instances, scripting the
failure schedule chosen by TLC, and recording the observable events of BuildSystem / RandomWalk / NonBondEngine.

Event vocabulary (same as spec/WalkExport.tla and spec/WalkTrace.tla):
  begin | root | rootfail | ok | fail | rewind | end | cleanup | handled | finish
every event carries  mol (1-based), pos (per molecule: sorted positioned nodes, 1-based) and moved (engine rows that changed).
"""
import contextlib
import os
import tempfile
from pathlib import Path

import numpy as np

SIGMA = 0.47


class NoVerdict(Exception):
    """the run left the scripted schedule for a reason that is not a property violation (e.g. a natural placement failure)"""


# ----------------------------------------------------------------------------- system construction

def resname(m, n):
    return "R%d%s" % (m, "ABCDEFGH"[n - 1])


def top_text(inst, extra_edges=None):
    lines = ["[ defaults ]", "1 2 no 1.0 1.0", "[ atomtypes ]", "P 72.0 0.0 A %.2f 4.0" % SIGMA]
    for m in range(1, inst["nmol"] + 1):
        nodes = inst["nodes"][m - 1]
        lines += ["[ moleculetype ]", "M%d 1" % m, "[ atoms ]"]
        for n in nodes:
            lines.append("%d P %d %s B %d 0.0 72" % (n, n, resname(m, n), n))
        edges = [tuple(e) for e in inst["path"][m - 1]]
        if extra_edges and extra_edges.get(m):
            edges += [tuple(e) for e in extra_edges[m]]
        if edges:
            lines.append("[ bonds ]")
            for a, b in edges:
                lines.append("%d %d 1 %.2f 100" % (a, b, SIGMA))
    lines += ["[ system ]", "walk", "[ molecules ]"]
    for m in range(1, inst["nmol"] + 1):
        lines.append("M%d 1" % m)
    return "\n".join(lines) + "\n"


def supplied_xyz(m, n):
    return (1.0 + 0.5 * n, 2.0 * m, 1.0)


def gro_text(inst, box):
    rows = []
    k = 0
    for m in range(1, inst["nmol"] + 1):
        for n in inst["nodes"][m - 1]:
            if n in inst["attr"][m - 1]:
                k += 1
                x, y, z = supplied_xyz(m, n)
                rows.append("%5d%-5s%5s%5d%8.3f%8.3f%8.3f" % (n, resname(m, n)[:5], "B", k, x, y, z))
    return "supplied\n%5d\n%s\n%10.5f%10.5f%10.5f\n" % (k, "\n".join(rows), box, box, box)


def build_topology(inst, wd, box=30.0, extra_edges=None):
    """parse a real .top (and .gro for supplied residues) and return (topology, skip_res)"""
    from polyply.src.topology import Topology
    wd = Path(wd)
    top = wd / "sys.top"
    top.write_text(top_text(inst, extra_edges))
    topology = Topology.from_gmx_topfile(name="walk", path=top)
    topology.preprocess()
    build_res = [resname(m, n) for m in range(1, inst["nmol"] + 1) for n in inst["nodes"][m - 1] if n not in inst["attr"][m - 1]]
    if any(inst["attr"][m] for m in range(inst["nmol"])):
        gro = wd / "in.gro"
        gro.write_text(gro_text(inst, box))
        topology.add_positions_from_file(gro, skip_res=build_res, resolution="mol")
    topology.volumes = {resname(m, n): SIGMA for m in range(1, inst["nmol"] + 1) for n in inst["nodes"][m - 1]}
    return topology


def check_paths(topology, inst):
    """the spec's PathOf constant must be the real search tree (binding of the instance constants)"""
    for m, mol in enumerate(topology.molecules, 1):
        real = [[int(a) + 1, int(b) + 1] for a, b in mol.search_tree.edges]
        if real != [list(e) for e in inst["path"][m - 1]]:
            return "molecule %d: search tree %s differs from the instance path %s" % (m, real, inst["path"][m - 1])
    return None


# ----------------------------------------------------------------------------- recorder + script

class Recorder:
    """interposition wrappers (installed from the harness, no hooks in /repo)"""

    def __init__(self, script=None, maxiter=None, monitor=None, chooser=None):
        self.chooser = chooser
        self.script = list(script) if script is not None else None   # outcomes: "root","rootfail","ok","fail"
        self.maxiter = maxiter
        self.monitor = monitor
        self.events = []
        self.cur = {"in_rw": False, "in_handle": False, "mm": None, "mol": None, "since_begin": 0}
        self.engine = None
        self.topology = None
        self.snap = None
        self.noverdict = None
        self.header = None
        self._saved = []

    # -- projection
    def positioned(self):
        eng, out = self.engine, []
        for mi, mol in enumerate(self.topology.molecules):
            out.append(sorted(int(n) + 1 for n in mol.nodes
                              if (mi, n) in eng.nodes_to_gndx and np.isfinite(eng.positions[eng.nodes_to_gndx[(mi, n)]][0])))
        return out

    def moved(self):
        eng = self.engine
        now = eng.positions.copy()
        res = []
        if self.snap is not None:
            rev = {g: k for k, g in eng.nodes_to_gndx.items()}
            a, b = np.nan_to_num(self.snap, posinf=1e30), np.nan_to_num(now, posinf=1e30)
            for g in np.where(np.any(a != b, axis=1))[0]:
                mi, n = rev[int(g)]
                res.append([int(mi) + 1, int(n) + 1])
        self.snap = now
        return sorted(res)

    def emit(self, ev, **kw):
        rec = {"ev": ev, "mol": (self.cur["mol"] + 1) if self.cur["mol"] is not None else 0}
        rec.update(kw)
        rec["pos"] = self.positioned()
        rec["moved"] = self.moved()
        if self.monitor is not None:
            self.monitor(self, rec)
        self.events.append(rec)
        self.cur["since_begin"] += 1

    def next_outcome(self, kinds):
        if self.chooser is not None:
            return self.chooser(kinds)
        if self.script is None:
            return None
        if not self.script:
            return kinds[0]          # script exhausted: everything succeeds
        if self.script[0] not in kinds:
            raise NoVerdict("script expects %s but the code asks for one of %s" % (self.script[0], kinds))
        return self.script.pop(0)

    # -- installation
    def install(self):
        from polyply.src import random_walk as rw
        from polyply.src import build_system as bs
        from polyply.src.nonbond_engine import NonBondEngine
        R = self

        def patch(obj, name, new):
            self._saved.append((obj, name, getattr(obj, name)))
            setattr(obj, name, new)

        o_run_molecule = rw.RandomWalk.run_molecule

        def run_molecule(self, mm):
            R.engine = self.nonbond_matrix
            R.cur.update(mm=mm, mol=int(self.mol_idx), in_rw=True, since_begin=0, rw=self)
            if R.maxiter is not None:
                self.maxiter = R.maxiter
            if R.snap is None:
                R.snap = R.engine.positions.copy()
            R.emit("begin")
            R.cur["since_begin"] = 0
            try:
                r = o_run_molecule(self, mm)
            finally:
                R.cur["in_rw"] = False
            root = mm.root
            if not self.success and R.cur["since_begin"] == 0 and "position" not in mm.nodes[root]:
                R.emit("rootfail")
            else:
                R.emit("end", success=bool(self.success))
            return r
        patch(rw.RandomWalk, "run_molecule", run_molecule)

        o_overlap = rw.RandomWalk._is_overlap

        def _is_overlap(self, point, node, nrexcl=1):
            if (R.script is not None or R.chooser is not None) and point is self.start:
                out = R.next_outcome(["root", "rootfail"])
                if out is None:          # a chooser may leave the outcome to the code
                    return o_overlap(self, point, node, nrexcl)
                return out == "rootfail"
            return o_overlap(self, point, node, nrexcl)
        patch(rw.RandomWalk, "_is_overlap", _is_overlap)

        o_update = rw.RandomWalk.update_positions

        def update_positions(self, vb, cur, prev):
            R.cur["placing"] = (int(self.mol_idx), int(cur))
            out = R.next_outcome(["ok", "fail"])
            if out == "fail":
                ok = False
            else:
                ok = o_update(self, vb, cur, prev)
                if out == "ok" and not ok and R.script is not None:
                    raise NoVerdict("natural placement failure on a scripted success")
            R.emit("ok" if ok else "fail", prev=int(prev) + 1, cur=int(cur) + 1)
            return ok
        patch(rw.RandomWalk, "update_positions", update_positions)

        o_rewind = rw.RandomWalk._rewind

        def _rewind(self, cs):
            r = o_rewind(self, cs)
            R.emit("rewind", to=int(r) + 1, placed=[[int(s) + 1, int(n) + 1] for s, n in self.placed_nodes])
            return r
        patch(rw.RandomWalk, "_rewind", _rewind)

        o_add = NonBondEngine.add_positions

        def add_positions(self, point, mol_idx, node_key, start=True):
            r = o_add(self, point, mol_idx, node_key, start=start)
            if start and R.cur["in_rw"] and self is R.engine:
                R.emit("root", node=int(node_key) + 1)
            return r
        patch(NonBondEngine, "add_positions", add_positions)

        o_rem = NonBondEngine.remove_positions

        def remove_positions(self, mol_idx, node_keys):
            keys = list(node_keys)
            r = o_rem(self, mol_idx, keys)
            if R.cur["in_handle"] and not R.cur["in_rw"] and self is R.engine:
                R.emit("cleanup", nodes=sorted(int(k) + 1 for k in keys))
            return r
        patch(NonBondEngine, "remove_positions", remove_positions)

        o_handle = bs.BuildSystem._handle_random_walk

        def _handle_random_walk(self, molecule, mol_idx, vs):
            R.topology = self.topology
            R.engine = self.nonbond_matrix
            R.cur.update(in_handle=True, mol=int(mol_idx))
            try:
                ok, nb = o_handle(self, molecule, mol_idx, vs)
            finally:
                R.cur["in_handle"] = False
            R.engine = nb
            R.emit("handled", success=bool(ok))
            return ok, nb
        patch(bs.BuildSystem, "_handle_random_walk", _handle_random_walk)

        o_run_system = bs.BuildSystem.run_system

        def run_system(self, molecules):
            R.topology = self.topology
            attr = [sorted(int(n) + 1 for n in mol.nodes if "position" in mol.nodes[n]) for mol in self.topology.molecules]
            build = [sorted(int(n) + 1 for n in mol.nodes if mol.nodes[n].get("build")) for mol in self.topology.molecules]
            r = o_run_system(self, molecules)
            mols = self.topology.molecules
            R.header = {"nmol": len(mols),
                        "nodes": [sorted(int(n) + 1 for n in mol.nodes) for mol in mols],
                        "path": [[[int(a) + 1, int(b) + 1] for a, b in mol.search_tree.edges] for mol in mols],
                        "root": [int(mol.root if mol.root is not None else next(iter(mol.nodes))) + 1 for mol in mols],
                        "attr": attr, "build": build,
                        "mname": [mol.mol_name for mol in mols],
                        "resname": [[mol.nodes[n]["resname"] for n in sorted(mol.nodes)] for mol in mols],
                        "resid": [[int(mol.nodes[n]["resid"]) for n in sorted(mol.nodes)] for mol in mols],
                        "ignored": [i + 1 for i, mol in enumerate(mols) if mol.mol_name in self.ignore],
                        "nrewind": int(self.rwargs.get("nrewind", 5)),
                        "maxiter": int(R.maxiter if R.maxiter is not None else 80),
                        "maxattempts": int(self.maxiter)}
            R.engine = self.nonbond_matrix
            R.cur["mol"] = None
            # after the copy back the node attributes are what the rest of gen_coords sees
            pos = []
            for mol in self.topology.molecules:
                if mol.mol_name in self.ignore:
                    pos.append([])
                    continue
                pos.append(sorted(int(n) + 1 for n in mol.nodes
                                  if "position" in mol.nodes[n] and np.all(np.isfinite(mol.nodes[n]["position"]))))
            rec = {"ev": "finish", "mol": 0, "pos": pos, "moved": R.moved()}
            if R.monitor is not None:
                R.monitor(R, rec)
            R.events.append(rec)
            return r
        patch(bs.BuildSystem, "run_system", run_system)
        return self

    def uninstall(self):
        for obj, name, old in reversed(self._saved):
            setattr(obj, name, old)
        self._saved = []


def engine_views(eng):
    """None if the engine's four views describe the same set of positioned residues, else a short description"""
    fin = set(int(g) for g in np.where(np.isfinite(eng.positions[:, 0]))[0])
    flat = [int(g) for d in eng.defined_idxs for g in d]
    if len(flat) != len(set(flat)):
        return "an index is listed twice in the index lists"
    if set(flat) != fin:
        return "index lists and position table differ: only listed %s, only positioned %s" % (sorted(set(flat) - fin)[:5], sorted(fin - set(flat))[:5])
    if set(int(g) for g in eng.gndx_to_tree) != fin:
        return "node -> tree map and position table differ"
    if len(eng.position_trees) != len(eng.defined_idxs):
        return "%d trees, %d index lists" % (len(eng.position_trees), len(eng.defined_idxs))
    for t, (tree, d) in enumerate(zip(eng.position_trees, eng.defined_idxs)):
        data = np.asarray(tree.data).reshape(-1, 3)
        if len(data) != len(d):
            return "tree %d holds %d points, its index list %d" % (t, len(data), len(d))
        if len(d) and not np.array_equal(data, eng.positions[d]):
            return "tree %d holds points that are not the current positions of its index list" % t
        for g in d:
            if eng.gndx_to_tree[g] != t:
                return "node %d is listed in tree %d but mapped to tree %d" % (g, t, eng.gndx_to_tree[g])
    return None


def anchor_monitor(rec, ev):
    """C17, numeric part of GrowFromPositioned: an accepted placement sits exactly one step (step factor x pair size, minimum image) from
    the position its neighbour has NOW in the engine - not from a position the neighbour had before a rewind took it back.  Independent of
    the walk's own bookkeeping: both positions are read from the engine table after the call."""
    if rec.engine is not None and ev["ev"] in ("rewind", "cleanup", "handled", "finish", "end"):
        # "removed from the system" means removed from every view the engine keeps (C16's Views on the real engine at the moments C17
        # talks about): position table, index lists, node -> tree map and the search trees themselves
        bad = engine_views(rec.engine)
        ev.setdefault("obs", {})["views"] = bad is None
        if bad:
            ev.setdefault("raw", {})["views"] = bad
    if ev["ev"] != "ok" or rec.engine is None or rec.cur.get("rw") is None:
        return
    eng, mi = rec.engine, ev["mol"] - 1
    try:
        gc, gp = eng.nodes_to_gndx[(mi, ev["cur"] - 1)], eng.nodes_to_gndx[(mi, ev["prev"] - 1)]
    except KeyError:
        return
    p, q = np.asarray(eng.positions[gc], float), np.asarray(eng.positions[gp], float)
    if not (np.all(np.isfinite(p)) and np.all(np.isfinite(q))):
        ev.setdefault("obs", {})["anchored"] = False
        ev.setdefault("raw", {})["anchor"] = "unpositioned"
        return
    box = np.asarray(eng.boxsize, float)
    d = p - q
    d -= box * np.round(d / box)
    step = float(rec.cur["rw"].step_fudge) * float(eng.interaction_matrix[frozenset([eng.atypes[gc], eng.atypes[gp]])][0])
    dist = float(np.linalg.norm(d))
    ev.setdefault("obs", {})["anchored"] = bool(abs(dist - step) <= 1e-6)
    ev.setdefault("raw", {}).update({"anchor_dist": dist, "anchor_step": step})


@contextlib.contextmanager
def recording(script=None, maxiter=None, monitor=None, chooser=None):
    if monitor is None:
        monitor = anchor_monitor
    rec = Recorder(script, maxiter, monitor, chooser).install()
    try:
        yield rec
    finally:
        rec.uninstall()


def script_of(events):
    out = []
    for e in events:
        if e["ev"] in ("root", "rootfail", "ok", "fail"):
            out.append(e["ev"])
    return out


def run_instance(inst, script, box=30.0, seed=0, chooser=None, check_path=True, extra_edges=None):
    """Run the real BuildSystem on the instance with the scripted schedule; returns (events, error-or-None)."""
    import random
    from polyply.src.build_system import BuildSystem
    with tempfile.TemporaryDirectory(prefix="verif_walk_", dir=os.environ.get("VERIF_TMP", "/var/tmp")) as wd:
        topology = build_topology(inst, wd, box, extra_edges)
        bad = check_paths(topology, inst) if check_path else None
        if bad:
            return None, "MACHINERY: " + bad
        np.random.seed(seed)
        random.seed(seed)
        grid = np.array([[x, y, z] for x in (5.0, 15.0, 25.0) for y in (5.0, 15.0, 25.0) for z in (10.0, 20.0)])
        ignore = ["M%d" % m for m in inst["ignored"]]
        with recording(script, maxiter=inst["maxiter"], chooser=chooser) as rec:
            run_instance.last = rec
            try:
                BuildSystem(topology, density=None, start_dict={i: None for i in range(inst["nmol"])},
                            box=np.array([box, box, box]), maxiter=inst["maxattempts"], ignore=ignore, grid=grid,
                            nrewind=inst["nrewind"], max_force=1e12).run_system(topology.molecules)
            except NoVerdict as exc:
                return rec.events, "NOVERDICT: %s" % exc
            except Exception as exc:
                return rec.events, "EXCEPTION: %s: %s" % (type(exc).__name__, exc)
            if rec.script:
                return rec.events, "NOVERDICT: script not consumed (%d outcomes left)" % len(rec.script)
            return rec.events, None


def compact_trace(inst, evs):
    """Projection for big systems: molecules that are fully supplied and whose engine rows never change are hidden from the
    header and from every event (indices renumbered).  If such a molecule ever appears in a `moved` set the trace is returned
    unchanged, so that the trace specification sees (and rejects) the movement."""
    n = inst["nmol"]
    full = [m for m in range(1, n + 1) if sorted(inst["attr"][m - 1]) == sorted(inst["nodes"][m - 1]) and m not in inst["ignored"]]
    touched = {mv[0] for e in evs for mv in e.get("moved", [])} | {e["mol"] for e in evs if e.get("mol")}
    drop = [m for m in full if m not in touched]
    if not drop:
        return inst, evs
    keep = [m for m in range(1, n + 1) if m not in set(drop)]
    ren = {m: i + 1 for i, m in enumerate(keep)}
    h = dict(inst)
    h["nmol"] = len(keep)
    for key in ("nodes", "path", "root", "attr", "build", "mname", "resname", "resid"):
        if key in h:
            h[key] = [h[key][m - 1] for m in keep]
    h["ignored"] = [ren[m] for m in inst["ignored"] if m in ren]
    out = []
    for e in evs:
        e2 = dict(e)
        if e2.get("mol"):
            e2["mol"] = ren[e2["mol"]]
        e2["pos"] = [e["pos"][m - 1] for m in keep]
        e2["moved"] = [[ren[a], b] for a, b in e.get("moved", [])]
        out.append(e2)
    return h, out
