"""C20 machinery: run gen_params / gen_coords / gen_seq for real in a scratch directory with an exception injected at a
chosen stage boundary, and record a snapshot (output directory, deferred-writer queue, loose temp files) at every stage
boundary.  No hooks in /repo: the stage functions are wrapped from here.

A *case* is a JSON-able dict:
  {"id": str, "names": {"out": "out.gro", "out2": "out2.gro"}, "nbk": 3,
   "init": {"out": "old", "b1": "bk1", ...}                       abstract initial directory (absent keys = absent)
   "runs": [{"prog":..., "on":[...], "input": <key of INPUTS>, "target": "out", "crash": {"stage":..,"when":..} | None,
             "exc": "Exception" | "BaseException"}], "seed": int, "instrument": bool}
run_case() executes it in the *current* process (call it in a forked child: one child per case = one fresh process,
which is what the property talks about); run_cases() does the forking with hard timeouts.
"""
import hashlib
import inspect
import json
import multiprocessing as mp
import os
import random
import shutil
import subprocess
import sys
import tempfile
import time
import traceback
from pathlib import Path

from . import common as c

SPECIAL = {"open", "write", "flush", "popen", "pwrite"}
OLD = b"previous content of the output path\n" * 3
LOLD = b"content of the regular file the output path links to\n" * 3
OTHER_NAME = "bystander.keep"
OTHER = b"an unrelated file in the output directory\n"


def bk_bytes(i):
    return ("pre-existing backup number %d\n" % i).encode() * 2


# ---- environment faults (spec: Fault / EnvFail): how a directory is made to refuse new entries for THIS process.
# An ordinary user: chmod 0555.  root ignores permission bits, so for root the directory gets the immutable flag
# (chattr +i; applies to root as well).  None: neither is possible here, the "*_ro" faults cannot be bound.
_RO = "unprobed"


def ro_method(probe_root=None):
    """probe once (in the parent, before forking) how a directory can be made read-only for this process"""
    global _RO
    if _RO != "unprobed":
        return _RO
    if os.geteuid() != 0:
        _RO = "chmod"
        return _RO
    _RO = None
    if shutil.which("chattr") and probe_root is not None:
        d = Path(probe_root) / ("ro_probe_%d" % os.getpid())
        try:
            d.mkdir(parents=True, exist_ok=True)
            if subprocess.run(["chattr", "+i", str(d)], stdout=subprocess.DEVNULL, stderr=subprocess.DEVNULL).returncode == 0:
                try:
                    (d / "x").write_bytes(b"")
                except OSError:
                    _RO = "chattr"
        finally:
            subprocess.run(["chattr", "-i", str(d)], stdout=subprocess.DEVNULL, stderr=subprocess.DEVNULL)
            shutil.rmtree(d, ignore_errors=True)
    return _RO


def lock_dir(path):
    if _RO == "chmod":
        os.chmod(path, 0o555)
    elif _RO == "chattr":
        subprocess.run(["chattr", "+i", str(path)], check=True, stdout=subprocess.DEVNULL, stderr=subprocess.DEVNULL)
    else:
        raise c.MachineryError("no way to make a directory read-only for this process (ro_method() = %r)" % (_RO,))


def unlock_dir(path):
    try:
        if _RO == "chmod":
            os.chmod(path, 0o755)
        elif _RO == "chattr":
            subprocess.run(["chattr", "-i", str(path)], stdout=subprocess.DEVNULL, stderr=subprocess.DEVNULL)
    except OSError:
        pass


def unlock_tree(root):
    """directories left locked by children that were killed (timeout) must not survive: the scratch tree is removed later"""
    if not os.path.isdir(str(root)):
        return
    if _RO == "chattr" or (_RO == "unprobed" and os.geteuid() == 0 and shutil.which("chattr")):
        subprocess.run(["chattr", "-R", "-f", "-i", str(root)], stdout=subprocess.DEVNULL, stderr=subprocess.DEVNULL)
    elif _RO == "chmod":
        for d, _, _ in os.walk(str(root)):
            try:
                if not os.access(d, os.W_OK):
                    os.chmod(d, 0o755)
            except OSError:
                pass


class InjectedCrash(Exception):
    """the exception raised at the planned crash point"""


class InjectedBaseCrash(BaseException):
    """same, but not an Exception subclass (like KeyboardInterrupt): a handler for Exception must not matter"""


# --------------------------------------------------------------------------------------------- inputs

def _td():
    from polyply import TEST_DATA
    return Path(TEST_DATA)


def _grid_text():
    import numpy as np
    g = np.random.default_rng(1).uniform(0, 10, (400, 3))
    return "\n".join("%.4f %.4f %.4f" % tuple(r) for r in g) + "\n"


def _json_text(path):
    """sequence json of the test data, with the edge list under the key this networkx reads ('edges', older files say 'links')"""
    d = json.loads(Path(path).read_text())
    if "links" in d and "edges" not in d:
        d["edges"] = d.pop("links")
    return json.dumps(d, indent=1)


def inputs(key, outpath):
    """-> (program name, files to copy into the run directory {name: source path | text}, kwargs)"""
    import numpy as np
    T = _td()
    tt = T / "topology_test"
    gp = T / "gen_params" / "input"
    top3 = {"system.top": tt / "system.top", "ffnonbonded.itp": tt / "ffnonbonded.itp", "test.itp": tt / "test.itp"}
    if key == "gp_min":
        return "gen_params", {"PEO.martini.3.itp": gp / "PEO.martini.3.itp"}, dict(
            name="PEO", outpath=outpath, inpath=[Path("PEO.martini.3.itp")], seq=["PEO:120"])   # > 8 KiB of .itp
    if key == "gp_dna":
        return "gen_params", {}, dict(name="DNA", outpath=outpath, lib=["parmbsc1"], inpath=[],
                                      seq=["DA5:1", "DT:1", "DG:1", "DC3:1"], dsdna=True)
    if key == "gp_ps_json":
        return "gen_params", {"PS.martini.2.itp": gp / "PS.martini.2.itp", "PS.json": _json_text(gp / "PS.json")}, dict(
            name="PS", outpath=outpath, inpath=[Path("PS.martini.2.itp")], seq_file=Path("PS.json"))
    if key == "gp_ppi":
        return "gen_params", {"PPI.ff": gp / "PPI.ff", "PPI.json": _json_text(gp / "PPI.json")}, dict(
            name="G3", outpath=outpath, inpath=[Path("PPI.ff")], seq_file=Path("PPI.json"))
    if key == "gp_p3ht":
        return "gen_params", {"P3HT.martini.2.itp": gp / "P3HT.martini.2.itp"}, dict(
            name="P3HT", outpath=outpath, inpath=[Path("P3HT.martini.2.itp")], seq=["P3HT:10"])
    if key == "gp_lib":
        return "gen_params", {}, dict(name="PEO", outpath=outpath, lib=["martini3"], inpath=[], seq=["PEO:12"])
    # genuinely failing gen_params inputs
    if key == "gp_bad_res":
        return "gen_params", {"PEO.martini.3.itp": gp / "PEO.martini.3.itp"}, dict(
            name="PEO", outpath=outpath, inpath=[Path("PEO.martini.3.itp")], seq=["XYZ:3"])
    if key == "gp_bad_file":
        return "gen_params", {}, dict(name="PEO", outpath=outpath, inpath=[Path("does_not_exist.itp")], seq=["PEO:3"])
    if key == "gp_bad_seq":
        return "gen_params", {"PEO.martini.3.itp": gp / "PEO.martini.3.itp"}, dict(
            name="PEO", outpath=outpath, inpath=[Path("PEO.martini.3.itp")], seq=["PEO-3"])
    if key == "gc_min":
        return "gen_coords", top3, dict(toppath=Path("system.top"), outpath=outpath, name="test",
                                        box=np.array([11., 11., 11.]))
    if key == "gc_full":
        f = dict(top3)
        f["test.gro"] = tt / "test.gro"
        f["grid.dat"] = _grid_text()
        return "gen_coords", f, dict(toppath=Path("system.top"), outpath=outpath, name="test", box=np.array([11., 11., 11.]),
                                     coordpath=Path("test.gro"), start=["test#0-BB"], grid="grid.dat",
                                     split=["PMMA:BB-C1,C2,C3:SC-C4,O1,O2,C5"])
    if key == "gc_coords_bld":
        f = dict(top3)
        f["test.gro"] = tt / "test.gro"
        f["test.bld"] = tt / "test.bld"
        return "gen_coords", f, dict(toppath=Path("system.top"), outpath=outpath, name="test", box=np.array([11., 11., 11.]),
                                     coordpath=Path("test.gro"), build=[Path("test.bld")], start=["test#0-PMMA#1"])
    if key == "gc_meta":
        f = dict(top3)
        f["cog.gro"] = tt / "cog.gro"
        return "gen_coords", f, dict(toppath=Path("system.top"), outpath=outpath, name="test", box=np.array([11., 11., 11.]),
                                     coordpath_meta=Path("cog.gro"))
    if key == "gc_dens":
        return "gen_coords", top3, dict(toppath=Path("system.top"), outpath=outpath, name="test", density=300.0)
    if key == "gc_uff":
        return "gen_coords", {"uff.top": tt / "uff.top", "PE.itp": tt / "PE.itp"}, dict(
            toppath=Path("uff.top"), outpath=outpath, name="test", box=np.array([11., 11., 11.]))
    # genuinely failing gen_coords inputs
    if key == "gc_bad_start":
        return "gen_coords", top3, dict(toppath=Path("system.top"), outpath=outpath, name="test", box=np.array([11., 11., 11.]),
                                        start=["test#0-NOPE#7"])
    if key == "gc_bad_top":
        return "gen_coords", {}, dict(toppath=Path("missing.top"), outpath=outpath, name="test", box=np.array([5., 5., 5.]))
    if key == "gc_bad_filter":
        return "gen_coords", {"uff.top": tt / "uff.top", "PE.itp": tt / "PE.itp"}, dict(
            toppath=Path("uff.top"), outpath=outpath, name="test", box=np.array([11., 11., 11.]), skip_filter=True)
    if key == "gc_bad_split":
        return "gen_coords", top3, dict(toppath=Path("system.top"), outpath=outpath, name="test", box=np.array([11., 11., 11.]),
                                        split=["PMMA:BB-C1,C2:SC-C4,O1,O2,C5"])
    if key == "gs_min":
        return "gen_seq", {}, dict(name="test", outpath=outpath, seq=["A", "A"], macro_strings=["A:3:2:N1-1.0"],
                                   connects=["0:1:0-0"])
    if key == "gs_file":
        return "gen_seq", {"molecule_0.itp": T / "gen_seq" / "input" / "molecule_0.itp"}, dict(
            name="test", outpath=outpath, seq=["PROT", "A"], macro_strings=["A:5:1:PEG-1.0"], connects=["0:1:0-0"],
            inpath=[Path("molecule_0.itp")], from_file=["PROT:molecule_0"], tags=["1:chiral:R-1.0"],
            modifications=["1:END"])
    if key == "gs_block":
        return "gen_seq", {}, dict(name="test", outpath=outpath, seq=["A", "B"], macro_strings=["A:11:1:PEO-1", "B:11:1:PS-1"],
                                   connects=["0:1:10-0"], tags=["0:chiral:R-1.0"], modifications=["0:OH"])
    if key == "gs_bad_macro":
        return "gen_seq", {}, dict(name="test", outpath=outpath, seq=["A", "C"], macro_strings=["A:3:1:N1-1.0"],
                                   connects=["0:1:0-0"])
    if key == "gs_bad_string":
        return "gen_seq", {}, dict(name="test", outpath=outpath, seq=["A"], macro_strings=["A:x:1:N1-1.0"], connects=[])
    raise KeyError(key)


# variant (as the specification names it) -> input of the exhaustive replay
VARIANT_INPUT = {("gen_params", ()): "gp_min", ("gen_params", ("dsdna",)): "gp_dna",
                 ("gen_coords", ()): "gc_min", ("gen_coords", ("coords", "grid", "split")): "gc_full",
                 ("gen_seq", ()): "gs_min", ("gen_seq", ("macro_file",)): "gs_file"}
# input -> optional stages it switches on
INPUT_ON = {"gp_min": [], "gp_dna": ["dsdna"], "gp_ps_json": [], "gp_ppi": [], "gp_p3ht": [], "gp_lib": [],
            "gp_bad_res": [], "gp_bad_file": [], "gp_bad_seq": [],
            "gc_min": [], "gc_full": ["coords", "grid", "split"], "gc_coords_bld": ["coords"], "gc_meta": ["coords"],
            "gc_dens": [], "gc_uff": [], "gc_bad_start": [], "gc_bad_top": [], "gc_bad_filter": [], "gc_bad_split": ["split"],
            "gs_min": [], "gs_file": ["macro_file"], "gs_block": [], "gs_bad_macro": [], "gs_bad_string": []}
EXT = {"gen_params": ".itp", "gen_coords": ".gro", "gen_seq": ".json"}


# --------------------------------------------------------------------------------------------- interposition

class _Proxy:
    """stands in for a module inside one polyply module's namespace: some attributes replaced, the rest forwarded"""

    def __init__(self, real, **over):
        self.__dict__["_real"] = real
        self.__dict__["_over"] = over

    def __getattr__(self, name):
        if name in self._over:
            return self._over[name]
        return getattr(self._real, name)


class _Handle:
    """file handle returned by the wrapped deferred_open: counts write() calls so that an exception can be raised
    before the first / in the middle of the serialisation; everything else is forwarded"""

    def __init__(self, fh, ip):
        self._fh, self._ip, self._n = fh, ip, 0

    def write(self, data):
        self._n += 1
        if self._n == 1:
            self._ip.maybe_crash("write", "before")
        if self._n == 3:
            self._ip.maybe_crash("write", "mid")
        return self._fh.write(data)

    def __enter__(self):
        self._fh.__enter__()
        return self

    def __exit__(self, *a):
        ip = self._ip
        if ip.prog != "gen_params" or a[0] is not None:
            return self._fh.__exit__(*a)
        # end of gen_params' `with deferred_open(...)` block = stage "close" of the specification.  An exception "before
        # close" is one that leaves the block: the handle is closed on the way out
        res = self._fh.__exit__(*a)
        ip.maybe_crash("close", "before")
        ip.stage_done("close")
        ip.maybe_crash("close", "after")
        return res

    def __getattr__(self, name):
        return getattr(self._fh, name)

    def __iter__(self):
        return iter(self._fh)


class Interposer:
    """wraps the stage functions of one program; records one event per completed stage; raises the planned exception"""

    def __init__(self, prog, plan, exc, snap, fault=None, apply_fault=None):
        self.prog, self.plan, self.exc, self.snap = prog, plan, exc, snap
        # environment fault of the specification (Fault(k) before stage s): {"stage": s, "what": k}; applied for real by
        # apply_fault(k) the first time the boundary "before s" is reached
        self.fault, self.apply_fault, self.fault_done = fault, apply_fault, False
        self.entered = []         # like active, but also the stages that are not wrapped as a whole (open, popen)
        self.events = []
        self.active = []          # stack of stages entered and not left
        self.done = []            # stages completed (first completion order)
        self.fired = False
        self.undo = []
        self.handles = []
        self.missing = []
        self.open_handles = {}    # realpath of temp file -> _Handle (shared with World.snapshot)
        self.fake_exdev = False

    # ---- crash / events
    def maybe_fault(self, stage, when):
        if self.fault and not self.fault_done and when == "before" and self.fault["stage"] == stage:
            self.fault_done = True
            self.apply_fault(self.fault["what"])
            ev = {"ev": {"kind": "fault", "stage": stage, "when": self.fault["what"]}}
            ev.update(self.snap())
            self.events.append(ev)

    def maybe_crash(self, stage, when):
        self.maybe_fault(stage, when)
        if self.plan and not self.fired and self.plan["stage"] == stage and self.plan["when"] == when:
            self.fired = True
            raise (InjectedBaseCrash if self.exc == "BaseException" else InjectedCrash)("injected at %s/%s" % (stage, when))

    def stage_done(self, stage):
        # gen_seq's plain handle is flushed so that the file can be read; the handles of the deferred writer are NOT touched:
        # whether a buffered tail exists at the moment of the writer's move is part of what is checked (content "buffered")
        for h in (self.handles if self.prog == "gen_seq" else []):
            try:
                if not h.closed:
                    h.flush()
            except Exception:
                pass
        s = self.snap()
        ev = {"ev": {"kind": "stage", "stage": stage, "when": "-"}}
        ev.update(s)
        # a stage whose function is called several times (one call per molecule / macro) is one stage of the specification:
        # consecutive repetitions with an identical snapshot are collapsed
        if self.events and self.events[-1]["ev"] == ev["ev"] and all(self.events[-1][k] == s[k] for k in s):
            return
        self.events.append(ev)
        if stage not in self.done:
            self.done.append(stage)

    def wrap(self, stage, fn, primary=True, first_only_before=True):
        ip = self

        def wrapper(*a, **k):
            ip.maybe_crash(stage, "before")
            ip.active.append(stage)
            ip.entered.append(stage)
            try:
                res = fn(*a, **k)
            finally:
                pass
            ip.active.pop()
            ip.entered.pop()
            if primary:
                ip.stage_done(stage)
                ip.maybe_crash(stage, "after")
            return res
        wrapper.__wrapped_by_c20__ = True
        return wrapper

    # ---- patching helpers
    def patch_attr(self, obj, name, new):
        had = name in vars(obj)
        old = vars(obj).get(name)
        setattr(obj, name, new)
        self.undo.append((obj, name, had, old))

    def patch_func(self, obj, name, stage, primary=True):
        try:
            raw = inspect.getattr_static(obj, name)
        except AttributeError:
            # the code under test no longer has this stage function: the stage is then never observed, which the
            # comparison with the specification reports (a violation of the stage protocol, not a machinery failure)
            self.missing.append("%s.%s" % (getattr(obj, "__name__", obj), name))
            return
        if isinstance(raw, classmethod):
            new = classmethod(self.wrap(stage, raw.__func__, primary))
        elif isinstance(raw, staticmethod):
            new = staticmethod(self.wrap(stage, raw.__func__, primary))
        else:
            new = self.wrap(stage, raw, primary)
        self.patch_attr(obj, name, new)

    def patch_open_deferred(self, mod):
        """mod.deferred_open -> OpenDeferred stage, returns a counting handle"""
        orig = getattr(mod, "deferred_open", None)
        if orig is None:
            self.missing.append("%s.deferred_open" % mod.__name__)
            return
        ip = self

        def deferred_open(*a, **k):
            ip.maybe_crash("open", "before")
            ip.entered.append("open")
            fh = orig(*a, **k)
            ip.entered.pop()
            h = _Handle(fh, ip)
            ip.handles.append(fh)
            try:    # which temp file belongs to this handle (the entry the writer registered for this path)
                from vermouth.file_writer import DeferredFileWriter
                want = Path(str(a[0])).parent.resolve() / Path(str(a[0])).name
                for tmp_path, final, _ in DeferredFileWriter().open_files:
                    if Path(str(final)) == want:
                        ip.open_handles[os.path.realpath(tmp_path)] = h
            except Exception:
                pass
            ip.stage_done("open")
            ip.maybe_crash("open", "after")
            return h
        self.patch_attr(mod, "deferred_open", deferred_open)

    def patch_write(self, mod, name):
        """serialiser function: 'before'/'mid' are raised from the handle, 'after' here"""
        orig = getattr(mod, name, None)
        if orig is None:
            self.missing.append("%s.%s" % (mod.__name__, name))
            return
        ip = self

        def writer(*a, **k):
            ip.active.append("write")
            ip.entered.append("write")
            res = orig(*a, **k)
            ip.active.pop()
            ip.entered.pop()
            ip.stage_done("write")
            ip.maybe_crash("write", "after")
            return res
        self.patch_attr(mod, name, writer)

    def patch_flush(self):
        import vermouth.file_writer as fw
        ip = self
        orig = inspect.getattr_static(fw.DeferredFileWriter, "write")

        def write(self_):
            ip.maybe_crash("flush", "before")
            ip.active.append("flush")
            ip.entered.append("flush")
            res = orig(self_)
            ip.active.pop()
            ip.entered.pop()
            ip.stage_done("flush")
            ip.maybe_crash("flush", "after")
            return res
        self.patch_attr(fw.DeferredFileWriter, "write", write)
        real_move = fw.shutil.move
        tmpdir = os.path.realpath(tempfile.gettempdir())

        def move(src, dst, *a, **k):
            # the final move of _write_file: temp file -> destination
            if os.path.realpath(os.path.dirname(str(src))) == tmpdir:
                ip.maybe_crash("flush", "mid")
                if ip.fake_exdev:
                    # no second file system available: do what shutil.move does when os.rename fails with EXDEV
                    fw.shutil.copy2(src, dst)
                    os.unlink(src)
                    return dst
            return real_move(src, dst, *a, **k)
        self.patch_attr(fw, "shutil", _Proxy(fw.shutil, move=move))

    # ---- per program
    def install(self):
        import polyply
        import vermouth
        if self.prog == "gen_params":
            import polyply.src.gen_itp as m
            import vermouth.gmx.itp as vitp
            from polyply import MetaMolecule, MapToMolecule, ApplyLinks
            from polyply.src.apply_modifications import ApplyModifications
            self.patch_func(m, "load_ff_library", "read_ff")
            self.patch_func(MetaMolecule, "from_monomer_seq_linear", "graph")
            self.patch_func(MetaMolecule, "from_sequence_file", "graph")
            self.patch_func(m, "complement_dsDNA", "dsdna")
            self.patch_func(MapToMolecule, "run_molecule", "map")
            self.patch_func(ApplyLinks, "run_molecule", "links")
            self.patch_func(ApplyModifications, "run_molecule", "mods")
            self.patch_func(m, "find_missing_edges", "missing")
            self.patch_open_deferred(m)
            self.patch_write(vitp, "write_molecule_itp")
            self.patch_flush()
        elif self.prog == "gen_coords":
            import polyply.src.gen_coords as m
            import vermouth.gmx.gro as vgro
            from polyply.src.topology import Topology
            from polyply.src.meta_molecule import MetaMolecule
            from polyply.src.generate_templates import GenerateTemplates
            from polyply.src.annotate_ligands import AnnotateLigands
            from polyply.src.build_system import BuildSystem
            from polyply.src.backmap import Backmap
            self.patch_func(Topology, "from_gmx_topfile", "read_top")
            self.patch_func(Topology, "preprocess", "preprocess")
            self.patch_func(m, "_check_molecules", "check")
            self.patch_func(MetaMolecule, "split_residue", "split")
            self.patch_func(Topology, "add_positions_from_file", "coords")
            self.patch_func(m, "load_build_files", "build_file")
            self.patch_func(m, "find_starting_node_from_spec", "start")
            self.patch_attr(m, "np", _Proxy(m.np, loadtxt=self.wrap("grid", m.np.loadtxt)))
            self.patch_func(GenerateTemplates, "run_system", "templates")
            self.patch_func(AnnotateLigands, "run_system", "ligands")
            self.patch_func(m, "_initialize_cylces", "cycles")
            self.patch_func(BuildSystem, "run_system", "build")
            self.patch_func(AnnotateLigands, "split_ligands", "split_lig")
            self.patch_func(Backmap, "run_system", "backmap")
            self.patch_func(Topology, "convert_to_vermouth_system", "convert")
            self.patch_open_deferred(vgro)
            self.patch_write(vgro, "write_gro")
            self.patch_flush()
        elif self.prog == "gen_seq":
            import builtins
            import polyply.src.gen_seq as m
            ip = self
            self.patch_func(m, "load_ff_library", "macro_file", primary=False)
            for cname, st in (("MacroFile", "macro_file"), ("MacroString", "macro_str")):
                if hasattr(m, cname):
                    self.patch_attr(m, cname, self.wrap(st, getattr(m, cname)))
                else:
                    self.missing.append("gen_seq." + cname)
            self.patch_func(m, "generate_seq_graph", "graph")
            self.patch_func(m, "_apply_termini_modifications", "termini")
            self.patch_func(m, "_tag_nodes", "labels")
            self.patch_attr(m, "json_graph", _Proxy(m.json_graph, node_link_data=self.wrap("to_json", m.json_graph.node_link_data)))

            def popen(*a, **k):
                ip.maybe_crash("popen", "before")
                ip.entered.append("popen")
                fh = builtins.open(*a, **k)
                ip.entered.pop()
                ip.handles.append(fh)
                ip.stage_done("popen")
                ip.maybe_crash("popen", "after")
                return fh
            self.patch_attr(m, "open", popen)
            real_dump = m.json.dump

            def dump(obj, fh, *a, **k):
                ip.maybe_crash("pwrite", "before")
                if ip.plan and ip.plan["stage"] == "pwrite" and ip.plan["when"] == "mid" and not ip.fired:
                    text = m.json.dumps(obj, *a, **k)
                    fh.write(text[:max(1, len(text) // 2)])
                    ip.maybe_crash("pwrite", "mid")
                ip.active.append("pwrite")
                ip.entered.append("pwrite")
                res = real_dump(obj, fh, *a, **k)
                ip.active.pop()
                ip.entered.pop()
                ip.stage_done("pwrite")
                ip.maybe_crash("pwrite", "after")
                return res
            self.patch_attr(m, "json", _Proxy(m.json, dump=dump))
        else:
            raise c.MachineryError("unknown program %s" % self.prog)

    def remove(self):
        for obj, name, had, old in reversed(self.undo):
            if had:
                setattr(obj, name, old)
            else:
                try:
                    delattr(obj, name)
                except AttributeError:
                    pass
        self.undo = []


# --------------------------------------------------------------------------------------------- snapshots

class World:
    """one scratch world: run directory (cwd and output directory), private temp directory, abstraction of both"""

    def __init__(self, root, case):
        self.root = Path(root)
        self.run = self.root / "run"
        self.tmp = self.root / "tmp"
        self.case = case
        self.names = case["names"]
        self.nbk = case["nbk"]
        # route = spelling of the output path.  "symdir": the files live in run/real_out, the program is given via/<name>
        # where run/via is a symbolic link to real_out
        self.route = case.get("route", "plain")
        self.phys = "real_out/" if self.route == "symdir" else ""
        self.refs = {}            # run number -> bytes of the complete new content
        self.inputs = {}          # relative name -> sha of bystander files
        # inout: the file at the output path is one of the run's own input files ("same": the input option names the output
        # path; "link": it names a symbolic link to it; "dots": it names ./sub/../<name>)
        self.inout = case.get("inout", "no")
        # dev = "cross": the temp directory is on another file system than the output directory (created under /dev/shm and
        # removed by the check itself); if no second file system is there the cross-device move is emulated (fake_exdev)
        self.dev = case.get("dev", "same")
        self.shm = None
        self.fake_exdev = False
        # env = "faulty": one environment fault strikes during the run (runs[i]["fault"]); directories locked by it
        self.env = case.get("env", "stable")
        self.locked = []
        self.open_handles = {}
        self.inp_bytes = None     # bytes of that input file
        self.input_links = {}     # relative name -> destination of symbolic links that are inputs
        self.path_of = {}
        for t in ("out", "out2"):
            p = Path(self.phys + self.names[t])
            self.path_of[t] = str(p)
            for i in range(1, self.nbk + 1):
                self.path_of[("b" if t == "out" else "c") + str(i)] = str(p.with_name("#%s.%d#" % (p.name, i)))
        self.path_of["tgt"] = self.phys + str(Path(self.names.get("tgt") or str(Path(self.names["out"]).with_name("linked_earlier_result.dat"))))
        self.abs_of = {v: k for k, v in self.path_of.items()}

    def given(self, t):
        """the output path as handed to the program"""
        name = self.names[t]
        if self.route == "symdir":
            return Path("via") / name
        if self.route == "dots":
            return Path("./sub/../" + name)
        if self.route == "abs":
            return Path(os.path.abspath(self.run / name))
        return Path(name)

    def input_as_occupant(self, prog, files, kw):
        """make the run read one of its inputs from the file at the output path: gen_coords -c, gen_params -f (first file).
        Returns the bytes of that input; files / kw are changed in place."""
        if self.inout == "no":
            return None
        if prog == "gen_coords" and kw.get("coordpath") is not None:
            name = str(kw["coordpath"])
        elif prog == "gen_params" and kw.get("inpath"):
            name = str(kw["inpath"][0])
        else:
            raise c.MachineryError("input %s of %s has no input file that can occupy the output path" % (self.case["runs"][0]["input"], prog))
        src = files.pop(name)
        data = src.encode() if isinstance(src, str) else Path(src).read_bytes()
        out = Path(self.names["out"])
        if self.inout == "same":
            spelled = self.given("out")
        elif self.inout == "link":
            spelled = out.with_name("start_from" + out.suffix)
            self.input_links[str(spelled)] = out.name
        else:
            spelled = Path("./sub/../" + str(out))
        if prog == "gen_coords":
            kw["coordpath"] = spelled
        else:
            kw["inpath"] = [spelled] + list(kw["inpath"][1:])
        self.inp_bytes = data
        return data

    def setup(self):
        shutil.rmtree(self.root, ignore_errors=True)
        self.run.mkdir(parents=True)
        if self.dev == "cross":
            try:
                base = Path("/dev/shm") / ("verif_c20_%d" % os.getppid()) / ("%s_%d" % (self.case["id"], os.getpid()))
                base.mkdir(parents=True)
                if os.stat(base).st_dev != os.stat(self.run).st_dev:
                    self.shm, self.tmp = base, base / "tmp"
                else:
                    shutil.rmtree(base, ignore_errors=True)
                    self.fake_exdev = True
            except OSError:
                self.fake_exdev = True
        self.tmp.mkdir()
        if self.route == "symdir":
            (self.run / "real_out").mkdir()
            os.symlink("real_out", self.run / "via")
        if self.route == "dots" or self.inout == "dots":
            (self.run / "sub").mkdir()
        for rel, dest in self.input_links.items():
            (self.run / rel).parent.mkdir(parents=True, exist_ok=True)
            os.symlink(dest, self.run / rel)
        (self.run / OTHER_NAME).write_bytes(OTHER)
        for key, cont in self.case["init"].items():
            if cont == "absent" or key == "other":
                continue
            p = self.run / self.path_of[key]
            p.parent.mkdir(parents=True, exist_ok=True)
            if cont == "link":
                # relative link to a regular file in the same directory (latest.gro -> run_001.gro)
                os.symlink(Path(self.path_of["tgt"]).name, p)
            elif cont == "lold":
                p.write_bytes(LOLD)
            elif cont == "inp":
                if self.inp_bytes is None:
                    raise c.MachineryError("initial content 'inp' without an input file")
                p.write_bytes(self.inp_bytes)
            else:
                p.write_bytes(OLD if cont == "old" else bk_bytes(int(cont[2:])))
        if not self.case.get("no_parent"):
            for t in ("out", "out2"):
                (self.run / self.path_of[t]).parent.mkdir(parents=True, exist_ok=True)

    def apply_fault(self, what):
        """the environment fault of the specification, for real: the staging directory (tempfile.tempdir of this process) is
        removed / stops accepting new files, or the directory of the output path stops accepting new entries"""
        if what == "tmp_gone":
            shutil.rmtree(self.tmp)
        elif what == "tmp_ro":
            lock_dir(self.tmp)
            self.locked.append(self.tmp)
        elif what == "out_ro":
            d = (self.run / self.path_of["out"]).parent
            lock_dir(d)
            self.locked.append(d)
        else:
            raise c.MachineryError("unknown environment fault %r" % (what,))

    def unlock(self):
        for d in self.locked:
            unlock_dir(d)
        self.locked = []

    def add_inputs(self, files):
        for name, src in files.items():
            p = self.run / name
            if isinstance(src, str):
                p.write_text(src)
            else:
                shutil.copyfile(src, p)
        self.inputs = {}
        for p in sorted(self.run.rglob("*")):
            rel = str(p.relative_to(self.run))
            if p.is_file() and not p.is_symlink() and rel not in self.abs_of:
                self.inputs[rel] = hashlib.sha1(p.read_bytes()).hexdigest()

    def classify(self, data):
        if data == OLD:
            return "old"
        if data == LOLD:
            return "lold"
        if self.inp_bytes is not None and data == self.inp_bytes:
            return "inp"
        for i in range(1, 9):
            if data == bk_bytes(i):
                return "bk%d" % i
        if data == b"":
            return "empty"
        for r, ref in self.refs.items():
            if data == ref:
                return "new%d" % r
        for r, ref in self.refs.items():
            if ref.startswith(data):
                return "partial%d" % r
        return "?" + hashlib.sha1(data).hexdigest()[:8] + ":%d bytes" % len(data)

    def snapshot(self):
        from vermouth.file_writer import DeferredFileWriter
        fs = {k: "absent" for k in self.path_of}
        odd = []
        seen_inputs = {}
        seen_links = set()
        for p in sorted(self.run.rglob("*")):
            rel = str(p.relative_to(self.run))
            try:
                if p.is_symlink():
                    dest = os.readlink(p)
                    if self.route == "symdir" and rel == "via" and dest == "real_out":
                        continue
                    if rel in self.input_links:
                        if dest != self.input_links[rel]:
                            odd.append("input link %s now points to %s" % (rel, dest))
                        seen_links.add(rel)
                        continue
                    if rel in self.abs_of and dest == Path(self.path_of["tgt"]).name:
                        fs[self.abs_of[rel]] = "link"
                    elif rel in self.abs_of:
                        fs[self.abs_of[rel]] = "link to " + dest
                    else:
                        odd.append("unexpected symbolic link %s -> %s" % (rel, dest))
                    continue
                if p.is_dir():
                    continue
                data = p.read_bytes()
            except OSError as exc:      # vanished between listing and reading
                odd.append("%s unreadable (%s)" % (rel, type(exc).__name__))
                continue
            if rel in self.abs_of:
                fs[self.abs_of[rel]] = self.classify(data)
            elif rel in self.inputs:
                seen_inputs[rel] = hashlib.sha1(data).hexdigest()
            else:
                odd.append("unexpected file %s (%s)" % (rel, self.classify(data)))
        for rel in self.input_links:
            if rel not in seen_links:
                odd.append("input link %s removed" % rel)
        for rel, h in self.inputs.items():
            if rel not in seen_inputs:
                odd.append("file %s removed" % rel)
            elif seen_inputs[rel] != h:
                odd.append("file %s modified" % rel)
        # the claims are about the path AS GIVEN: what is read at that spelling must be the entry found in the listing
        for t in ("out", "out2"):
            g, ph = self.run / self.given(t), self.run / self.path_of[t]
            try:
                same = (os.path.lexists(g) == os.path.lexists(ph)) and (not os.path.exists(g) or os.path.samefile(g, ph))
            except OSError:
                same = False
            if not same:
                fs[t] = "%s but not what the given path %s leads to" % (fs[t], self.given(t))
        fs["other"] = "oth" if not odd else "changed: " + "; ".join(odd)
        queue = []
        queued = set()
        runreal = os.path.realpath(self.run)
        for tmp_path, final, mode in list(DeferredFileWriter().open_files):
            queued.add(os.path.realpath(tmp_path))
            final = Path(str(final))      # the queue names a directory entry: do not resolve a link at the last component
            rel = os.path.relpath(os.path.join(os.path.realpath(final.parent), final.name), runreal)
            hd = self.open_handles.get(os.path.realpath(tmp_path))
            try:
                if hd is not None and not hd.closed:
                    # the handle is open: what is on disk is some prefix, the rest sits in the handle's buffer
                    cont = "buffered" if hd._n > 0 else "empty"
                else:
                    cont = self.classify(Path(tmp_path).read_bytes())
            except OSError:
                cont = "missing-temp-file"
            queue.append({"target": self.abs_of.get(rel, "?" + rel), "content": cont})
        loose = []
        for p in (sorted(self.tmp.rglob("*")) if self.tmp.is_dir() else []):
            if p.is_file() and os.path.realpath(p) not in queued:
                loose.append(self.classify(p.read_bytes()))
        return {"fs": fs, "queue": queue, "loose": sorted(loose)}


# --------------------------------------------------------------------------------------------- running

def _call(prog, kwargs):
    import polyply
    if prog == "gen_params":
        from polyply import gen_params as f
    elif prog == "gen_coords":
        from polyply import gen_coords as f
    else:
        from polyply import gen_seq as f
    return f(**kwargs)


def _seed(seed, r):
    import numpy as np
    random.seed(seed * 100 + r)
    np.random.seed(seed * 100 + r)


def reference(root, key, run_no, seed, outname):
    """complete new content: what an un-instrumented successful run of the same command writes (fresh directory)"""
    root = Path(root)
    shutil.rmtree(root, ignore_errors=True)
    (root / "run").mkdir(parents=True)
    (root / "tmp").mkdir()
    cwd = os.getcwd()
    os.chdir(root / "run")
    tempfile.tempdir = str(root / "tmp")
    try:
        out = Path(Path(outname).name)
        prog, files, kw = inputs(key, out)
        for name, src in files.items():
            if isinstance(src, str):
                Path(name).write_text(src)
            else:
                shutil.copyfile(src, name)
        sys.argv = ["polyply", prog, "-run", str(run_no)]
        _seed(seed, run_no)
        _call(prog, kw)
        return out.read_bytes()
    finally:
        os.chdir(cwd)
        tempfile.tempdir = None


def run_case(case, root, refs):
    """execute one case in this process. refs: {(input key, run number): bytes}. Returns {"events": [...], "info": {...}}"""
    from vermouth.file_writer import DeferredFileWriter
    w = World(root, case)
    first = None
    if w.inout != "no":
        first = inputs(case["runs"][0]["input"], w.given(case["runs"][0]["target"]))
        w.input_as_occupant(first[0], first[1], first[2])
    w.setup()
    info = {"unplanned": [], "unreached": [], "missing_targets": [], "observer_error": None, "env_failed": []}
    if DeferredFileWriter().open_files:
        raise c.MachineryError("writer queue not empty at the start of a case")
    cwd = os.getcwd()
    os.chdir(w.run)
    tempfile.tempdir = str(w.tmp)
    events = []
    try:
        for r, rn in enumerate(case["runs"], 1):
            out = w.given(rn["target"])
            prog, files, kw = first if (first is not None and r == 1) else inputs(rn["input"], out)
            w.add_inputs(files)
            w.refs[r] = refs[(rn["input"], r)]
            head = {"run": r, "var": {"prog": prog, "on": sorted(rn["on"]), "route": w.route, "inout": w.inout, "dev": w.dev,
                                      "env": w.env},
                    "target": rn["target"]}
            if case.get("fresh_queue") and r > 1:
                # a new process: the singleton starts empty, the temp files of the old process stay on disk
                DeferredFileWriter().open_files.clear()
            snap0 = w.snapshot()
            ev = {"ev": {"kind": "init" if r == 1 else "nextrun", "stage": "-", "when": "-"}}
            ev.update(head)
            ev.update(snap0)
            events.append(ev)
            ip = Interposer(prog, rn.get("crash"), rn.get("exc", "Exception"), w.snapshot, rn.get("fault"), w.apply_fault)
            ip.open_handles, ip.fake_exdev = w.open_handles, w.fake_exdev
            if case.get("instrument", True):
                try:
                    ip.install()
                except Exception:   # the code under test has changed shape: observe what can be observed
                    info["observer_error"] = "installing the wrappers: " + traceback.format_exc()[-800:]
                info["missing_targets"] += ip.missing
            sys.argv = ["polyply", prog, "-run", str(r)]
            _seed(case.get("seed", 0), r)
            outcome = None
            try:
                _call(prog, kw)
                outcome = {"kind": "finish", "stage": "-", "when": "-"}
            except (InjectedCrash, InjectedBaseCrash):
                outcome = {"kind": "crash", "stage": rn["crash"]["stage"], "when": rn["crash"]["when"]}
            except BaseException as exc:  # the program failed by itself
                if isinstance(exc, (KeyboardInterrupt, SystemExit)) and not isinstance(exc, SystemExit):
                    raise
                if ip.fault_done:
                    # the program failed by itself after the environment fault had struck: the specification's EnvFail,
                    # attributed to the innermost stage that was being executed
                    st = ip.entered[-1] if ip.entered else (ip.done[-1] if ip.done else "-")
                    when = "env"
                elif ip.active:
                    st = ip.active[-1]
                    when = "mid" if st in ("write", "flush", "pwrite") else "inside"
                elif ip.done:
                    st, when = ip.done[-1], "after"
                else:
                    st, when = "-", "before-any-stage"
                outcome = {"kind": "crash", "stage": st, "when": when}
                info["env_failed" if when == "env" else "unplanned"].append({"run": r, "stage": st, "when": when, "exc": "%s: %s" % (type(exc).__name__, str(exc)[:300]),
                                          "tb": traceback.format_exc()[-1500:]})
            finally:
                ip.remove()
            for h in ip.handles:
                try:
                    h.close()
                except Exception:
                    pass
            if rn.get("crash") and not ip.fired:
                info["unreached"].append({"run": r, "crash": rn["crash"]})
            if rn.get("fault") and not ip.fault_done:
                info["unreached"].append({"run": r, "crash": {"stage": rn["fault"]["stage"], "when": "fault " + rn["fault"]["what"]}})
            for e in ip.events:
                e.update(head)
            events.extend(ip.events)
            ev = {"ev": outcome}
            ev.update(head)
            ev.update(w.snapshot())
            events.append(ev)
    finally:
        os.chdir(cwd)
        tempfile.tempdir = None
        w.unlock()
        if w.shm is not None:
            shutil.rmtree(w.shm, ignore_errors=True)
    info["cross_device"] = "real (/dev/shm)" if w.shm is not None else ("emulated" if w.fake_exdev else "no")
    return {"events": events, "info": info}


def _child(conn, fn, arg):
    try:
        c._init_worker()
        res = fn(arg)
        conn.send(("ok", res))
    except c.MachineryError as exc:
        conn.send(("machinery", str(exc)))
    except BaseException:
        conn.send(("error", traceback.format_exc()[-3000:]))
    finally:
        conn.close()
        os._exit(0)


def preload():
    """import everything the programs need in the parent, so that the forked children start warm"""
    import numpy, scipy.spatial, scipy.optimize, networkx  # noqa
    import vermouth, vermouth.gmx.itp, vermouth.gmx.gro, vermouth.file_writer  # noqa
    import polyply, polyply.src.gen_itp, polyply.src.gen_coords, polyply.src.gen_seq  # noqa
    import polyply.src.apply_modifications, polyply.src.topology, polyply.src.build_system, polyply.src.backmap  # noqa
    from vermouth.file_writer import DeferredFileWriter
    if DeferredFileWriter().open_files:
        raise c.MachineryError("deferred writer queue not empty in the parent process")


def fork_map(fn, args, timeout=120, nproc=None, max_timeouts=8):
    """run fn(arg) for every arg, each in its own forked child (fresh process state), at most nproc at a time, with a hard
    timeout per child.  Returns a list of ("ok", result) | ("timeout", None) | ("error", text) | ("machinery", text).
    After max_timeouts children had to be killed the remaining timeout drops to timeout/6 (code that hangs everywhere must not
    stall the check for hours; a timed-out run is no verdict)."""
    ntimeout = 0
    preload()
    ctx = mp.get_context("fork")
    nproc = nproc or c.NPROC
    args = list(args)
    results = [None] * len(args)
    pending = list(range(len(args)))[::-1]
    active = {}
    while pending or active:
        while pending and len(active) < nproc:
            i = pending.pop()
            pc, cc = ctx.Pipe(duplex=False)
            p = ctx.Process(target=_child, args=(cc, fn, args[i]))
            p.start()
            cc.close()
            active[i] = (p, pc, time.time())
        progressed = False
        for i in list(active):
            p, pc, t0 = active[i]
            if pc.poll(0):
                try:
                    results[i] = pc.recv()
                except EOFError:
                    results[i] = ("error", "child died without a result (exit code %s)" % p.exitcode)
                p.join(5)
                pc.close()
                del active[i]
                progressed = True
            elif not p.is_alive():
                p.join(1)
                if pc.poll(0):
                    continue
                results[i] = ("error", "child died without a result (exit code %s)" % p.exitcode)
                pc.close()
                del active[i]
                progressed = True
            elif time.time() - t0 > (timeout if ntimeout < max_timeouts else timeout / 6.0):
                ntimeout += 1
                p.kill()
                p.join(5)
                pc.close()
                results[i] = ("timeout", None)
                del active[i]
                progressed = True
        if not progressed:
            time.sleep(0.005)
    return results
