"""C19, call histories (spec/SeqCalls.tla, SeqCallsTrace.tla): ONE Python process calls the real gen_params over and over on
sequence sources that stay as they are or are rewritten in between.

A source is a path (its content an abstract sequence input of spec/SeqInput.tla: a .fasta / .ig file record, a .json strand) or the
inline -seq list.  Nothing here decides what a call has to return: expected graphs come from TLC (S->I) or the recorded events
are judged by TLC (I->S).  The residue graph of a call is observed where gen_params hands it to MapToMolecule, the residues of the
.itp are read back from the file written, and the text of the source is compared with what was written there (a call only reads).
"""
import os
from pathlib import Path

from . import common as c
from . import seq_util as u

REJECTION = ("OSError", "IOError", "KeyError")      # how complement_dsDNA refuses a name that is no DNA name


def ext_of(content):
    if content["fam"] == "file":
        return content["fmt"]
    if content["fam"] == "dsdna":
        return "json"
    return None


def base_of(content):
    return content.get("first", 1) - 1 if content["fam"] == "dsdna" else 0


class Process:
    """the sources of one history: abstract source name -> real path (one per source, fixed for the history) / -seq arguments"""

    def __init__(self, wd, stem, ff):
        self.wd, self.stem, self.ff = Path(wd), stem, ff
        self.path, self.text, self.content = {}, {}, {}

    def write(self, src, content, keepstat=False):
        """(re)write source src with content; keepstat: size permitting, the time stamps of the file are put back (cp -p, an editor
        that preserves them, a coarse clock) so that nothing but the bytes tells the two versions apart"""
        ext = ext_of(content)
        self.content[src] = content
        if ext is None:
            self.path[src], self.text[src] = None, " ".join(u.seqlist_args(content))
            return True
        stem = "%s_%s" % (self.stem, src)
        want = self.wd / ("%s.%s" % (stem, ext))
        if self.path.get(src) not in (None, want):
            raise c.MachineryError("source %s changes its file format within a history" % src)
        st = want.stat() if (keepstat and want.exists()) else None
        if content["fam"] == "file":
            p, text = u.render_file(content, self.wd, stem)
        else:
            p = u.render_strand_json(content, self.wd, stem)
            text = p.read_text()
        if p != want:
            raise c.MachineryError("rendered %s, expected %s" % (p, want))
        kept = False
        if st is not None and st.st_size == p.stat().st_size:
            os.utime(p, ns=(st.st_atime_ns, st.st_mtime_ns))
            kept = True
        self.path[src], self.text[src] = p, text
        return kept

    def call(self, src, ds):
        """one call of the real gen_params -> {"rej", "g", "itp", "unchanged"}"""
        content = self.content[src]
        base = base_of(content)
        p = self.path[src]
        if p is None:
            r = u.run_gen_params(self.wd, self.stem, self.ff, seq=u.seqlist_args(content), dsdna=ds)
        else:
            r = u.run_gen_params(self.wd, self.stem, self.ff, seq_file=p, dsdna=ds, base=base)
        unchanged = p is None or (p.exists() and p.read_text() == self.text[src])
        if "g" not in r:
            if r["exc"].split(":")[0] in REJECTION:
                return {"rej": True, "why": r["exc"], "g": None, "itp": None, "unchanged": unchanged}
            return {"rej": False, "g": {"exc": r["exc"]}, "itp": None, "unchanged": unchanged}
        itp = r.get("itp")
        if itp is None:
            itp = [[0, "raised %s after the residue graph was built" % r.get("after")]]
        else:
            itp = [[rid - base, nm] for rid, nm in itp]
        return {"rej": False, "g": r["g"], "itp": itp, "unchanged": unchanged}


def check_call(obs, exp):
    """observed call against the exported expectation {"rej", "g"} -> None | text"""
    if not obs["unchanged"]:
        return "the call changed its sequence file"
    if exp["rej"]:
        return None if obs["rej"] else "a strand with a name that is no DNA name was not rejected"
    if obs["rej"]:
        return "the call was refused (%s)" % obs.get("why")
    g = u.norm_expected(exp["g"])
    why = u.diff(obs["g"], g)
    if why:
        return why
    if obs["itp"] != [[i + 1, nm] for i, nm in enumerate(g["name"])]:
        return "residues of the .itp are %s" % (obs["itp"][:12],)
    return None


def run_history(hist, files, wd, stem, ff):
    """replay one exported history (list of init / write / call entries) in THIS process -> (first mismatch | None, number of calls)"""
    pr = Process(wd, stem, ff)
    ncalls = 0
    for j, e in enumerate(hist):
        if e["op"] == "init":
            for src, f in sorted(e["fs"].items()):
                pr.write(src, files[f - 1])
        elif e["op"] == "write":
            pr.write(e["src"], files[e["f"] - 1])
        elif e["op"] == "call":
            ncalls += 1
            obs = pr.call(e["src"], e["ds"])
            why = check_call(obs, e)
            if why:
                return {"at": j, "why": why, "observed": obs, "text": pr.text[e["src"]]}, ncalls
        else:
            raise c.MachineryError("unknown history entry %r" % (e,))
    return None, ncalls


def describe(hist, upto=None):
    out = []
    for e in hist[:(upto + 1) if upto is not None else None]:
        if e["op"] == "init":
            out.append("files " + ",".join("%s=%d" % kv for kv in sorted(e["fs"].items())))
        elif e["op"] == "write":
            out.append("rewrite %s:=%d" % (e["src"], e["f"]))
        else:
            out.append("gen_params(%s%s)" % (e["src"], ", dsdna" if e["ds"] else ""))
    return " ; ".join(out)


# ------------------------------------------------------------------ I -> S

def record_trace(script, wd, stem, ff):
    """script: list of {"op": "write", "src", "inp", "keepstat"} / {"op": "call", "src", "ds"}; -> the events of this process"""
    pr = Process(wd, stem, ff)
    events = []
    for s in script:
        if s["op"] == "write":
            kept = pr.write(s["src"], s["inp"], keepstat=s.get("keepstat", False))
            events.append({"op": "write", "src": s["src"], "inp": s["inp"], "keptstat": bool(kept)})
        else:
            o = pr.call(s["src"], s["ds"])
            events.append({"op": "call", "src": s["src"], "ds": bool(s["ds"]), "rej": bool(o["rej"]), "g": u.obs_for_trace(o["g"]),
                           "itp": o["itp"] or [], "unchanged": bool(o["unchanged"])})
    return events


def validate(traces, name, prop="C19"):
    """-> (TLC result, {tid (1-based): events matched}) for the rejected traces"""
    import json
    wd = c.workdir(prop, "val_" + name)
    f = wd / "traces.json"
    f.write_text(json.dumps({"traces": traces}))
    res = c.tlc("SeqCallsTrace", "Seq_calls_trace.cfg", workers=1,
                env={"TRACE_FILE": str(f), "JAVA_TOOL_OPTIONS": "-Xss64m -XX:TieredStopAtLevel=1"}, check=False)
    rej = res.tagged("REJECTED")
    if (res.rc != 0 and not rej) or res.inv_violated or (res.rc == 0 and "Model checking completed" not in res.out):
        raise c.MachineryError("SeqCallsTrace failed (%s): %s" % (name, res.out[-2500:]))
    rejected = {}
    for r in rej:
        rejected.update({int(t): int(m) for t, m in r})
    return res, rejected
