"""Shared by the C12 / C19 drivers (spec/SeqInput*.tla): rendering of abstract inputs into real files / argument lists,
running the real polyply code, projection of real objects onto the abstract residue graph, comparison.

Nothing here decides what the right answer is: expected graphs come from TLC (S->I) or are judged by TLC (I->S).
The abstract residue graph is  {numok, n, name[1..n], inst[1..n], lab[1..n] (sorted [key, value] pairs), edges [{a, b, l}]}
identified by residue id (node keys are abstracted).
"""
import importlib
import json
import zlib
import os
from pathlib import Path

import networkx as nx

from . import common as c

NOT_LABELS = ("resid", "resname", "seqid", "build", "backmap", "graph", "id")
AA = "GAVCPLIMWFSTYNQKRHDEO"


# ------------------------------------------------------------------ projection

def edge_label(attrs):
    attrs = dict(attrs)
    if not attrs:
        return ""
    if list(attrs) == ["linktype"] and isinstance(attrs["linktype"], str):
        return attrs["linktype"]
    return json.dumps(attrs, sort_keys=True, default=str)


def project_graph(graph, key_resid=False, base=0):
    """networkx graph / MetaMolecule -> abstract residue graph.  key_resid: the graph has no resid yet (gen_seq builds
    graphs keyed 0..n-1 which the reader numbers key + 1).  base: residue ids are taken relative to base (C19 inputs whose
    numbering starts at first = base + 1).  Node keys never enter the projection."""
    nodes = list(graph.nodes)
    if key_resid:
        rid = {k: (k + 1 if isinstance(k, int) else None) for k in nodes}
    else:
        rid = {k: graph.nodes[k].get("resid") for k in nodes}
        if base:
            rid = {k: (v - base if isinstance(v, int) and not isinstance(v, bool) else v) for k, v in rid.items()}
    ids = [rid[k] for k in nodes]
    n = len(nodes)
    numok = all(isinstance(i, int) and not isinstance(i, bool) for i in ids) and sorted(ids) == list(range(1, n + 1))
    if numok:
        order = sorted(nodes, key=lambda k: rid[k])
    else:
        order = nodes
    pos = {k: i + 1 for i, k in enumerate(order)}
    name, inst, lab = [], [], []
    for k in order:
        d = graph.nodes[k]
        name.append(str(d.get("resname")))
        sid = d.get("seqid", 0)
        inst.append(sid if isinstance(sid, int) and 0 <= sid < 10 ** 6 else 999999)
        lab.append(sorted([str(a), str(v)] for a, v in d.items() if a not in NOT_LABELS))
    edges = []
    for a, b, d in graph.edges(data=True):
        x, y = sorted((pos[a], pos[b]))
        edges.append({"a": x, "b": y, "l": edge_label(d)})
    edges.sort(key=lambda e: (e["a"], e["b"], e["l"]))
    out = {"numok": bool(numok), "n": n, "name": name, "inst": inst, "lab": lab, "edges": edges}
    if not numok:
        out["resids"] = [str(i) for i in ids]
    return out


def project_jsondoc(doc):
    """node-link JSON document (as written by gen_seq) -> abstract residue graph, residue id = id + 1."""
    g = nx.Graph()
    for nd in doc.get("nodes", []):
        d = dict(nd)
        k = d.pop("id")
        g.add_node(k, **d)
    for ed in doc.get("edges", doc.get("links", [])):
        d = dict(ed)
        a, b = d.pop("source"), d.pop("target")
        g.add_edge(a, b, **d)
    return project_graph(g, key_resid=True)


def _seq(x):
    """TLC prints a function with empty domain as {} - normalise to a list."""
    if isinstance(x, dict) and not x:
        return []
    return x


def norm_expected(g):
    """graph exported by TLC -> canonical python form"""
    n = g["n"]
    return {"n": n, "name": list(_seq(g["name"])), "inst": list(_seq(g["inst"])),
            "lab": [sorted([list(p) for p in _seq(l)]) for l in _seq(g["lab"])],
            "edges": sorted(({"a": e["a"], "b": e["b"], "l": e["l"]} for e in _seq(g["edges"])), key=lambda e: (e["a"], e["b"], e["l"]))}


def diff(obs, exp, free=()):
    """first difference between an observed and an expected residue graph (None if equal modulo free names)"""
    if obs is None:
        return "no graph"
    if "exc" in obs:
        return "the code raised %s" % obs["exc"]
    if not obs["numok"]:
        return "residue ids are not 1..n: %s" % (obs.get("resids"),)
    if obs["n"] != exp["n"]:
        return "number of residues %d, expected %d" % (obs["n"], exp["n"])
    for r in range(exp["n"]):
        if (r + 1) not in free and obs["name"][r] != exp["name"][r]:
            return "residue %d is named %s, expected %s" % (r + 1, obs["name"][r], exp["name"][r])
    if obs["edges"] != exp["edges"]:
        eo = {(e["a"], e["b"], e["l"]) for e in obs["edges"]}
        ee = {(e["a"], e["b"], e["l"]) for e in exp["edges"]}
        if len(eo) != len(obs["edges"]):
            return "duplicate edges"
        return "edges differ: unexpected %s, missing %s" % (sorted(eo - ee)[:4], sorted(ee - eo)[:4])
    if obs["inst"] != exp["inst"]:
        return "instance ids (seqid) differ: %s, expected %s" % (obs["inst"], exp["inst"])
    if obs["lab"] != exp["lab"]:
        return "labels differ: %s, expected %s" % (obs["lab"], exp["lab"])
    return None


def connected(exp):
    """is the expected residue graph connected (domain filter for the stages after the sequence input)"""
    n = exp["n"]
    if n == 0:
        return False
    adj = {i: set() for i in range(1, n + 1)}
    for e in exp["edges"]:
        adj[e["a"]].add(e["b"])
        adj[e["b"]].add(e["a"])
    seen, todo = {1}, [1]
    while todo:
        for j in adj[todo.pop()]:
            if j not in seen:
                seen.add(j)
                todo.append(j)
    return len(seen) == n


def same_graph(obs, exp):
    return diff(obs, exp) is None


# ------------------------------------------------------------------ rendering

def file_lines(inp):
    """token lines of a file input (the line breaking is part of the abstract input)"""
    toks, out, p = list(inp["toks"]), [], 0
    for ln in inp["lines"]:
        out.append(toks[p:p + ln])
        p += ln
    return out


# free text of comment lines: words that contain other spellings of the alphabet keywords (they say nothing about the alphabet)
HDR_WORDS = ["test", "sequence", "internal", "ssdna", "Arnaud", "protein", "Dna", "rna-binding", "T4", "external", "mRna", "Protein", "dsDna", "kinase"]


def header_text(inp, salt=0):
    """comment text of a .fasta / .ig file: the record's own "hdr" (list of characters) if it has one, otherwise a text made of the
    alphabet keyword and distractor words picked deterministically from the record"""
    if inp.get("hdr"):
        return "".join(inp["hdr"])
    h = zlib.crc32(json.dumps([inp.get("toks"), inp.get("lines"), salt], sort_keys=True, default=list).encode())
    w = [HDR_WORDS[(h >> (4 * k)) % len(HDR_WORDS)] for k in range(3)]
    return " ".join([w[0], w[1], inp["kind"], w[2]][(h >> 13) % 2:])


def render_file(inp, wd, stem):
    fmt = inp["fmt"]
    lines = file_lines(inp)
    if fmt == "txt":
        body = [" ".join(l) for l in lines]
        head = []
    elif fmt == "fasta":
        body = ["".join(l) for l in lines]
        head = [">" + header_text(inp)]
    elif fmt == "ig":
        body = ["".join(l) for l in lines]
        ter = "2" if inp["circ"] else "1"
        if inp["terOwn"]:
            body.append(ter)
        else:
            body[-1] += ter
        # the title line is part of the abstract input (arbitrary, mandatory; it never ends in 1 / 2)
        head = ["; a comment", "; " + header_text(inp), "".join(_seq(inp.get("title")) or "title")]
    else:
        raise ValueError(fmt)
    text = "\n".join(head + body) + ("\n" if inp["nl"] else "")
    p = Path(wd) / ("%s.%s" % (stem, fmt))
    p.write_text(text)
    return p, text


def render_json(inp, wd, stem):
    names = list(inp["names"])
    nodes = [{"id": o - 1, "resname": names[o - 1]} for o in inp["order"]]
    edges = [{"source": a, "target": b} for a, b in _seq(inp["links"])]
    doc = {"directed": False, "multigraph": False, "graph": {}, "nodes": nodes, "edges": edges}
    p = Path(wd) / ("%s.json" % stem)
    text = json.dumps(doc)
    p.write_text(text)
    return p, text


def render_itp(nm, d):
    """a -from_file macro as a polyply .itp block: one BB bead per residue (every second residue also a side chain bead),
    residue numbers as given by the abstract input (they need not start at 1 nor be contiguous), BB-BB bonds where the
    abstract input bonds two residues"""
    atoms, bonds, bb = [], [], {}
    k = 0
    for p, (name, rid) in enumerate(zip(d["names"], d["resids"]), start=1):
        k += 1
        bb[p] = k
        atoms.append("%d P1 %d %s BB %d 0.0" % (k, rid, name, k))
        if p % 2 == 0:
            k += 1
            atoms.append("%d C1 %d %s SC1 %d 0.0" % (k, rid, name, k))
            bonds.append("%d %d 1 0.30 5000" % (bb[p], k))
    for a, b in _seq(d["bonds"]):
        bonds.append("%d %d 1 0.35 1250" % (bb[a], bb[b]))
    return "[ moleculetype ]\nblk%s 1\n\n[ atoms ]\n%s\n\n[ bonds ]\n%s\n" % (nm, "\n".join(atoms), "\n".join(bonds))


def genseq_args(inp):
    """abstract gen_seq input -> keyword arguments of polyply.gen_seq (strings as on the command line); macros of kind
    "file" become -from_file TAG:block entries plus the text of the .itp files (key "itp")"""
    macro_strings, from_file, itp = [], [], {}
    for x, (nm, d) in enumerate(sorted(inp["defs"].items())):
        if d.get("kind") == "file":
            from_file.append("%s:blk%s" % (nm, nm))
            itp[nm] = render_itp(nm, d)
            continue
        res = "%s-1.0" % d["res"] if x % 2 == 0 else "ZZ-0.0,%s-1.0" % d["res"]      # a residue mix with probability 1
        macro_strings.append("%s:%d:%d:%s" % (nm, d["lev"], d["br"], res))
    connects = ["%d:%d:%s" % (c["i"], c["j"], ",".join("%d-%d" % (a, b) for a, b in c["pairs"])) for c in _seq(inp["connects"])]
    mods = ["%d:%s" % (e["i"], e["name"]) for e in _seq(inp["ends"])]
    tags = []
    for x, t in enumerate(_seq(inp["labels"])):
        tags.append("%d:%s:%s-1.0" % (t["i"], t["key"], t["val"]) if x % 2 == 0 else "%d:%s:zz-0.0,%s-1.0" % (t["i"], t["key"], t["val"]))
    out = {"seq": list(inp["seq"]), "macro_strings": macro_strings, "connects": connects, "modifications": mods, "tags": tags}
    if from_file:
        out["from_file"], out["itp"] = from_file, itp
    return out


# ------------------------------------------------------------------ running the real code

def _exc(exc):
    return {"exc": "%s: %s" % (type(exc).__name__, str(exc)[:200])}


def run_file(inp, wd, stem):
    from polyply.src.meta_molecule import MetaMolecule
    p, text = render_file(inp, wd, stem)
    try:
        mm = MetaMolecule.from_sequence_file(None, p, "test")
        return project_graph(mm), text
    except Exception as exc:  # the readers must not raise on in-domain files
        return _exc(exc), text


def run_json(inp, wd, stem):
    from polyply.src.meta_molecule import MetaMolecule
    p, text = render_json(inp, wd, stem)
    try:
        mm = MetaMolecule.from_sequence_file(None, p, "test")
        return project_graph(mm), text
    except Exception as exc:
        return _exc(exc), text


def seqlist_args(inp):
    return ["%s:%d" % (b["name"], b["cnt"]) for b in inp["blocks"]]


def run_seqlist(inp):
    from polyply.src.gen_itp import split_seq_string
    from polyply.src.meta_molecule import MetaMolecule
    try:
        monomers = split_seq_string(seqlist_args(inp))
        mm = MetaMolecule.from_monomer_seq_linear(force_field=None, monomers=monomers, mol_name="test")
        return project_graph(mm)
    except Exception as exc:
        return _exc(exc)


class _NxProxy:
    """stands in for the name `nx` inside polyply.src.gen_seq: records the graph after every disjoint_union"""

    def __init__(self, real, rec):
        self._real, self._rec = real, rec

    def __getattr__(self, name):
        return getattr(self._real, name)

    def disjoint_union(self, a, b):
        r = self._real.disjoint_union(a, b)
        self._rec("AddMacro", r)
        return r


def run_genseq(inp, wd, stem):
    """run the real gen_seq, observing one event per I-layer action: AddMacro (nx.disjoint_union), AddConnect (_add_edges),
    ModTer (_apply_termini_modifications), Label (_tag_nodes), Write (the .json file), ReadBack (the MetaMolecule read
    from it).  Returns (events, args); an exception of the code ends the list with {"act": "Exception"}."""
    gs = importlib.import_module("polyply.src.gen_seq")
    from polyply.src.meta_molecule import MetaMolecule
    events = []

    def rec(act, graph):
        events.append({"act": act, "g": project_graph(graph, key_resid=True)})
    saved = (gs.nx, gs._add_edges, gs._apply_termini_modifications, gs._tag_nodes)
    for nm in ("_add_edges", "_apply_termini_modifications", "_tag_nodes"):
        if not callable(getattr(gs, nm, None)):
            raise RuntimeError("gen_seq.%s not found" % nm)

    def add_edges(graph, edges, idx, jdx):
        r = saved[1](graph, edges, idx, jdx)
        rec("AddConnect", graph)
        return r

    def mod_ter(graph, modifications):
        r = saved[2](graph, modifications)
        rec("ModTer", graph)
        return r

    def tag_nodes(graph, tags, seed=None):
        r = saved[3](graph, tags, seed) if seed is not None else saved[3](graph, tags)
        rec("Label", graph)
        return r
    args = genseq_args(inp)
    out = Path(wd) / ("%s.json" % stem)
    if out.exists():
        out.unlink()
    inpath = []
    for nm, text in sorted(args.get("itp", {}).items()):
        f = Path(wd) / ("%s_%s.itp" % (stem, nm))
        f.write_text(text)
        inpath.append(f)
    gs.nx = _NxProxy(saved[0], rec)
    gs._add_edges, gs._apply_termini_modifications, gs._tag_nodes = add_edges, mod_ter, tag_nodes
    try:
        try:
            gs.gen_seq("test", out, args["seq"], inpath=inpath, macro_strings=args["macro_strings"],
                       from_file=args.get("from_file"), connects=args["connects"],
                       modifications=args["modifications"], tags=args["tags"])
        finally:
            gs.nx, gs._add_edges, gs._apply_termini_modifications, gs._tag_nodes = saved
        events.append({"act": "Write", "g": project_jsondoc(json.loads(out.read_text()))})
        mm = MetaMolecule.from_sequence_file(None, out, "test")
        events.append({"act": "ReadBack", "g": project_graph(mm)})
    except Exception as exc:
        ev = {"act": "Exception"}
        ev.update(_exc(exc))
        events.append(ev)
    return events, args


# ---- dsDNA

def strand_graph(inp):
    """the single strand of a dsdna input as a networkx graph (nodes in ascending order, as every reader produces them)"""
    names = list(inp["names"])
    n = len(names)
    g = nx.Graph()
    for i, nm in enumerate(names):
        g.add_node(i, resname=nm, resid=i + 1)
    for i in range(n - 1):
        g.add_edge(i, i + 1)
    if inp["circ"]:
        g.add_edge(0, n - 1, linktype="circle")
    if inp["tag"]:
        g.edges[(inp["tag"] - 1, inp["tag"])]["linktype"] = "x"
    return g


def second_strand(mm):
    """residues n+1..2n of a completed molecule as a fresh single strand (residue ids 1..n), or None"""
    nodes = sorted(mm.nodes, key=lambda k: mm.nodes[k]["resid"])
    if len(nodes) % 2:
        return None
    n = len(nodes) // 2
    sec = nodes[n:]
    idx = {k: i for i, k in enumerate(sec)}
    g = nx.Graph()
    for k in sec:
        g.add_node(idx[k], resname=mm.nodes[k]["resname"], resid=idx[k] + 1)
    for a, b, d in mm.edges(data=True):
        if a in idx and b in idx:
            g.add_edge(idx[a], idx[b], **d)
    # adjacency in ascending node order, as the readers give it
    h = nx.Graph()
    h.add_nodes_from(sorted(g.nodes(data=True)))
    h.add_edges_from(sorted((min(a, b), max(a, b), d) for a, b, d in g.edges(data=True)))
    return h


def complete(graph):
    """run the real complement_dsDNA on a strand graph -> ("ok", MetaMolecule) / ("rej", exception text)"""
    from polyply.src.meta_molecule import MetaMolecule
    from polyply.src.gen_dna import complement_dsDNA
    mm = MetaMolecule(graph, mol_name="test")
    try:
        complement_dsDNA(mm)
    except (IOError, KeyError) as exc:      # the two ways the code refuses an unknown residue name
        return "rej", "%s: %s" % (type(exc).__name__, str(exc)[:120])
    return "ok", mm


def plain_keys(inp):
    """node keys 0..n-1 and residue ids from 1: what the .ig / .fasta / -seq routes produce"""
    keys = list(_seq(inp.get("keys", []))) or list(range(len(inp["names"])))
    return keys == list(range(len(inp["names"]))) and inp.get("first", 1) == 1


def render_strand_json(inp, wd, stem):
    """a dsdna input as the .json sequence file that produces it: node ids = keys (1-based, with gaps, shuffled against the
    residue ids ...), explicit residue ids first, first+1, ..."""
    names, keys, first = list(inp["names"]), list(inp["keys"]), inp["first"]
    n = len(names)
    nodes = [{"id": keys[r], "resname": names[r], "resid": first + r} for r in range(n)]
    edges = []
    for r in range(n - 1):
        e = {"source": keys[r], "target": keys[r + 1]}
        if inp["tag"] == r + 1:
            e["linktype"] = "x"
        edges.append(e)
    if inp["circ"]:
        edges.append({"source": keys[n - 1], "target": keys[0], "linktype": "circle"})
    p = Path(wd) / ("%s.json" % stem)
    p.write_text(json.dumps({"directed": False, "multigraph": False, "graph": {}, "nodes": nodes, "edges": edges}))
    return p


def run_dsdna(inp, wd=None, stem="s"):
    """-> {"rej", "g": molecule after the completion, "g2": after completing the added strand once more IN PLACE on the same
    object (inp.rounds = 2), "back": second strand of (a fresh copy of the added strand completed again)}.
    Strands with other node keys / first residue id than 0..n-1 / 1 are read from a rendered .json file."""
    from polyply.src.meta_molecule import MetaMolecule
    from polyply.src.gen_dna import complement_dsDNA
    base = inp.get("first", 1) - 1
    try:
        if plain_keys(inp):
            mm = MetaMolecule(strand_graph(inp), mol_name="test")
        else:
            mm = MetaMolecule.from_sequence_file(None, render_strand_json(inp, wd, stem), "test")
        try:
            complement_dsDNA(mm)
        except (IOError, KeyError) as exc:      # the two ways the code refuses an unknown residue name
            return {"rej": True, "why": "%s: %s" % (type(exc).__name__, str(exc)[:120])}
        out = {"rej": False, "g": project_graph(mm, base=base)}
        sec = second_strand(mm)
        if inp.get("rounds", 1) == 2:
            try:
                complement_dsDNA(mm)
                out["g2"] = project_graph(mm, base=base)
            except Exception as exc:
                out["g2"] = _exc(exc)
        if sec is None or len(sec) != len(inp["names"]):
            out["back"] = {"exc": "no second strand of %d residues" % len(inp["names"])}
            return out
        st2, mm2 = complete(sec)
        if st2 == "rej":
            out["back"] = {"exc": "second strand rejected: %s" % mm2}
            return out
        sec2 = second_strand(mm2)
        out["back"] = project_graph(sec2) if sec2 is not None else {"exc": "odd number of residues"}
        return out
    except Exception as exc:
        return {"rej": False, "g": _exc(exc), "back": _exc(exc), "g2": _exc(exc)}


def dna_letters(inp):
    """one-letter sequence of a dsdna input whose names are plain DNA names (for rendering an .ig / .fasta file)"""
    out = []
    for nm in inp["names"]:
        if len(nm) < 2 or nm[0] != "D" or nm[1] not in "ACGT":
            return None
        out.append(nm[1])
    return out


# ---- gen_params end to end (the MetaMolecule is observed where gen_params hands it to MapToMolecule)

def universe_ff(path):
    """synthetic force field: one single-bead block per residue name that can occur"""
    names = set()
    for b in "ACGT":
        for s in ("", "5", "3"):
            names.add("D" + b + s)
    for b in "ACGU":
        for s in ("", "5", "3"):
            names.add(b + s)
    names |= {"GLY", "ALA", "VAL", "CYS", "PRO", "LEU", "ILE", "MET", "TRP", "PHE", "SER", "THR", "TYR", "ASN", "GLN", "LYS",
              "ARG", "HIS", "ASP", "GLU", "HYP", "PEO", "N1", "PA", "PB", "END", "CAP", "PS", "P3HT", "X1"}
    txt = []
    for nm in sorted(names):
        txt.append("[ moleculetype ]\n%s 1\n[ atoms ]\n1 P1 1 %s BB 1 0.0\n" % (nm, nm))
    Path(path).write_text("\n".join(txt))
    return sorted(names)


def run_gen_params(wd, stem, ff, seq=None, seq_file=None, dsdna=False, base=0):
    """real gen_params; returns {"g": graph handed to MapToMolecule, "itp": [(resid, resname) per atom]} or {"exc"}"""
    gi = importlib.import_module("polyply.src.gen_itp")
    captured = {}
    orig = gi.MapToMolecule

    class Capture(orig):
        def run_molecule(self, meta_molecule):
            captured["g"] = project_graph(meta_molecule, base=base)
            return super().run_molecule(meta_molecule)
    out = Path(wd) / ("%s.itp" % stem)
    if out.exists():
        out.unlink()
    gi.MapToMolecule = Capture
    try:
        gi.gen_params(name="test", outpath=out, inpath=[Path(ff)], lib=None, seq=seq, seq_file=seq_file, dsdna=dsdna)
    except (Exception, SystemExit) as exc:
        if "g" in captured:
            # the residue graph was built; a later stage (mapping, links, writing) failed
            return {"g": captured["g"], "itp": None, "after": _exc(exc)["exc"]}
        return _exc(exc)
    finally:
        gi.MapToMolecule = orig
    if "g" not in captured:
        return {"exc": "gen_params never reached MapToMolecule"}
    atoms, sect = [], None
    for line in out.read_text().splitlines():
        s = line.split(";")[0].strip()
        if not s:
            continue
        if s.startswith("["):
            sect = s.strip("[] ").lower()
            continue
        if sect == "atoms":
            f = s.split()
            atoms.append([int(f[2]), f[3]])
    return {"g": captured["g"], "itp": atoms}


# ------------------------------------------------------------------ trace records

def obs_for_trace(obs):
    """observed graph -> the shape SeqInputTrace expects (an exception or broken numbering gives numok = FALSE)"""
    if obs is None or "exc" in obs:
        return {"numok": False, "n": 0, "name": [], "inst": [], "lab": [], "edges": [], "why": (obs or {}).get("exc", "none")}
    return {k: obs[k] for k in ("numok", "n", "name", "inst", "lab", "edges")}


def validate(traces, name, cfg="Seq_trace.cfg", prop="C12"):
    """-> (TLC result, {tid (1-based): events matched}) for the rejected traces"""
    wd = c.workdir(prop, "val_" + name)
    f = wd / "traces.json"
    f.write_text(json.dumps({"traces": traces}))
    res = c.tlc("SeqInputTrace", cfg, workers=1, env={"TRACE_FILE": str(f), "JAVA_TOOL_OPTIONS": "-Xss64m -XX:TieredStopAtLevel=1"}, check=False)
    rej = res.tagged("REJECTED")
    if (res.rc != 0 and not rej) or res.inv_violated or (res.rc == 0 and "Model checking completed" not in res.out):
        raise c.MachineryError("SeqInputTrace failed (%s): %s" % (name, res.out[-2500:]))
    rejected = {}
    for r in rej:
        rejected.update({int(t): int(m) for t, m in r})
    return res, rejected


def setenv():
    os.environ.setdefault("TQDM_DISABLE", "1")
