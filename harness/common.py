"""Shared machinery of the /verif checks: running TLC, parsing its output, evidence, findings, violations.

Everything here is standard library only.  The harness is run with /venv/bin/python so that `import polyply`
resolves to the working tree of /repo (editable install).
"""
import json
import os
import re
import shutil
import subprocess
import sys
import time
from pathlib import Path

VERIF = Path(__file__).resolve().parents[1]
SPEC = VERIF / "spec"
WORK = Path(os.environ.get("VERIF_WORK") or (VERIF / "work"))
EVID = Path(os.environ.get("VERIF_EVID") or (VERIF / "evidence"))
REPLAYS = EVID / "replays"
FINDINGS = VERIF / "known_findings.jsonl"
NPROC = int(os.environ.get("VERIF_NPROC", "16"))


import itertools
_COUNTER = itertools.count()


class MachineryError(Exception):
    """Raised when the checking machinery itself fails (exit code 2, never a VIOLATION)."""


def seed():
    try:
        return int(os.environ.get("VERIF_SEED", "0"))
    except ValueError:
        return 0


def workdir(prop, name="", clean=True):
    d = WORK / prop / name if name else WORK / prop
    if clean and d.exists():
        shutil.rmtree(d, ignore_errors=True)
    d.mkdir(parents=True, exist_ok=True)
    return d


# --------------------------------------------------------------------------- TLC

class TLCResult:
    def __init__(self, module, cfg, out, rc, wall):
        self.module, self.cfg, self.out, self.rc, self.wall = module, cfg, out, rc, wall
        self.generated = self.distinct = self.depth = 0
        m = None
        for m in re.finditer(r"(\d+) states generated, (\d+) distinct states found", out):
            pass
        if m:
            self.generated, self.distinct = int(m.group(1)), int(m.group(2))
        m = re.search(r"depth of the complete state graph search is (\d+)", out)
        if m:
            self.depth = int(m.group(1))
        self.inv_violated = re.findall(r"Error: Invariant (\S+) is violated", out)
        self.prop_violated = re.findall(r"Error: (?:Action|Temporal) propert(?:y|ies) (\S*) ?(?:is|were) violated", out)
        self.errors = [l for l in out.splitlines() if l.startswith("Error:")]
        self.finished = "Model checking completed" in out or "Finished in" in out
        self.post_failed = "postcondition" in out.lower() and "violated" in out.lower() or "POSTCONDITION" in out and "false" in out.lower()

    # ---- exported records:  <<"TAG", "<json string>">>
    def tagged(self, tag):
        """values exported by PrintT(<<"TAG", ToJson(v)>>); TLC may wrap a long tuple over several lines"""
        res = []
        pat = re.compile(r'<<\s*"%s",\s*("(?:[^"\\]|\\.)*")\s*>>' % re.escape(tag), re.S)
        for m in pat.finditer(self.out):
            try:
                v = json.loads(m.group(1).replace("\n", " "))
                if isinstance(v, str):
                    v = json.loads(v)
                res.append(v)
            except Exception as exc:  # pragma: no cover
                raise MachineryError("cannot parse %s record: %s (%s)" % (tag, m.group(0)[:200], exc))
        return res

    def cases(self):
        return self.tagged("CASE")

    def coverage(self):
        """action name -> number of distinct/total states (from -coverage output)."""
        cov = {}
        for m in re.finditer(r"<(\w+) line \d+, col \d+ to line \d+, col \d+ of module (\w+)>: (\d+):(\d+)", self.out):
            cov[m.group(1)] = cov.get(m.group(1), 0) + int(m.group(4))
        return cov

    def summary(self):
        return {"module": self.module, "cfg": self.cfg, "states": self.generated, "distinct": self.distinct,
                "depth": self.depth, "wall_s": round(self.wall, 2)}

    def ok(self):
        return self.rc == 0 and not self.errors


def tlc(module, cfg, *, workers=None, simulate=None, depth=None, tseed=None, env=None, timeout=3600,
        coverage=False, metadir=None, cwd=None, extra=(), dfs=False, check=True):
    """Run TLC on spec/<module>.tla with spec/<cfg>.  Returns a TLCResult.

    check=True: any TLC failure other than a reported invariant/property violation raises MachineryError.
    """
    cwd = Path(cwd or SPEC)
    metadir = Path(metadir or (WORK / "tlc" / ("%s_%s_%d_%d" % (module, Path(cfg).stem, os.getpid(), next(_COUNTER)))))
    if metadir.exists():
        shutil.rmtree(metadir, ignore_errors=True)
    metadir.mkdir(parents=True, exist_ok=True)
    cmd = ["tlc", "-workers", str(workers or NPROC), "-metadir", str(metadir), "-noGenerateSpecTE", "-config", str(cfg)]
    if coverage:
        cmd += ["-coverage", "1"]
    if simulate:
        cmd += ["-simulate", simulate]
    if depth:
        cmd += ["-depth", str(depth)]
    if tseed is not None:
        cmd += ["-seed", str(tseed)]
    cmd += list(extra) + [module]
    e = dict(os.environ)
    jopts = "-Xss64m"
    if dfs:
        jopts += " -Dtlc2.tool.queue.IStateQueue=StateDeque"
    e["JAVA_TOOL_OPTIONS"] = (e.get("JAVA_TOOL_OPTIONS", "") + " " + jopts).strip()
    if env:
        e.update({k: str(v) for k, v in env.items()})
    t0 = time.time()
    try:
        p = subprocess.run(cmd, cwd=cwd, env=e, capture_output=True, text=True, timeout=timeout)
        out, rc = p.stdout + p.stderr, p.returncode
    except subprocess.TimeoutExpired as exc:
        subprocess.run(["pkill", "-f", str(metadir)], check=False)
        out = (exc.stdout.decode() if isinstance(exc.stdout, bytes) else (exc.stdout or "")) + "\nTIMEOUT"
        rc = 124
    res = TLCResult(module, str(cfg), out, rc, time.time() - t0)
    shutil.rmtree(metadir, ignore_errors=True)
    if check:
        bad = [l for l in res.errors if "Invariant" not in l and "propert" not in l and "behavior up to this point" not in l
               and "The behavior" not in l]
        if rc == 124 or (rc != 0 and not res.inv_violated and not res.prop_violated) or \
                any("parse" in l.lower() or "semantic" in l.lower() for l in bad):
            tail = "\n".join(out.splitlines()[-40:])
            raise MachineryError("TLC failed on %s / %s (rc=%s):\n%s" % (module, cfg, rc, tail))
    return res


def tlc_many(jobs, workers_each=None):
    """Run several TLC jobs concurrently. jobs: list of (module, cfg, kwargs). Returns results in order.
    A MachineryError of any job is re-raised after all have finished."""
    from concurrent.futures import ThreadPoolExecutor
    n = max(1, len(jobs))
    each = workers_each or max(2, NPROC // n)

    def one(job):
        module, cfg, kw = job
        kw = dict(kw)
        kw.setdefault("workers", each)
        try:
            return tlc(module, cfg, **kw)
        except MachineryError as exc:
            return exc
    with ThreadPoolExecutor(n) as ex:
        res = list(ex.map(one, jobs))
    for r in res:
        if isinstance(r, MachineryError):
            raise r
    return res


def counterexample(res):
    """Return the textual counterexample (State 1 ... ) of a TLCResult, if any."""
    i = res.out.find("Error: The behavior up to this point is:")
    if i < 0:
        i = res.out.find("Error: Invariant")
    return res.out[i:i + 6000] if i >= 0 else ""


# --------------------------------------------------------------------------- findings

def load_findings():
    ents = []
    if FINDINGS.exists():
        for line in FINDINGS.read_text().splitlines():
            line = line.strip()
            if line:
                ents.append(json.loads(line))
    d = VERIF / "known_findings.d"
    if d.exists():
        for f in sorted(d.glob("*.json")):
            ents.append(json.loads(f.read_text()))
    return ents


def known_sigs(prop):
    """signatures of findings recorded as known (unrepaired) for this property."""
    return {e["sig"]: e for e in load_findings() if e.get("status") == "known" and e.get("property") == prop and "sig" in e}


# --------------------------------------------------------------------------- check context

class Check:
    """One run of one property check: collects TLC runs, counts, samples, violations; writes evidence."""

    def __init__(self, prop, tier, level="model_checking"):
        self.prop, self.tier, self.level = prop, tier, level
        self.t0 = time.time()
        self.tlc_runs = []
        self.states = 0
        self.transitions = 0
        self.traces = 0
        self.replayed = 0
        self.evaluations = 0
        self.nontrivial = set()
        self.samples = []
        self.violations = 0
        self.known = {}
        self.notes = []
        self.actions = {}
        self.extra = {}
        self.assumptions = []
        self.rule = ""
        self.exhaustive = False
        self._known = known_sigs(prop)
        rd = REPLAYS / prop
        if rd.exists():
            shutil.rmtree(rd, ignore_errors=True)

    # TLC bookkeeping
    def add_tlc(self, res, expect_violation=None):
        s = res.summary()
        if res.inv_violated:
            s["violated"] = res.inv_violated
        self.tlc_runs.append(s)
        self.states += res.distinct
        self.transitions += res.generated
        for k, v in res.coverage().items():
            self.actions[k] = self.actions.get(k, 0) + v
        return res

    def model_must_hold(self, res, what):
        """A design-level violation in the intended model is a machinery/design failure, reported as VIOLATION of the
        property only after it has been reproduced on the code; here it stops the check with exit 2."""
        self.add_tlc(res)
        if res.inv_violated or res.prop_violated or not res.ok():
            raise MachineryError("model %s: %s violated at design level (%s)\n%s" % (
                res.module, what, res.inv_violated or res.prop_violated or res.errors[:3], counterexample(res)[:3000]))
        return res

    def model_must_refute(self, res, inv, what):
        """Sensitivity run: with a deviation flag set the model must violate `inv` (non-vacuity of the property)."""
        self.add_tlc(res)
        if inv not in res.inv_violated and inv not in " ".join(res.prop_violated) and not any(inv in e for e in res.errors):
            raise MachineryError("sensitivity run %s/%s: expected %s to be refuted (%s) but it was not" % (res.module, res.cfg, inv, what))
        return res

    def require(self, cond, msg):
        """vacuity / coverage requirement of the machinery: exit 2 when it fails on a run without violations;
        on a run that already found violations (misbehaving code) it is only noted."""
        if cond:
            return True
        if self.violations:
            self.note("requirement not met (violations were found before): " + msg)
            return False
        raise MachineryError(msg)

    def stage(self, name):
        now = time.time()
        print("[%s %6.1fs] %s" % (self.prop, now - self.t0, name), flush=True)

    def sample(self, obj, limit=6):
        if len(self.samples) < limit:
            self.samples.append(obj)

    def count(self, key=None, n=1):
        self.evaluations += n
        if key is not None:
            self.nontrivial.add(key)

    def note(self, msg):
        self.notes.append(msg)
        print("NOTE:", msg)

    def violation(self, case, sig=None, what=""):
        """Report a violation (or a known finding when its signature is listed as known)."""
        if sig is not None and sig in self._known:
            if sig not in self.known:
                print("KNOWN-FINDING: property=%s %s %s" % (self.prop, sig, self._known[sig].get("what", what)))
            self.known[sig] = self.known.get(sig, 0) + 1
            return
        self.violations += 1
        if self.violations > 25:
            return None
        d = REPLAYS / self.prop / str(self.violations)
        d.mkdir(parents=True, exist_ok=True)
        doc = {"property": self.prop, "what": what, "sig": sig, "case": case}
        (d / "case.json").write_text(json.dumps(doc, indent=1, default=str))
        (d / "cmd").write_text("/verif/bin/check %s --replay %s\n" % (self.prop, d / "case.json"))
        if self.violations <= 20:
            print("VIOLATION property=%s replay=%s" % (self.prop, d / "case.json"))
            if what:
                print("  " + what[:600])
        return d

    def finish(self):
        wall = time.time() - self.t0
        cov = {
            "states": self.states,
            "transitions": self.transitions,
            "traces_validated_against_impl": self.traces,
            "replayed_cases": self.replayed,
            "evaluations": self.evaluations,
            "distinct_nontrivial": len(self.nontrivial),
            "rule": self.rule,
            "samples": self.samples if self.samples else ["(no sample recorded)"],
            "exhaustive": self.exhaustive,
            "tlc": self.tlc_runs,
            "actions": self.actions,
            "known_findings_reproduced": sorted(self.known),
            "notes": self.notes,
        }
        cov.update(self.extra)
        doc = {"property_id": self.prop, "tier": self.tier, "seed": seed(), "level": self.level,
               "coverage": cov, "assumptions": self.assumptions, "wall_s": round(wall, 2), "violations": self.violations}
        EVID.mkdir(exist_ok=True)
        (EVID / ("%s.json" % self.prop)).write_text(json.dumps(doc, indent=1, default=str) + "\n")
        print("%s %s: states=%d transitions=%d replayed=%d traces=%d evaluations=%d violations=%d known=%s wall=%.1fs" % (
            self.prop, self.tier, self.states, self.transitions, self.replayed, self.traces, self.evaluations,
            self.violations, sorted(self.known), wall))
        return 1 if self.violations else 0


# --------------------------------------------------------------------------- parallel map

def _init_worker():
    for k in ("OMP_NUM_THREADS", "OPENBLAS_NUM_THREADS", "MKL_NUM_THREADS"):
        os.environ[k] = "1"
    import logging
    logging.disable(logging.CRITICAL)


def pmap(func, items, nproc=None, chunksize=1):
    """Parallel map over processes (fork).  func must be a module-level function."""
    items = list(items)
    nproc = min(nproc or NPROC, max(1, len(items)))
    if nproc <= 1:
        _init_worker()
        return [func(x) for x in items]
    import multiprocessing as mp
    ctx = mp.get_context("fork")
    with ctx.Pool(nproc, initializer=_init_worker) as pool:
        return pool.map(func, items, chunksize)


def chunks(seq, n):
    seq = list(seq)
    k = max(1, (len(seq) + n - 1) // n)
    return [seq[i:i + k] for i in range(0, len(seq), k)]


def quiet():
    import logging
    logging.disable(logging.CRITICAL)
    os.environ.setdefault("TQDM_DISABLE", "1")
