"""Shared helpers of the C06 / C15 checks: rendering abstract systems into real .top / .bld / .gro text files, running the
real pipeline stages of gen_coords, seeded random residue/molecule generators, and a process pool with per-item timeouts.

A *system description* (plain dicts, JSON-able) is
  {"atomtypes": {"P": sigma, ...},
   "moltypes": [{"name": "M0", "atoms": [[atomname, resid, resname, atype, mass], ...],      # 1-based atom ids = list index + 1
                 "bonds": [[i, j, length], ...], "constraints": [[i, j, length]], "angles": [[i, j, k, value]],
                 "impropers": [[i, j, k, l, value]],
                 "vs": [[section, [site, from...], [func, params...]], ...]}],                # section: virtual_sites2/3/4/n
   "molecules": [["M0", count], ...]}
"""
import os
import signal
import time
from pathlib import Path

import numpy as np

from . import common as c

FC = {"bonds": 5000, "angles": 50, "impropers": 50}


# ------------------------------------------------------------------------------------------------ rendering

def _fmt(x):
    """shortest decimal text that reads back as the same float"""
    return repr(float(x))


def render_top(sysd):
    out = ["[ defaults ]", "1 2 no 1.0 1.0", "", "[ atomtypes ]"]
    for name, sigma in sysd["atomtypes"].items():
        mass = 0.0 if sigma == 0 else 72.0
        out.append("%s %s 0.0 %s %s %s" % (name, _fmt(mass), "V" if sigma == 0 else "A", _fmt(sigma), "0.0" if sigma == 0 else "2.0"))
    for mt in sysd["moltypes"]:
        out += ["", "[ moleculetype ]", "%s 1" % mt["name"], "", "[ atoms ]"]
        for i, (an, resid, resname, atype, mass) in enumerate(mt["atoms"], 1):
            out.append("%d %s %d %s %s %d 0.0 %s" % (i, atype, resid, resname, an, i, _fmt(mass)))
        if mt.get("bonds"):
            out += ["", "[ bonds ]"] + ["%d %d 1 %s %d" % (i, j, _fmt(l), FC["bonds"]) for i, j, l in mt["bonds"]]
        if mt.get("constraints"):
            out += ["", "[ constraints ]"] + ["%d %d 1 %s" % (i, j, _fmt(l)) for i, j, l in mt["constraints"]]
        if mt.get("settles"):
            out += ["", "[ settles ]"] + ["%d 1 %s %s" % (i, _fmt(doh), _fmt(dhh)) for i, doh, dhh in mt["settles"]]
        if mt.get("angles"):
            out += ["", "[ angles ]"] + ["%d %d %d 1 %s %d" % (i, j, k, _fmt(v), FC["angles"]) for i, j, k, v in mt["angles"]]
        if mt.get("impropers"):
            out += ["", "[ dihedrals ]"] + ["%d %d %d %d 2 %s %d" % (i, j, k, l, _fmt(v), FC["impropers"]) for i, j, k, l, v in mt["impropers"]]
        by_sec = {}
        for sec, atoms, params in mt.get("vs", []):
            by_sec.setdefault(sec, []).append((atoms, params))
        for sec in ("virtual_sites2", "virtual_sites3", "virtual_sites4", "virtual_sitesn"):
            if sec in by_sec:
                out += ["", "[ %s ]" % sec]
                for atoms, params in by_sec[sec]:
                    if sec == "virtual_sitesn":      # site funct from...
                        out.append("%d %s %s" % (atoms[0], params[0], " ".join(str(a) for a in atoms[1:])))
                    else:
                        out.append("%s %s %s" % (" ".join(str(a) for a in atoms), params[0], " ".join(_fmt(p) for p in params[1:])))
    out += ["", "[ system ]", "verif", "", "[ molecules ]"] + ["%s %d" % (n, k) for n, k in sysd["molecules"]]
    return "\n".join(out) + "\n"


def render_bld(entries):
    """entries: list of ("template", resname, [[name, atype, x, y, z], ...], [[a, b], ...]) or ("volumes", [[resname, value], ...])"""
    out = []
    for e in entries:
        if e[0] == "template":
            _, resname, atoms, bonds = e
            out += ["[ template ]", "resname %s" % resname, "[ atoms ]"]
            out += ["%s %s %s %s %s" % (n, t, _fmt(x), _fmt(y), _fmt(z)) for n, t, x, y, z in atoms]
            out += ["[ bonds ]"] + ["%s %s" % (a, b) for a, b in bonds]
        elif e[0] == "volumes":
            out += ["[ volumes ]"] + ["%s %s" % (rn, _fmt(v)) for rn, v in e[1]]
        else:
            raise c.MachineryError("unknown build-file entry %r" % (e[0],))
    return "\n".join(out) + "\n"


def render_gro(rows, box, title="verif"):
    """rows: [[resid, resname, atomname, x, y, z], ...] ; 3 decimals (standard .gro)"""
    out = [title, "%5d" % len(rows)]
    for i, (resid, resname, an, x, y, z) in enumerate(rows, 1):
        out.append("%5d%-5s%5s%5d%8.3f%8.3f%8.3f" % (resid % 100000, resname[:5], an[:5], i % 100000, x, y, z))
    out.append("%10.5f%10.5f%10.5f" % tuple(box))
    return "\n".join(out) + "\n"


# ------------------------------------------------------------------------------------------------ running the real stages

def load_topology(top_path, bld_paths=(), meta_gro=None, coord_gro=None, build_res=()):
    """Topology.from_gmx_topfile -> preprocess -> coordinates -> build files, in the order gen_coords uses."""
    from polyply.src.topology import Topology
    from polyply.src.load_library import load_build_files
    top = Topology.from_gmx_topfile(name="verif", path=str(top_path))
    top.preprocess()
    if coord_gro:
        top.add_positions_from_file(Path(coord_gro), skip_res=list(build_res), resolution="mol")
    if meta_gro:
        top.add_positions_from_file(Path(meta_gro), skip_res=list(build_res), resolution="meta_mol")
    load_build_files(top, None, [Path(p) for p in bld_paths])
    return top


def generate_templates(top, skip_filter=False, max_opt=10):
    from polyply.src.generate_templates import GenerateTemplates
    GenerateTemplates(topology=top, max_opt=max_opt, skip_filter=skip_filter).run_system(top)
    return top


def need(obj, name):
    if not hasattr(obj, name):
        raise c.MachineryError("interposition target %s.%s no longer exists" % (getattr(obj, "__name__", obj), name))
    return getattr(obj, name)


def import_polyply_quietly():
    """polyply prints a line at import time; import it once in the parent (forked workers inherit the module)"""
    import contextlib
    import io
    with contextlib.redirect_stdout(io.StringIO()):
        import polyply  # noqa: F401
        import polyply.src.backmap  # noqa: F401
        import polyply.src.gen_coords  # noqa: F401


# ------------------------------------------------------------------------------------------------ pool with timeouts

class ItemTimeout(Exception):
    pass


def _alarm(signum, frame):
    raise ItemTimeout()


def _timed(arg):
    func, item, limit = arg
    signal.signal(signal.SIGALRM, _alarm)
    signal.alarm(int(limit))
    t0 = time.time()
    try:
        return ("ok", func(item), time.time() - t0)
    except ItemTimeout:
        return ("timeout", None, time.time() - t0)
    finally:
        signal.alarm(0)


def pmap_timeout(func, items, limit, nproc=None, grace=30):
    """Map func over items in forked workers; an item that runs longer than `limit` seconds is abandoned (SIGALRM in the
    worker) and reported as ("timeout", None); if a worker does not even react to the alarm the whole pool is torn down after
    the overall deadline and the unfinished items are reported as timeouts too.  Results are in input order."""
    items = list(items)
    if not items:
        return []
    nproc = min(nproc or c.NPROC, len(items))
    import multiprocessing as mp
    ctx = mp.get_context("fork")
    res = [("timeout", None, 0.0)] * len(items)
    rounds = (len(items) + nproc - 1) // nproc
    deadline = time.time() + rounds * (limit + 5) + grace
    pool = ctx.Pool(nproc, initializer=c._init_worker)
    try:
        handles = [pool.apply_async(_timed, ((func, it, limit),)) for it in items]
        for i, h in enumerate(handles):
            left = deadline - time.time()
            try:
                res[i] = h.get(timeout=max(0.1, left))
            except mp.TimeoutError:
                res[i] = ("timeout", None, 0.0)
        pool.close()
    finally:
        pool.terminate()
    return res


# ------------------------------------------------------------------------------------------------ random residues / systems

NAMES = ["A", "B", "C", "D", "E", "F", "G", "H"]


def random_residue(rng, resname, nmax=5, with_vs=True, with_angles=True):
    """a connected residue definition with pairwise distinct atom names:
    {"resname", "names": [...], "atypes": [...], "bonds": [[a, b, len]], "constraints", "angles": [[a, b, c, val]], "impropers", "vs": [[section, [site, from...], [func, params...]]]}
    (atoms referred to by name).  Shapes: chain, star, ring, branched tree; geometrically feasible targets."""
    n = int(rng.integers(1, nmax + 1))
    names = list(rng.permutation(NAMES)[:n]) if rng.random() < 0.5 else NAMES[:n]
    names = [str(x) for x in names]
    shape = ["chain", "star", "ring", "tree"][int(rng.integers(0, 4))]
    edges = []
    if n >= 2:
        if shape == "chain" or n == 2:
            edges = [(i, i + 1) for i in range(n - 1)]
        elif shape == "star":
            edges = [(0, i) for i in range(1, n)]
        elif shape == "ring" and n >= 3:
            edges = [(i, (i + 1) % n) for i in range(n)]
        else:
            edges = [(int(rng.integers(0, i)), i) for i in range(1, n)]
    res = {"resname": resname, "names": names, "atypes": ["P"] * n, "bonds": [], "constraints": [], "angles": [], "impropers": [], "vs": []}
    ring = shape == "ring" and n >= 3
    blen = round(float(rng.uniform(0.25, 0.4)), 3)
    for a, b in edges:
        l = blen if ring else round(float(rng.uniform(0.25, 0.4)), 3)
        if rng.random() < 0.15:
            res["constraints"].append([names[a], names[b], l])
        else:
            res["bonds"].append([names[a], names[b], l])
    if with_angles and not ring and n >= 3:
        adj = {i: sorted([b for a, b in edges if a == i] + [a for a, b in edges if b == i]) for i in range(n)}
        for j in range(n):
            nb = adj[j]
            # one angle per centre atom keeps the targets jointly feasible
            if len(nb) >= 2 and rng.random() < 0.6:
                res["angles"].append([names[nb[0]], names[j], names[nb[1]], float(rng.choice([90.0, 100.0, 110.0, 120.0, 135.0, 150.0]))])
        if shape == "star" and n == 4 and rng.random() < 0.5:
            # chirality selector: improper with a definite sign
            res["impropers"].append([names[0], names[1], names[2], names[3], float(rng.choice([35.0, -35.0]))])
    if with_vs and n >= 2 and rng.random() < 0.4:
        kinds = [("virtual_sites2", 2), ("virtual_sitesn", min(n, 3))]
        if n >= 3:
            kinds += [("virtual_sites3", 3)] * 4
        if n >= 4:
            kinds += [("virtual_sites4", 4)]
        sec, k = kinds[int(rng.integers(0, len(kinds)))]
        frm = [names[i] for i in rng.permutation(n)[:k]]
        site = "V" + str(int(rng.integers(1, 9)))
        if sec == "virtual_sites2":
            params = ["1", round(float(rng.uniform(-0.5, 1.5)), 3)]
        elif sec == "virtual_sitesn":
            params = ["1"]
        elif sec == "virtual_sites4":
            params = ["2", round(float(rng.uniform(0.3, 1.2)), 3), round(float(rng.uniform(0.3, 1.2)), 3), round(float(rng.uniform(-0.3, 0.3)), 3) or 0.1]
        else:
            func = str(int(rng.integers(1, 5)))
            if func == "1":
                params = ["1", round(float(rng.uniform(-0.3, 0.8)), 3), round(float(rng.uniform(-0.3, 0.8)), 3)]
            elif func == "2":
                params = ["2", round(float(rng.uniform(0.1, 0.9)), 3), round(float(rng.uniform(0.05, 0.3)), 3)]
            elif func == "3":
                params = ["3", float(rng.choice([60.0, 90.0, 120.0, 150.0])), round(float(rng.uniform(0.05, 0.3)), 3)]
            else:
                params = ["4", round(float(rng.uniform(-0.5, 0.8)), 3), round(float(rng.uniform(-0.5, 0.8)), 3), round(float(rng.uniform(-3, 3)), 3)]
        res["names"].append(site)
        res["atypes"].append("VS")
        res["vs"].append([sec, [site] + frm, params])
    return res


LARGE_NAMES = ["%s%d" % (c, i) for c in "LMN" for i in range(1, 10)]      # 27 further atom names for large residues


def large_residue(rng, resname, sizes=(16, 17, 20, 24)):
    """a connected residue of >= 16 atoms with pairwise distinct names (chain with branches or random tree; bonds only, so that any
    geometry is feasible): the size class in which a key function that looks at the number of atoms could change its mind"""
    n = int(rng.choice(list(sizes)))
    names = [str(x) for x in rng.permutation(NAMES + LARGE_NAMES)[:n]]
    if rng.random() < 0.5:
        back = max(2, (2 * n) // 3)
        edges = [(i - 1, i) for i in range(1, back)] + [(int(rng.integers(0, back)), i) for i in range(back, n)]
    else:
        edges = [(int(rng.integers(max(0, i - 4), i)), i) for i in range(1, n)]
    bonds = [[names[a], names[b], round(float(rng.uniform(0.25, 0.4)), 3)] for a, b in edges]
    return {"resname": resname, "names": names, "atypes": ["P"] * n, "bonds": bonds, "constraints": [], "angles": [], "impropers": [], "vs": []}


VS_ONLY_KINDS = [("virtual_sites2", "1", 2), ("virtual_sites3", "1", 3), ("virtual_sites3", "2", 3), ("virtual_sites3", "3", 3), ("virtual_sites3", "4", 3),
                 ("virtual_sites4", "2", 4), ("virtual_sitesn", "1", 3), ("virtual_sitesn", "1", 1)]


def vs_only_residue(rng, resname, kind=None):
    """a residue with NO bond, constraint, angle or improper of its own: k real atoms (names Q1..) and one virtual site (W1) constructed
    from all of them - every kind of construct_vs, incl. a site stacked on a single bead; three-atom residues sometimes carry a
    [ settles ] line (rigid water).  The minimiser has nothing to do for it; the site must be constructed all the same."""
    sec, func, k = VS_ONLY_KINDS[int(rng.integers(0, len(VS_ONLY_KINDS))) if kind is None else kind]
    names = ["Q%d" % (i + 1) for i in range(k)]
    frm = [names[i] for i in rng.permutation(k)]
    if sec == "virtual_sites2":
        params = ["1", round(float(rng.uniform(-0.5, 1.5)), 3)]
    elif sec == "virtual_sitesn":
        params = ["1"]
    elif sec == "virtual_sites4":
        params = ["2", round(float(rng.uniform(0.3, 1.2)), 3), round(float(rng.uniform(0.3, 1.2)), 3), round(float(rng.uniform(0.1, 0.3)), 3)]
    elif func == "1":
        params = ["1", round(float(rng.uniform(-0.3, 0.8)), 3), round(float(rng.uniform(-0.3, 0.8)), 3)]
    elif func == "2":
        params = ["2", round(float(rng.uniform(0.1, 0.9)), 3), round(float(rng.uniform(0.05, 0.3)), 3)]
    elif func == "3":
        params = ["3", float(rng.choice([60.0, 90.0, 120.0, 150.0])), round(float(rng.uniform(0.05, 0.3)), 3)]
    else:
        params = ["4", round(float(rng.uniform(-0.5, 0.8)), 3), round(float(rng.uniform(-0.5, 0.8)), 3), round(float(rng.uniform(-3, 3)), 3)]
    res = {"resname": resname, "names": names + ["W1"], "atypes": ["P"] * k + ["VS"], "bonds": [], "constraints": [], "angles": [], "impropers": [],
           "vs": [[sec, ["W1"] + frm, params]]}
    if k == 3 and rng.random() < 0.5:
        res["settles"] = [names[0], 0.1, 0.16]
    return res


def template_size(coords, radii, near=1e-9):
    """size of a residue from the template a molecule holds, written down independently of the code: the radius of gyration of the
    atoms pushed outwards from the centre of geometry by their own radius (sigma of the self-interaction); an atom on the centre
    stays there; if all do, the largest radius.  -> (size, conclusive): the rule is discontinuous for an atom ON the centre, so a
    template of several atoms with one of them closer than `near` to the centre gives no verdict."""
    x = np.array([np.asarray(v, float) for v in coords])
    r = np.asarray(radii, float)
    d = x - x.mean(axis=0)
    nrm = np.linalg.norm(d, axis=1)
    conclusive = len(x) == 1 or not bool(np.any(nrm < near))
    out = np.zeros_like(d)
    far = nrm > 1e-18
    out[far] = d[far] + d[far] / nrm[far, None] * r[far, None]
    if not np.any(out):
        return float(r.max()), conclusive
    return float(np.sqrt(((out - out.mean(axis=0)) ** 2).sum(axis=1).mean())), conclusive


def molecule_from_residues(name, residues, tree_edges, rng=None):
    """moltype description from residue definitions (list, one per residue node, resid = index + 1) and residue-level edges
    [(r, s), ...] (0-based); each residue edge becomes one bond between a real (non virtual-site) atom of each side."""
    atoms, bonds, cons, angles, imps, vs, settles = [], [], [], [], [], [], []
    first = []
    for r, res in enumerate(residues):
        first.append(len(atoms) + 1)
        idx = {n: len(atoms) + 1 + i for i, n in enumerate(res["names"])}
        for n, t in zip(res["names"], res["atypes"]):
            atoms.append([n, r + 1, res["resname"], t, 0.0 if t == "VS" else 72.0])
        bonds += [[idx[a], idx[b], l] for a, b, l in res["bonds"]]
        cons += [[idx[a], idx[b], l] for a, b, l in res["constraints"]]
        angles += [[idx[a], idx[b], idx[k], v] for a, b, k, v in res["angles"]]
        imps += [[idx[a], idx[b], idx[k], idx[l], v] for a, b, k, l, v in res["impropers"]]
        vs += [[sec, [idx[a] for a in at], list(params)] for sec, at, params in res["vs"]]
        if res.get("settles"):
            settles.append([idx[res["settles"][0]], res["settles"][1], res["settles"][2]])
    for r, s in tree_edges:
        def pick(q):
            real = [i for i, t in enumerate(residues[q]["atypes"]) if t != "VS"]
            k = real[int(rng.integers(0, len(real)))] if rng is not None else real[0]
            return first[q] + k
        bonds.append([pick(r), pick(s), 0.35])
    return {"name": name, "atoms": atoms, "bonds": bonds, "constraints": cons, "angles": angles, "impropers": imps, "vs": vs, "settles": settles}


ATOMTYPES = {"P": 0.3, "VS": 0.0}
