"""Shared machinery of the C01 / C14 checks (spec/FFMap.tla).

Python here only: renders abstract force fields / residue graphs (exported by TLC or drawn by the seeded drivers) into real
`.ff` / polyply `.itp` / `.json` files, runs the real polyply code, projects real objects to the abstract state, compares with
what TLC exported, records (input, observed) documents for the trace specification FFTrace.tla.  No rule of the property is
re-implemented here: expected molecules, expected exclusion sets and graph distances come out of TLC.
"""
import json
import os
import random
import signal
import sys
import traceback
from pathlib import Path

from . import common as c

CASE_TIMEOUT = 20          # seconds; a case normally takes milliseconds
NATOMS = {"bonds": 2, "constraints": 2, "pairs": 2, "pairs_nb": 2, "angles": 3, "dihedrals": 4, "impropers": 4, "cmap": 5,
          "virtual_sites2": 3, "virtual_sites3": 4, "virtual_sites4": 5, "settles": 1, "position_restraints": 1,
          "distance_restraints": 2, "dihedral_restraints": 4, "orientation_restraints": 2, "angle_restraints": 4,
          "angle_restraints_z": 2, "polarization": 2, "thole_polarization": 4, "water_polarization": 5}
SYMMETRIC2 = {"bonds", "constraints", "pairs", "pairs_nb"}
REVERSIBLE = {"angles", "dihedrals"}


class CaseTimeout(Exception):
    pass


class ReaderUnknown(Exception):
    """the small .itp reader met a section it has no atom count for"""


def _alarm(signum, frame):
    raise CaseTimeout()


class time_limit:
    def __init__(self, seconds):
        self.seconds = seconds

    def __enter__(self):
        self.old = signal.signal(signal.SIGALRM, _alarm)
        signal.setitimer(signal.ITIMER_REAL, self.seconds)

    def __exit__(self, *a):
        signal.setitimer(signal.ITIMER_REAL, 0)
        signal.signal(signal.SIGALRM, self.old)
        return False


# --------------------------------------------------------------------------- rendering

def _group_sections(inters):
    order, by = [], {}
    for x in inters:
        if x["sec"] not in by:
            by[x["sec"]] = []
            order.append(x["sec"])
        by[x["sec"]].append(x)
    return [(s, by[s]) for s in order]


def _meta(x):
    v = x.get("ver", "i1")
    if v.startswith("s"):
        return ' {"version": "%s"}' % v[1:]
    return ""


def block_text(b, fmt):
    """one [ moleculetype ] in .ff syntax (atoms referenced by name) or polyply .itp syntax (by 1-based index)"""
    out = ["[ moleculetype ]", "%s %d" % (b["name"], b["nrexcl"]), "[ atoms ]"]
    for i, a in enumerate(b["atoms"]):
        out.append("%d %s %d %s %s %d %s %s" % (i + 1, a["ty"], a["res"], a["rn"], a["an"], a["cg"], a["q"], a["m"]))
    for sec, lst in _group_sections(b["inters"]):
        out.append("[ %s ]" % sec)
        for x in lst:
            if fmt == "ff":
                ref = [b["atoms"][k - 1]["an"] for k in x["at"]]
            else:
                ref = [str(k) for k in x["at"]]
            out.append((" ".join(ref) + " " + " ".join(x["par"])).rstrip() + (_meta(x) if fmt == "ff" else ""))
    return "\n".join(out) + "\n"


def names_unique(b):
    n = [a["an"] for a in b["atoms"]]
    return len(n) == len(set(n))


def link_text(l):
    if l["kind"] == "explicit":      # applied to the atoms with these numbers, whatever the residues are
        return "\n".join(["[ link ]", "[ molmeta ]", "by_atom_id true", "[ %s ]" % l["sec"],
                          ("%d %d %s" % (l["ex"][0], l["ex"][1], " ".join(l["par"]))).rstrip()]) + "\n"
    rn = '"%s"' % "|".join(l["rns"])
    out = ["[ link ]", "resname %s" % rn]
    if l["kind"] == "bond":
        pre = "+" if l["ord"] == "+" else ">"
        out += ["[ %s ]" % l["sec"], ("%s %s%s %s" % (l["a"], pre, l["b"], " ".join(l["par"]))).rstrip()]
        if l.get("xb"):
            out += ["[ exclusions ]", "%s %s%s" % (l["a"], pre, l["xb"])]
    elif l["kind"] == "remove":
        out += ["[ atoms ]", '%s {"replace": {"atomname": null}}' % l["a"]]
    else:
        out += ["[ atoms ]", '%s {"replace": {"atype": "%s", "charge": %s}}' % (l["a"], l["par"][0], l["par"][1])]
    return "\n".join(out) + "\n"


def mod_text(m):
    out = ["[ modification ]", m["name"], "[ atoms ]"]
    for a in m["atoms"]:
        if a["rep"]:
            out.append('%s {"replace": {"atype": "%s", "charge": %s}}' % (a["an"], a["ty"], a["q"]))
        else:
            out.append("%s {}" % a["an"])
    for sec, lst in _group_sections(m["inters"]):
        out.append("[ %s ]" % sec)
        for x in lst:
            out.append("%s %s %s" % (x["a"], x["b"], " ".join(x["par"])))
    return "\n".join(out) + "\n"


def can_render(ff, fmt):
    """polyply .itp blocks turn every section into edges and cannot carry version tags: exclusions sections of mixed-distance
    force fields and tagged entries are given in .ff syntax only (DESIGN 4.14 domain)"""
    if fmt == "ff":
        return True
    for b in ff["blocks"]:
        for x in b["inters"]:
            if x.get("ver", "i1") != "i1":
                return False
    return True


def render_ff(ff, fmt, wd, tag="ff", itp_first=False, trailing_itp=False):
    """write the abstract force field as real files; returns the list of paths (blocks, multi-residue blocks, mods, links).
    itp_first: the polyply .itp file of the multi-residue blocks is listed before the other block file;
    trailing_itp: an unrelated one-atom block in polyply .itp syntax is read last."""
    wd = Path(wd)
    wd.mkdir(parents=True, exist_ok=True)
    paths = []
    single = [b for b in ff["blocks"] if names_unique(b)]
    multi = [b for b in ff["blocks"] if not names_unique(b)]
    # F33 (repaired ff3a967): finishing a polyply .itp file used to turn every section of every block already in the force
    # field into edges, also of blocks read from an earlier .ff file - the order of the files is therefore varied
    bl = []
    if multi:      # atom names repeat across the residues of a multi-residue block: only the index syntax can express it
        p = wd / ("%s_multi.itp" % tag)
        p.write_text("\n".join(block_text(b, "itp") for b in multi))
        bl.append(p)
    if single:
        p = wd / ("%s_blocks.%s" % (tag, "ff" if fmt == "ff" else "itp"))
        p.write_text("\n".join(block_text(b, fmt) for b in single))
        bl.append(p)
    paths += bl if itp_first else bl[::-1]
    if ff.get("mods"):
        p = wd / ("%s_mods.ff" % tag)
        p.write_text("\n".join(mod_text(m) for m in ff["mods"]))
        paths.append(p)
    if ff.get("links"):
        p = wd / ("%s_links.ff" % tag)
        p.write_text("\n".join(link_text(l) for l in ff["links"]))
        paths.append(p)
    if trailing_itp:
        p = wd / ("%s_unrelated.itp" % tag)
        p.write_text("[ moleculetype ]\nZZ9 1\n[ atoms ]\n1 TZ 1 ZZ9 z1 1 0.0 1.0\n")
        paths.append(p)
    return paths


def graph_layout(inp, rng):
    """node keys, insertion order and edge order/orientation are not part of the abstraction: draw them"""
    n = inp["n"]
    keys = rng.sample(range(0 if rng.random() < 0.5 else 1, 3 * n + 3), n)
    order = list(range(n))
    rng.shuffle(order)
    edges = [tuple(e) for e in inp["edges"]]
    rng.shuffle(edges)
    edges = [(a, b) if rng.random() < 0.5 else (b, a) for a, b in edges]
    extra = {}
    if rng.random() < 0.5:
        for pos in range(n):
            if rng.random() < 0.6:
                extra[str(pos)] = rng.choice([{"charge": 9.75}, {"mass": 999.0, "chiral": "R"}, {"atype": "ZZ9", "charge_group": 77}, {"chiral": "S"}])
    return {"keys": keys, "order": order, "edges": edges, "extra": extra}


def node_attrs(inp, pos):
    d = {"resname": inp["rn"][pos], "resid": inp["start"] + pos}
    if inp["fi"][pos]:
        d["from_itp"] = inp["fi"][pos]
    return d


def extra_attrs(lay, pos):
    """attributes a sequence file may give a residue node (gen_seq -label ...); they belong to the residue node and its
    'graph' fragment, never to the atoms of the molecule - also when their names collide with atom attributes"""
    return dict(lay.get("extra", {}).get(str(pos), {}))


def build_graph(inp, lay):
    import networkx as nx
    g = nx.Graph()
    for pos in lay["order"]:
        g.add_node(lay["keys"][pos], **node_attrs(inp, pos), **extra_attrs(lay, pos))
    for a, b in lay["edges"]:
        g.add_edge(lay["keys"][a - 1], lay["keys"][b - 1])
    return g


def write_json_graph(inp, lay, path):
    nodes = [dict(id=lay["keys"][pos], **node_attrs(inp, pos), **extra_attrs(lay, pos)) for pos in lay["order"]]
    edges = [{"source": lay["keys"][a - 1], "target": lay["keys"][b - 1]} for a, b in lay["edges"]]
    Path(path).write_text(json.dumps({"directed": False, "multigraph": False, "graph": {}, "nodes": nodes, "edges": edges}))


def mods_arg(inp):
    """-mods selection as the command line passes it: [[<resname><resid>, <modification>], ...]"""
    return [["%s%d" % (inp["rn"][s["pos"] - 1], inp["start"] + s["pos"] - 1), s["mod"]] for s in inp["sel"]]


# --------------------------------------------------------------------------- projection

def fnum(x):
    if x is None:
        return "-"
    try:
        return repr(float(x))
    except (TypeError, ValueError):
        return str(x)


def ver_of(meta):
    v = (meta or {}).get("version", None)
    if v is None:
        return "i1"
    return ("s%s" % v) if isinstance(v, str) else ("i%s" % v)


def project_mol(mol):
    """vermouth Molecule -> abstract molecule (1-based atom positions in node order)"""
    idx = {n: i + 1 for i, n in enumerate(mol.nodes)}
    atoms = []
    for n in mol.nodes:
        d = mol.nodes[n]
        atoms.append({"an": d.get("atomname"), "ty": d.get("atype"), "q": fnum(d.get("charge")), "m": fnum(d.get("mass")),
                      "rn": d.get("resname"), "cg": d.get("charge_group"), "resid": d.get("resid")})
    inters = []
    for sec, lst in mol.interactions.items():
        for x in lst:
            inters.append({"sec": sec, "at": [idx.get(a, 0) for a in x.atoms], "par": [str(p) for p in x.parameters], "ver": ver_of(x.meta)})
    return {"atoms": atoms, "inters": inters, "nrexcl": mol.nrexcl, "_idx": idx}


def project_meta(mm, proj):
    """residue (by residue-id order) -> sorted atom positions of its 'graph' attribute"""
    idx = proj["_idx"]
    nodes = sorted(mm.nodes, key=lambda n: mm.nodes[n]["resid"])
    out = []
    for n in nodes:
        g = mm.nodes[n].get("graph")
        out.append(sorted(idx.get(a, 0) for a in g.nodes) if g is not None else None)
    return out


def read_itp(path):
    """small reader for the .itp gen_params writes: moleculetype, atoms table, every interaction section"""
    sec = None
    atoms, inters = [], []
    nrexcl = None
    name = None
    for raw in Path(path).read_text().splitlines():
        line = raw.split(";")[0].strip()
        if not line or line.startswith("#"):
            continue
        if line.startswith("["):
            sec = line.strip("[] \t")
            continue
        tok = line.split()
        if sec == "moleculetype":
            name, nrexcl = tok[0], int(tok[1])
        elif sec == "atoms":
            atoms.append({"an": tok[4], "ty": tok[1], "q": fnum(tok[6]) if len(tok) > 6 else "-", "m": fnum(tok[7]) if len(tok) > 7 else "-",
                          "rn": tok[3], "cg": int(tok[5]), "resid": int(tok[2]), "_id": int(tok[0])})
        elif sec == "exclusions":
            inters.append({"sec": sec, "at": [int(t) for t in tok], "par": [], "ver": "i1"})
        elif sec == "virtual_sitesn":
            inters.append({"sec": sec, "at": [int(tok[0])] + [int(t) for t in tok[2:]], "par": [tok[1]], "ver": "i1"})
        elif sec in NATOMS:
            k = NATOMS[sec]
            inters.append({"sec": sec, "at": [int(t) for t in tok[:k]], "par": tok[k:], "ver": "i1"})
        else:
            raise ReaderUnknown("section %s" % sec)
    for i, a in enumerate(atoms):
        if a.pop("_id") != i + 1:
            raise c.MachineryError("itp reader: atom ids not consecutive in %s" % path)
    return {"name": name, "atoms": atoms, "inters": inters, "nrexcl": nrexcl}


# --------------------------------------------------------------------------- comparison (modulo what the writer canonicalises)

def canon_inter(x, with_ver=True, itp=False):
    at = list(x["at"])
    sec = x["sec"]
    if itp and sec == "impropers":      # the .itp writer lists improper dihedrals under [ dihedrals ]
        sec = "dihedrals"
    if sec in SYMMETRIC2 or (sec == "exclusions" and len(at) == 2):
        at = sorted(at)
    elif sec in REVERSIBLE and at[::-1] < at:
        at = at[::-1]
    return (sec, tuple(at), tuple(x["par"]), x.get("ver", "i1") if with_ver else "")


def inter_bag(inters, with_ver=True, itp=False):
    return sorted(canon_inter(x, with_ver, itp) for x in inters)


def atoms_key(atoms, with_mass=True):
    return [(a["an"], a["ty"], a["q"], a["m"] if with_mass else "", a["rn"], a["cg"], a["resid"]) for a in atoms]


def diff_mol(exp, obs, with_ver=True, gattr=True, what="molecule", itp=False):
    """None if the observed abstract molecule equals the expected one, else a short description of the first difference"""
    ea, oa = atoms_key(exp["atoms"]), atoms_key(obs["atoms"])
    if ea != oa:
        if len(ea) != len(oa):
            return "%s: %d atoms, expected %d" % (what, len(oa), len(ea))
        for i, (x, y) in enumerate(zip(ea, oa)):
            if x != y:
                return "%s: atom %d is %s, expected %s" % (what, i + 1, y, x)
    eb, ob = inter_bag(exp["inters"], with_ver, itp), inter_bag(obs["inters"], with_ver, itp)
    if eb != ob:
        miss = [x for x in eb if eb.count(x) > ob.count(x)]
        extra = [x for x in ob if ob.count(x) > eb.count(x)]
        return "%s: interactions differ; missing %s, unexpected %s" % (what, miss[:3], extra[:3])
    if gattr and "gattr" in exp and obs.get("gattr") is not None:
        eg = [sorted(g) for g in exp["gattr"]]
        if eg != obs["gattr"]:
            return "%s: residue->atoms map is %s, expected %s" % (what, obs["gattr"], eg)
    return None


# --------------------------------------------------------------------------- running the real code

def describe_exc(exc):
    tb = traceback.extract_tb(exc.__traceback__)
    site = ""
    for fr in reversed(tb):
        if "polyply" in fr.filename or "vermouth" in fr.filename:
            site = "%s:%s" % (Path(fr.filename).name, fr.name)
            break
    return {"type": type(exc).__name__, "msg": str(exc)[:300], "site": site}


def run_processors(paths, inp, lay, record_apps=False):
    """load_ff_library + MetaMolecule + MapToMolecule + ApplyLinks + ApplyModifications on one input.
    Returns {"base":..., "final":..., "exc": {...stage...}}; never raises for errors of the code under test.
    A run that does not return within CASE_TIMEOUT is repeated once with three times the limit (the machine may be
    overloaded); only a second time-out is reported as a hang."""
    res = _run_processors(paths, inp, lay, CASE_TIMEOUT)
    if res.get("exc", {}).get("type") == "HANG":
        res = _run_processors(paths, inp, lay, 3 * CASE_TIMEOUT)
    return res


def _run_processors(paths, inp, lay, limit):
    from polyply.src.load_library import load_ff_library
    from polyply import MetaMolecule, MapToMolecule, ApplyLinks
    from polyply.src.apply_modifications import ApplyModifications
    res = {}
    stage = "load"
    try:
        with time_limit(limit):
            stage = "load"
            ff = load_ff_library("t", None, [Path(p) for p in paths])
            stage = "history"
            for names in inp.get("hist", []):
                # earlier molecules built from the SAME force-field object in this process (chains of the named residues)
                import networkx as nx
                hg = nx.Graph()
                for i, nm in enumerate(names):
                    hg.add_node(i, resname=nm, resid=i + 1)
                hg.add_edges_from((i, i + 1) for i in range(len(names) - 1))
                hm = MetaMolecule(hg, force_field=ff, mol_name="h")
                MapToMolecule(ff).run_molecule(hm)
                ApplyLinks().run_molecule(hm)
            stage = "graph"
            mm = MetaMolecule(build_graph(inp, lay), force_field=ff, mol_name="t")
            stage = "map"
            MapToMolecule(ff).run_molecule(mm)
            p = project_mol(mm.molecule)
            p["gattr"] = project_meta(mm, p)
            p.pop("_idx")
            res["base"] = p
            stage = "links"
            al = ApplyLinks()
            al.run_molecule(mm)
            stage = "mods"
            ApplyModifications(modifications=mods_arg(inp), meta_molecule=mm).run_molecule(mm)
            p = project_mol(mm.molecule)
            p["gattr"] = project_meta(mm, p)
            p.pop("_idx")
            res["final"] = p
    except CaseTimeout:
        res = {"exc": {"stage": stage, "type": "HANG", "msg": "no return within %d s" % limit, "site": ""}}
    except Exception as exc:  # the code under test must not raise on in-domain inputs: reported by the caller
        d = describe_exc(exc)
        d["stage"] = stage
        res["exc"] = d
    return res


def run_gen_params(paths, inp, lay, wd, name="t"):
    """the real entry point: sequence .json file in, .itp file out, read back with the small reader"""
    res = _run_gen_params(paths, inp, lay, wd, name, CASE_TIMEOUT)
    if res.get("exc", {}).get("type") == "HANG":
        res = _run_gen_params(paths, inp, lay, wd, name, 3 * CASE_TIMEOUT)
    return res


def _run_gen_params(paths, inp, lay, wd, name, limit):
    from polyply.src.gen_itp import gen_params
    wd = Path(wd)
    seqf = wd / "seq.json"
    out = wd / "out.itp"
    if out.exists():
        out.unlink()
    write_json_graph(inp, lay, seqf)
    res = {}
    argv = sys.argv
    try:
        with time_limit(limit):
            sys.argv = ["polyply", "gen_params"]
            gen_params(name=name, outpath=out, inpath=[Path(p) for p in paths], lib=None, seq=None, seq_file=seqf, mods=mods_arg(inp))
        res["final"] = read_itp(out)
    except CaseTimeout:
        res["exc"] = {"stage": "gen_params", "type": "HANG", "msg": "no return within %d s" % limit, "site": ""}
    except c.MachineryError:
        raise
    except Exception as exc:
        d = describe_exc(exc)
        d["stage"] = "gen_params"
        res["exc"] = d
    finally:
        sys.argv = argv
    return res


# --------------------------------------------------------------------------- TLC export helpers

def case_key(inp):
    return json.dumps([inp["ff"], inp["n"], inp["start"], inp["rn"], inp["fi"], sorted(map(tuple, inp["edges"])), inp["sel"], inp.get("hist", [])],
                      sort_keys=True)


def norm_case(case):
    """TLC's JSON: empty sequences / sets may come out as [] or {}; normalise the few places that matter"""
    inp = case["inp"]
    for k in ("edges", "sel", "rn", "fi", "hist"):
        if isinstance(inp.get(k), dict):
            inp[k] = [inp[k][str(i + 1)] for i in range(len(inp[k]))]
    inp["edges"] = [list(e) for e in inp["edges"]]
    return case


def ffs_of(res):
    t = res.tagged("FFS")
    if not t:
        raise c.MachineryError("%s exported no force-field catalogue" % res.module)
    ffs = t[0]
    if isinstance(ffs, dict):
        ffs = [ffs[str(i + 1)] for i in range(len(ffs))]
    for ff in ffs:
        for k in ("links", "mods"):
            if isinstance(ff.get(k), dict):
                ff[k] = list(ff[k].values())
        for b in ff["blocks"]:
            for x in b["inters"]:
                x["par"] = list(x["par"]) if not isinstance(x["par"], dict) else []
    return ffs


# --------------------------------------------------------------------------- attribution of a deviation to an open finding

# open (unrepaired) findings that FFMap models as deviation flags of DevAsIs; with none open the as-is runs are skipped and
# every deviation from the P-layer is a violation.  To list one again: add its sig here, its error kind to ERR_FINDING, its
# flag to DevAsIs in spec/FFMap.tla and a known_findings.d entry.
OPEN = {"C01": [], "C14": ["retag-lowered"]}       # per property; retag-lowered only shows on histories (inp["hist"]) of one force-field object
ERR_FINDING = {}
PRIORITY = ["retag-lowered"]


def attribute(fired, err=""):
    """which open finding a behaviour of the I-layer with the open deviations on is attributed to: the one whose error it
    is, else the only one that changed the behaviour, else the first in a fixed order"""
    fired = list(fired)
    if err and ERR_FINDING.get(err) in fired:
        return ERR_FINDING[err]
    for f in PRIORITY:
        if f in fired:
            return f
    return fired[0] if fired else None
