"""X07 - pytest plugin: the repository's own tests as a source of records for the parameter-generation and topology-reading side.

Loaded with   -p harness.pytest_trace_plugin_params   (PYTHONPATH=/verif:<repo>), output directory in X07_OUT.
Nothing in /repo is edited: everything is interposition on public methods from here.  The projections are the ones of the existing
I->S paths (harness/ffmap_trace.py + ffmap_util.py for C01 / C14, harness/links_util.py for C02 / C10, harness/drivers/c08.py for
C08, harness/drivers/c09.py for C09); nothing of a property is decided here - the verdicts come from TLC in harness/drivers/x07.py.

For every test (set-up, call and tear-down phases together) one record per COMPLETE unit of behaviour:
  map    every MapToMolecule.run_molecule call: residue graph (ffmap_trace.project_graph), the blocks it names (project_block, taken
         before the call), the molecule after the call (ffmap_util.project_mol / project_meta, plus the atom edges); if the same
         meta-molecule then goes through ApplyLinks.run_molecule and ApplyModifications.run_molecule (gen_params), the observed link
         applications (ffmap_trace.Recorder) and the final molecule are attached - exactly the record the library route of C01 makes.
         Validated by spec/FFTraceX07.tla (= FFTrace + the domain verdict, the atom edges, the exclusion distance / exclude tags).
  links  every ApplyLinks.run_molecule call: abstract case (links_util.project_ff on the force field of the meta-molecule, residue
         graph with labels), every attempt seen by links_util.Recorder, the projected molecule after the call, the missing residue
         links before and after.  Validated by spec/LinksTrace.tla.
  top    every top-level Topology.from_gmx_topfile call: the include tree lexed into abstract lines (c08.lex_tree) and the projection
         of the returned object (c08.make_project_real), or the abort kind (c08.classify_exception).  Validated by TopReadTrace.
         A top-level top_parser.read_topology call on a LIST OF LINES and a fresh Topology (test_top_parser, most fixtures) is the
         reader's behaviour on a main file with these lines: written to a scratch file under X07_OUT, lexed and judged the same way.
  pre    every top-level Topology.preprocess call: abstract input (c09.abstract_from_topology, before the call) and the observed
         result (c09.observe).  A top-level gen_bonded_interactions call on a topology without valued macros is the bonded half
         alone (kind "bonded").  Validated by TypeResolveTrace.
Calls that are pieces of these behaviours (apply_link_between_residues, apply_explicit_link, gen_pairs, replace_defines,
convert_nonbond_to_sig_eps, ApplyModifications.run_molecule on a molecule that was not mapped in the test) are counted.
Inputs that an abstraction cannot express are marked "outside" with the reason (never dropped); further domain predicates are
evaluated by TLC (FFMap.DomOK, Links.InDomain / NoTies / Stable, TopRead.InDomain, TypeResolve.InDomain / InDomainNB).
Large payloads are written once per process and referred to by hash:  $X07_OUT/records-<pid>.ndjson.
"""
import functools
import hashlib
import json
import os

import pytest

OUT = os.environ.get("X07_OUT")
MAX_ATOMS = int(os.environ.get("X07_MAX_ATOMS", "400"))       # as the library route of C01 (TLC time grows with the molecule)

CUR = None
_IN = {"map": 0, "links": 0, "top": 0, "pre": 0, "bonded": 0, "plugin": 0}
_INSTALLED = []
_SEEN = set()
_TREES = {}          # resolved main path, mtime, size -> lexed tree (or the reason it is outside the domain)


class TestState:
    __test__ = False           # not a test class (pytest collects names starting with Test from plugins it imports as modules only)

    def __init__(self, nodeid):
        self.nodeid = nodeid
        self.recs = []
        self.maps = []              # open map records: may still receive link applications / the final molecule
        self.active_rr = None       # dictionary the ffmap_trace.Recorder wrapper of apply_link_between_residues writes to
        self.pieces = {}
        self.outcome = {}
        self.preprocessed = []      # topology objects that went through preprocess / gen_bonded_interactions already

    def piece(self, name):
        self.pieces[name] = self.pieces.get(name, 0) + 1


def _patch(obj, name, new):
    old = obj.__dict__[name] if isinstance(obj, type) else getattr(obj, name)
    _INSTALLED.append((obj, name, old))
    setattr(obj, name, new)


def _err(exc):
    return "%s: %s" % (type(exc).__name__, str(exc)[:300])


# ----------------------------------------------------------------------------- installation

def install():
    if _INSTALLED:
        return
    import networkx as nx
    from polyply.src import map_to_molecule as m2m, apply_links as al, apply_modifications as am, topology as tp, top_parser as tpp
    from polyply.src.graph_utils import find_missing_edges
    from . import common as c
    from . import ffmap_trace as ft, ffmap_util as fu, links_util as lu
    from .drivers import c08, c09

    p_map = m2m.MapToMolecule.__dict__["run_molecule"]
    p_links = al.ApplyLinks.__dict__["run_molecule"]
    p_mods = am.ApplyModifications.__dict__["run_molecule"]
    p_apply = al.ApplyLinks.__dict__["apply_link_between_residues"]

    # ------------------------------------------------------------------ C01-style observation of link applications
    # ffmap_trace.Recorder's wrapper of apply_link_between_residues is reused as it is; a shim under it tells an exception of the
    # code under test from a failure of the projection (which must never change what the test sees)
    shim_state = {}

    @functools.wraps(p_apply)
    def shim(self, meta_molecule, link, link_to_resid):
        shim_state["done"] = False
        out = p_apply(self, meta_molecule, link, link_to_resid)
        shim_state["done"], shim_state["out"] = True, out
        return out
    al.ApplyLinks.apply_link_between_residues = shim
    frec = ft.Recorder()
    frec.install()                       # captures shim (and the pristine run_molecule methods, which are put back right away)
    f_apply = al.ApplyLinks.__dict__["apply_link_between_residues"]
    m2m.MapToMolecule.run_molecule = p_map
    al.ApplyLinks.run_molecule = p_links
    am.ApplyModifications.run_molecule = p_mods
    al.ApplyLinks.apply_link_between_residues = p_apply

    @functools.wraps(p_apply)
    def apply_link_between_residues(self, meta_molecule, link, link_to_resid):
        T = CUR
        if T is None or T.active_rr is None:
            if T is not None and not _IN["links"]:
                T.piece("apply_link_between_residues")
            return p_apply(self, meta_molecule, link, link_to_resid)
        frec.rec = T.active_rr
        shim_state["done"] = False
        try:
            return f_apply(self, meta_molecule, link, link_to_resid)
        except al.MatchError:
            raise
        except Exception as exc:
            if not shim_state.get("done"):
                raise                                    # raised by the code under test
            T.active_rr["unsupported"].append("projection of a link application failed (%s)" % _err(exc))
            return shim_state.get("out")
    _patch(al.ApplyLinks, "apply_link_between_residues", apply_link_between_residues)

    # ------------------------------------------------------------------ map
    def project_after(mm):
        p = fu.project_mol(mm.molecule)
        p["gattr"] = fu.project_meta(mm, p)
        idx = p.pop("_idx")
        p["edges"] = sorted(sorted((idx[a], idx[b])) for a, b in mm.molecule.edges)
        p["ex"] = [int(mm.molecule.nodes[n].get("exclude", -1)) for n in mm.molecule.nodes]       # tag_exclusions; -1 = no tag
        return p

    @functools.wraps(p_map)
    def map_run_molecule(self, meta_molecule):
        T = CUR
        if T is None or _IN["map"] or _IN["plugin"]:
            return p_map(self, meta_molecule)
        ent = {"kind": "map", "mm": meta_molecule, "rr": {"apps": [], "unsupported": []}, "links_ran": False, "mods_ran": False}
        try:
            ff = self.force_field
            g = ft.project_graph(meta_molecule)
            names = []
            for rn, fi in zip(g["rn"], g["fi"]):
                nm = fi or rn
                if nm not in names:
                    names.append(nm)
            ent["graph"] = g
            ent["missing_blocks"] = [nm for nm in names if nm not in ff.blocks]
            ent["blocks"] = [ft.project_block(ff.blocks[nm], ff.blocks[nm].nrexcl) for nm in names if nm in ff.blocks]
            ent["has_mods"] = bool(ff.modifications)
        except Exception as exc:
            ent["unprojectable"] = "input: " + _err(exc)
        _IN["map"] += 1
        try:
            out = p_map(self, meta_molecule)
        except BaseException as exc:
            d = fu.describe_exc(exc) if isinstance(exc, Exception) else {"type": type(exc).__name__, "msg": "", "site": ""}
            d["stage"] = "map"
            ent["exc"] = d
            T.maps.append(ent)
            ent["closed"] = True
            raise
        finally:
            _IN["map"] -= 1
        try:
            ent["base"] = project_after(meta_molecule)
        except Exception as exc:
            ent["unprojectable"] = "result: " + _err(exc)
        T.maps.append(ent)
        return out
    _patch(m2m.MapToMolecule, "run_molecule", map_run_molecule)

    def open_map_of(T, mm):
        for ent in reversed(T.maps):
            if ent["mm"] is mm and not ent.get("closed"):
                return ent
        return None

    # ------------------------------------------------------------------ links
    def links_input(mm):
        """abstract case of Links.tla for this meta-molecule (the way links_util.library_record makes it); ValueError = not expressible"""
        ff = mm.force_field
        nodes = sorted(mm.nodes, key=lambda n: mm.nodes[n]["resid"])
        resid = [mm.nodes[n]["resid"] for n in nodes]
        if len(set(resid)) != len(resid):
            raise ValueError("residue ids are not unique")
        pos = {n: i for i, n in enumerate(nodes)}
        rattr = []
        for n in nodes:
            d = {str(k): lu._val(v) for k, v in mm.nodes[n].items() if k not in ("graph", "seqID", "resid")}
            if not isinstance(mm.nodes[n].get("resname"), str):
                raise ValueError("residue without a residue name")
            if "from_itp" in d:
                raise ValueError("from_itp fragment (multi-residue block)")
            rattr.append(d)
        names = sorted({d["resname"] for d in rattr})
        for nm in names:
            if nm not in ff.blocks:
                raise ValueError("no block named like residue %s" % nm)
        blocks, links = lu.project_ff(ff, names)
        for l in links:
            for a in l["atoms"]:
                if "atomname" in a["rep"]:
                    raise ValueError("a link renames an atom (replace atomname)")
        if len({b.nrexcl for nm, b in ff.blocks.items() if nm in names}) > 1:
            raise ValueError("blocks with different exclusion distances (generated exclusions: C14)")
        edges = [{"a": pos[a] + 1, "b": pos[b] + 1, "lt": str(d.get("linktype", "") or "")} for a, b, d in mm.edges(data=True)]
        inp = {"n": len(nodes), "resid": resid, "rattr": rattr, "edges": edges, "blocks": blocks, "links": links}
        return inp, pos

    def missing_pairs(mm, inp, check_names):
        res_of = {rid: r + 1 for r, rid in enumerate(inp["resid"])}
        out = []
        for m in find_missing_edges(mm, mm.molecule):
            ra, rb = res_of.get(m["idxA"], 0), res_of.get(m["idxB"], 0)
            ok = ra and rb and (not check_names or (m["resA"] == inp["rattr"][ra - 1]["resname"] and m["resB"] == inp["rattr"][rb - 1]["resname"]))
            out.append(sorted([ra, rb]) if ok else [0, 0])
        return sorted(out)

    @functools.wraps(p_links)
    def links_run_molecule(self, meta_molecule):
        T = CUR
        if T is None or _IN["links"] or _IN["plugin"]:
            return p_links(self, meta_molecule)
        ment = open_map_of(T, meta_molecule)
        lrec = {"kind": "links"}
        inp = pos = None
        try:
            if ment is None or "exc" in ment:
                raise ValueError("the molecule handed to ApplyLinks was not made by MapToMolecule in this test")
            if ment["links_ran"]:
                raise ValueError("ApplyLinks runs a second time on the same molecule")
            if "base" in ment and (len(meta_molecule.molecule) != len(ment["base"]["atoms"])
                                   or sum(len(v) for v in meta_molecule.molecule.interactions.values()) != len(ment["base"]["inters"])):
                raise ValueError("the molecule was changed between MapToMolecule and ApplyLinks")
            inp, pos = links_input(meta_molecule)
            if sum(len(b["atoms"]) for b in (inp["blocks"][d["resname"]] for d in inp["rattr"])) > MAX_ATOMS:
                raise ValueError("more than %d atoms" % MAX_ATOMS)
            lrec["missing0"] = missing_pairs(meta_molecule, inp, False)
        except ValueError as exc:
            lrec["outside"] = str(exc)
            inp = None
        except Exception as exc:
            lrec["unprojectable"] = "input: " + _err(exc)
            inp = None
        rec = None
        if inp is not None:
            try:
                rec = lu.Recorder(list(meta_molecule.force_field.links))
            except Exception as exc:
                lrec["unprojectable"] = "recorder: " + _err(exc)
                inp = None
        if ment is not None and "exc" not in ment and not ment["links_ran"]:
            ment["links_ran"] = True
            T.active_rr = ment["rr"]
        _IN["links"] += 1
        try:
            out = p_links(self, meta_molecule)
        except BaseException as exc:
            d = fu.describe_exc(exc) if isinstance(exc, Exception) else {"type": type(exc).__name__, "msg": "", "site": ""}
            d["stage"] = "links"
            if ment is not None and T.active_rr is not None:
                ment["exc"] = d
                ment["closed"] = True
            if inp is not None:
                lrec["input"] = inp
                lrec["obs"] = {"exception": "%s: %s" % (d["type"], d["msg"]), "ints": [], "edges": [], "removed": [], "calls": [], "attr": [], "missing": []}
            T.recs.append(lrec)
            raise
        finally:
            _IN["links"] -= 1
            T.active_rr = None
            if rec is not None:
                rec.close()
        if ment is not None and ment["links_ran"] and not ment.get("closed"):
            ment["rr"]["links_done"] = True
        if inp is not None:
            try:
                obs = lu.project_molecule(inp, inp["blocks"], meta_molecule.molecule, True, None)
                calls = []
                for li, by_order, how, what in rec.calls:
                    if how == "key":
                        by_order = {o: pos.get(k, -1) for o, k in by_order.items()}
                    calls.append((li, by_order, how, what))
                o = {"exception": "; ".join(obs["problems"][:3]), "ints": obs["ints"], "edges": obs["edges"], "removed": obs["removed"],
                     "calls": lu.canon_calls(calls, inp["links"], inp), "missing": missing_pairs(meta_molecule, inp, True),
                     "missing0": lrec.pop("missing0"),
                     "attr": [{"at": [int(x) for x in k.split(",")], "attrs": v} for k, v in sorted(obs["attr_all"].items())]}
                lrec["input"], lrec["obs"] = inp, o
                lrec["nlinks"] = len(inp["links"])
            except Exception as exc:
                lrec["unprojectable"] = "result: " + _err(exc)
        T.recs.append(lrec)
        return out
    _patch(al.ApplyLinks, "run_molecule", links_run_molecule)

    # ------------------------------------------------------------------ modifications: closes the C01-style record
    @functools.wraps(p_mods)
    def mods_run_molecule(self, meta_molecule):
        T = CUR
        if T is None or _IN["plugin"]:
            return p_mods(self, meta_molecule)
        ment = open_map_of(T, meta_molecule)
        if ment is None or not ment["links_ran"] or ment["mods_ran"]:
            T.piece("ApplyModifications.run_molecule")
            return p_mods(self, meta_molecule)
        ment["mods_ran"] = True
        try:
            out = p_mods(self, meta_molecule)
        except BaseException as exc:
            d = fu.describe_exc(exc) if isinstance(exc, Exception) else {"type": type(exc).__name__, "msg": "", "site": ""}
            d["stage"] = "mods"
            ment["exc"] = d
            ment["closed"] = True
            raise
        try:
            ment["final"] = project_after(meta_molecule)
            ment["mods_applied"] = bool(meta_molecule.molecule.force_field.modifications)
        except Exception as exc:
            ment["unprojectable"] = "final: " + _err(exc)
        ment["closed"] = True
        return out
    _patch(am.ApplyModifications, "run_molecule", mods_run_molecule)

    for name in ("apply_explicit_link",):
        o_func = getattr(al, name)

        def counted(*a, _o=o_func, _n=name, **k):
            T = CUR
            if T is not None and not _IN["links"]:
                T.piece(_n)
            return _o(*a, **k)
        functools.update_wrapper(counted, o_func)
        _patch(al, name, counted)

    # ------------------------------------------------------------------ top
    c09._install()                    # public Topology.gen_pairs keeps the table it generated (C09's own observation point)
    o_top = tp.Topology.__dict__["from_gmx_topfile"].__func__

    def lexed(path):
        from pathlib import Path
        p = Path(path).resolve()
        st = p.stat()
        key = (str(p), st.st_mtime_ns, st.st_size)
        ent = _TREES.get(key)
        if ent is None:
            try:
                root, main, files, vals = c08.lex_tree(p)
                ent = {"tree": {"main": list(main), "files": [{"path": list(q), "lines": ls} for q, ls in files.items()]}, "vals": vals}
            except c08.OutOfDomain as exc:
                ent = {"outside": str(exc)}
            except Exception as exc:      # the isolated reference read of a line / molecule type failed (c08.record_real_files)
                ent = {"outside": "reference read failed (%s)" % _err(exc)[:120]}
            _TREES[key] = ent
        return ent

    def from_gmx_topfile(cls, path, *args, **kwargs):
        T = CUR
        if T is None or _IN["top"] or _IN["plugin"]:
            return o_top(cls, path, *args, **kwargs)
        rec = {"kind": "top", "path": str(path)}
        top = failure = None
        _IN["top"] += 1
        try:
            top = o_top(cls, path, *args, **kwargs)
        except RecursionError:
            raise
        except Exception as exc:
            failure = exc
        finally:
            _IN["top"] -= 1
        _IN["plugin"] += 1
        try:
            ent = lexed(path)
            if "outside" in ent:
                rec["outside"] = ent["outside"]
            elif failure is not None:
                rec["tree"], rec["obs"] = ent["tree"], c08.obs_json(c08.classify_exception(failure))
            else:
                rec["tree"], rec["obs"] = ent["tree"], c08.obs_json(c08.make_project_real(ent["vals"])(top))
        except Exception as exc:
            rec["unprojectable"] = _err(exc)
        finally:
            _IN["plugin"] -= 1
        T.recs.append(rec)
        if failure is not None:
            raise failure
        return top
    _patch(tp.Topology, "from_gmx_topfile", classmethod(from_gmx_topfile))

    o_read = tpp.read_topology

    def fresh_topology(t):
        try:
            return not (t.defines or t.force_field.blocks or t.molecules or t.atom_types or t.nonbond_params or t.defaults
                        or any(t.types[k] for k in t.types))
        except Exception:
            return False

    import inspect
    sig_read = inspect.signature(o_read)

    @functools.wraps(o_read)
    def read_topology(*args, **kwargs):
        """a top-level read of a LIST OF LINES into a fresh Topology (test_top_parser, the fixtures of many other tests) is the reader's
        behaviour on a main file with exactly these lines: the lines are written to a scratch file, lexed like any real file (sub-kind
        "lines") and judged by TopReadTrace as well"""
        T = CUR
        if T is None or _IN["top"] or _IN["plugin"]:
            return o_read(*args, **kwargs)
        rec = {"kind": "top", "path": "<lines>", "sub": "lines"}
        try:                                  # the recorder follows whatever signature the tree under test has
            ba = sig_read.bind(*args, **kwargs)
            ba.arguments["lines"] = lines = list(ba.arguments["lines"])
            args, kwargs = ba.args, ba.kwargs
            topology, cwdir, molecules = ba.arguments["topology"], ba.arguments.get("cwdir"), ba.arguments.get("molecules")
        except Exception:
            T.piece("read_topology")
            return o_read(*args, **kwargs)
        try:
            text = "".join(l if l.endswith("\n") else l + "\n" for l in lines)
            if not fresh_topology(topology) or molecules is not None:
                rec["outside"] = "lines read into a topology object that already holds content"
            elif cwdir and any(l.strip().startswith("#include") for l in lines):
                rec["outside"] = "#include in a list of lines that is read with a directory of its own (cwdir)"
        except Exception as exc:
            rec["unprojectable"] = "input: " + _err(exc)
            text = None
        out = failure = None
        _IN["top"] += 1
        try:
            out = o_read(*args, **kwargs)
        except RecursionError:
            raise
        except Exception as exc:
            failure = exc
        finally:
            _IN["top"] -= 1
        if "outside" not in rec and "unprojectable" not in rec and OUT:
            _IN["plugin"] += 1
            try:
                d = os.path.join(OUT, "lines")
                os.makedirs(d, exist_ok=True)
                f = os.path.join(d, hashlib.sha1(text.encode()).hexdigest()[:16] + ".top")
                if not os.path.exists(f):
                    with open(f, "w") as fh:
                        fh.write(text)
                ent = lexed(f)
                if "outside" in ent:
                    rec["outside"] = ent["outside"]
                elif failure is not None:
                    rec["tree"], rec["obs"] = ent["tree"], c08.obs_json(c08.classify_exception(failure))
                else:
                    rec["tree"], rec["obs"] = ent["tree"], c08.obs_json(c08.make_project_real(ent["vals"])(topology))
            except Exception as exc:
                rec["unprojectable"] = _err(exc)
            finally:
                _IN["plugin"] -= 1
        T.recs.append(rec)
        if failure is not None:
            raise failure
        return out
    _patch(tpp, "read_topology", read_topology)

    # ------------------------------------------------------------------ preprocess
    o_pre = tp.Topology.__dict__["preprocess"]
    o_bonded = tp.Topology.__dict__["gen_bonded_interactions"]

    def abstract(self, rec, T):
        """abstract input of C09 for this topology object, or the reason it is outside"""
        if any(t is self for t in T.preprocessed):
            rec["outside"] = "the topology object was preprocessed before (second call on the same object)"
            return None
        if "comb-rule" not in self.defaults:
            rec["outside"] = "no [ defaults ]"
            return None
        try:
            return c09.abstract_from_topology(self)
        except c.MachineryError as exc:
            rec["outside"] = str(exc)
        except Exception as exc:
            rec["unprojectable"] = "input: " + _err(exc)
        return None

    def run_typed(self, rec, T, func, ab, bonded_only, a=(), k=None):
        status = "ok"
        try:
            out = func(self, *a, **(k or {}))
        except OSError as exc:
            status = "notype" if c09.NOTYPE_MSG in str(exc) else "exception"
            err = exc
        except Exception as exc:
            status, err = "exception", exc
        finally:
            T.preprocessed.append(self)
        if ab is not None:
            top, nb = ab
            try:
                if status == "exception":
                    rec.update(top=top, nb=nb, exception="%s: %s" % ("gen_bonded_interactions" if bonded_only else "preprocess", _err(err)))
                elif bonded_only or status == "notype":
                    obs = {"err": True, "inst": []} if status == "notype" else c09.project_bonded(self)
                    rec.update(top=top, nb=nb, obs=obs, nbobs=None)
                else:
                    obs, nbobs = c09.observe(self, status, nb["comb"])
                    rec.update(top=top, nb=nb, obs=obs, nbobs=nbobs)
            except Exception as exc:
                rec["unprojectable"] = "result: " + _err(exc)
        T.recs.append(rec)
        if status != "ok":
            raise err
        return out

    @functools.wraps(o_pre)
    def preprocess(self, *a, **k):
        T = CUR
        if T is None or _IN["pre"] or _IN["plugin"]:
            return o_pre(self, *a, **k)
        rec = {"kind": "pre"}
        _IN["plugin"] += 1
        try:
            ab = abstract(self, rec, T)
        finally:
            _IN["plugin"] -= 1
        _IN["pre"] += 1
        try:
            return run_typed(self, rec, T, o_pre, ab, False, a, k)
        finally:
            _IN["pre"] -= 1
    _patch(tp.Topology, "preprocess", preprocess)

    @functools.wraps(o_bonded)
    def gen_bonded_interactions(self, *a, **k):
        T = CUR
        if T is None or _IN["pre"] or _IN["plugin"]:
            return o_bonded(self, *a, **k)
        rec = {"kind": "bonded"}
        _IN["plugin"] += 1
        try:
            ab = abstract(self, rec, T)
            if ab is not None and ab[0]["defs"]:
                rec["outside"] = "macros with values are defined and replace_defines is not part of this call"
                ab = None
        finally:
            _IN["plugin"] -= 1
        _IN["pre"] += 1
        try:
            return run_typed(self, rec, T, o_bonded, ab, True, a, k)
        finally:
            _IN["pre"] -= 1
    _patch(tp.Topology, "gen_bonded_interactions", gen_bonded_interactions)

    for name in ("gen_pairs", "replace_defines", "convert_nonbond_to_sig_eps"):
        o_func = tp.Topology.__dict__[name]

        def piece(self, *a, _o=o_func, _n=name, **k):
            T = CUR
            if T is not None and not _IN["pre"] and not _IN["plugin"]:
                T.piece(_n)
            return _o(self, *a, **k)
        functools.update_wrapper(piece, o_func)
        _patch(tp.Topology, name, piece)


def uninstall():
    for obj, name, old in reversed(_INSTALLED):
        setattr(obj, name, old)
    del _INSTALLED[:]


# ----------------------------------------------------------------------------- output

def _payload(fh, data):
    s = json.dumps(data, sort_keys=True, default=str)
    h = hashlib.sha1(s.encode()).hexdigest()
    if h not in _SEEN:
        _SEEN.add(h)
        fh.write('{"kind": "payload", "h": "%s", "data": %s}\n' % (h, s))
    return h


def _map_record(ent):
    out = {"kind": "map"}
    for k in ("unprojectable", "exc", "has_mods", "missing_blocks"):
        if k in ent:
            out[k] = ent[k]
    if "unprojectable" in ent:
        return out, None
    rr = ent["rr"]
    data = {"graph": ent["graph"], "blocks": ent["blocks"], "base": ent.get("base"), "final": ent.get("final"),
            "apps": rr["apps"] if ent["links_ran"] else [], "unsupported": rr["unsupported"],
            "links_ran": ent["links_ran"], "links_done": bool(rr.get("links_done")), "mods_ran": ent["mods_ran"]}
    return out, data


def _dump(T):
    if not OUT:
        return
    os.makedirs(OUT, exist_ok=True)
    with open(os.path.join(OUT, "records-%d.ndjson" % os.getpid()), "a") as fh:
        n = {}
        for ent in T.maps:
            head, data = _map_record(ent)
            if data is not None:
                head["h"] = _payload(fh, data)
            head["nodeid"] = T.nodeid
            fh.write(json.dumps(head, default=str) + "\n")
            n["map"] = n.get("map", 0) + 1
        for rec in T.recs:
            head = {"kind": rec["kind"], "nodeid": T.nodeid}
            for k in ("outside", "unprojectable", "path", "exception", "nlinks", "sub"):
                if k in rec:
                    head[k] = rec[k]
            if rec["kind"] == "links" and "input" in rec:
                head["h"] = _payload(fh, {"input": rec["input"], "obs": rec["obs"]})
            elif rec["kind"] == "top" and "tree" in rec:
                head["tree"] = _payload(fh, rec["tree"])
                head["h"] = _payload(fh, {"tree": head["tree"], "obs": rec["obs"]})
            elif rec["kind"] in ("pre", "bonded") and "top" in rec:
                body = {"top": rec["top"], "nb": rec["nb"]}
                if "exception" in rec:
                    body["exception"] = rec["exception"]
                else:
                    body["obs"], body["nbobs"] = rec["obs"], rec["nbobs"]
                head["h"] = _payload(fh, body)
            fh.write(json.dumps(head, default=str) + "\n")
            n[rec["kind"]] = n.get(rec["kind"], 0) + 1
        fh.write(json.dumps({"kind": "test", "nodeid": T.nodeid, "outcome": T.outcome, "pieces": T.pieces, "records": n}) + "\n")


# ----------------------------------------------------------------------------- pytest hooks

def pytest_configure(config):
    install()


def pytest_unconfigure(config):
    uninstall()


@pytest.hookimpl(hookwrapper=True, tryfirst=True)
def pytest_runtest_protocol(item, nextitem):
    global CUR
    CUR = TestState(item.nodeid)
    for k in _IN:
        _IN[k] = 0
    try:
        yield
    finally:
        T, CUR = CUR, None
        try:
            _dump(T)
        except Exception as exc:      # never let the recorder change the outcome of the suite
            try:
                with open(os.path.join(OUT, "records-%d.ndjson" % os.getpid()), "a") as fh:
                    fh.write(json.dumps({"kind": "plugin_error", "nodeid": T.nodeid, "error": _err(exc)}) + "\n")
            except Exception:
                pass


def pytest_runtest_logreport(report):
    T = CUR
    if T is not None and T.nodeid == report.nodeid:
        T.outcome[report.when] = report.outcome
