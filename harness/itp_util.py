"""Rendering / running / projecting for the C11 check (spec/ItpRoundTrip.tla).

Nothing here decides what a correct round trip is.  Abstract molecules exported by TLC are rendered as force-field text (.ff blocks +
one tagged link per interaction) and a residue-graph JSON; the real `polyply gen_params` command line (bin/polyply) is run in-process;
wrappers record the molecule held in memory when the writer is called and the missing-link answers; the written text is split into
abstract lines; the file is read back by polyply's own readers and projected onto the token space of the specification:
    atom         {name, type, resid, resname, cg, charge, mass}       all strings, "" = absent, numbers as repr(float)
    interaction  {sec, atoms: [str...], par: [str...], gk, gtag}
    graph        {nodes: [{id, name}], edges: [[id, id]]}
"""
import json
import os
import random
import re
import runpy
import shlex
import sys
import traceback
from pathlib import Path


# --------------------------------------------------------------------------- projection

def norm_token(s):
    """Uniform lexing of tokens, applied to every projection alike (molecule in memory, written text, molecules read back, expected
    tokens of the specification): a token that is a decimal numeral stands for its IEEE double - integral values as the integer
    numeral, others as the shortest numeral that reads back to the same double.  Comparison of numbers is therefore exact (the writer
    formats floats with str(), which loses nothing); '14.0270', 14.027 and '1.4027e1' are the same token, '0.30' and '0.3' too."""
    s = str(s)
    try:
        f = float(s)
    except ValueError:
        return s
    if f != f or f in (float("inf"), float("-inf")):
        return s
    if f.is_integer() and abs(f) < 1e15:
        return str(int(f))
    return repr(f)


def num_token(v):
    return "" if v is None or v == "" else norm_token(v)


def project_molecule(mol, name, nrexcl=None):
    """vermouth Molecule / Block -> token-space molecule; atoms in node order"""
    order = list(mol.nodes)
    pos = {n: str(i + 1) for i, n in enumerate(order)}
    atoms = []
    for n in order:
        d = mol.nodes[n]
        atoms.append({"name": norm_token(d.get("atomname")), "type": norm_token(d.get("atype")), "resid": norm_token(d.get("resid")),
                      "resname": norm_token(d.get("resname")), "cg": norm_token(d.get("charge_group")), "charge": num_token(d.get("charge")),
                      "mass": num_token(d.get("mass"))})
    inter = []
    for sec, lst in mol.interactions.items():
        for x in lst:
            gd, gn = x.meta.get("ifdef"), x.meta.get("ifndef")
            if gd is not None and gn is not None:
                gk, gtag = "both", "%s/%s" % (gd, gn)
            elif gd is not None:
                gk, gtag = "ifdef", str(gd)
            elif gn is not None:
                gk, gtag = "ifndef", str(gn)
            else:
                gk, gtag = "none", ""
            inter.append({"sec": str(sec), "atoms": [pos.get(a, "?%r" % (a,)) for a in x.atoms], "par": [norm_token(p) for p in x.parameters],
                          "gk": gk, "gtag": gtag})
    nre = nrexcl if nrexcl is not None else getattr(mol, "nrexcl", None)
    return {"name": norm_token(name), "nrexcl": norm_token(nre), "atoms": atoms, "inter": inter}


def project_resgraph(meta):
    """residue graph of a MetaMolecule: nodes = (resid, resname), edges = pairs of residue ids"""
    nodes = [{"id": norm_token(meta.nodes[n].get("resid")), "name": norm_token(meta.nodes[n].get("resname"))} for n in meta.nodes]
    edges = [sorted([norm_token(meta.nodes[a].get("resid")), norm_token(meta.nodes[b].get("resid"))]) for a, b in meta.edges]
    return {"nodes": nodes, "edges": edges}


def tokenise(text):
    """the written text as abstract lines [k, s, t]; no interpretation of the tokens"""
    lines = []
    for raw in text.splitlines():
        body, _, comment = raw.partition(";")
        body = body.strip()
        if not body:
            continue
        if body.startswith("[") and body.endswith("]"):
            lines.append({"k": "sec", "s": body.strip("[] \t").strip(), "t": []})
        elif body.startswith("#"):
            tok = body.split()
            if tok[0] in ("#ifdef", "#ifndef") and len(tok) == 2:
                lines.append({"k": tok[0][1:], "s": tok[1], "t": []})
            elif tok[0] == "#endif" and len(tok) == 1:
                lines.append({"k": "endif", "s": "", "t": []})
            else:
                lines.append({"k": "pragma", "s": body, "t": []})
        else:
            lines.append({"k": "row", "s": comment.strip(), "t": [norm_token(t) for t in body.split()]})
    return lines


# --------------------------------------------------------------------------- running the real command

def polyply_script():
    import polyply
    return Path(polyply.__file__).resolve().parents[1] / "bin" / "polyply"


MISSING_MSG = re.compile(r"Missing a link between residue (\S+) (\S+) and residue (\S+) (\S+)\.")


class _LoggerProxy:
    """stands in for gen_itp.LOGGER: records the warnings (whether or not the logging system is switched on) and forwards everything"""

    def __init__(self, orig, sink):
        self._orig, self._sink = orig, sink

    def warning(self, msg, *args, **kwargs):
        try:
            text = str(msg).format(*args, **{k: v for k, v in kwargs.items() if k != "type"})
        except Exception:
            text = str(msg)
        self._sink.append(text)
        return self._orig.warning(msg, *args, **kwargs)

    def __getattr__(self, name):
        return getattr(self._orig, name)


LEVELS = ("info", "warning", "error")


def _level_name(levelno):
    import logging
    return "error" if levelno >= logging.ERROR else "warning" if levelno >= logging.WARNING else "info" if levelno >= logging.INFO else None


class _LogTap:
    """the message state of this PROCESS as the harness sees it: how many info / warning / error records went through the logging
    system since the process started (a handler on the root logger; it only counts)"""
    instance = None

    @classmethod
    def get(cls):
        import logging
        if cls.instance is None or cls.instance.pid != os.getpid():
            tap = cls()
            tap.pid = os.getpid()
            tap.counts = {lv: 0 for lv in LEVELS}

            class Handler(logging.Handler):
                def emit(self, record):
                    lv = _level_name(record.levelno)
                    if lv:
                        tap.counts[lv] += 1
            tap.handler = Handler(level=1)
            logging.getLogger().addHandler(tap.handler)
            cls.instance = tap
        return cls.instance

    def snapshot(self):
        return dict(self.counts)


class live_logging:
    """The command line runs with its logging system switched on (console handler, polyply's counting handler); the workers of the
    harness run with logging disabled.  Inside this context the process logs as the command line does: every record reaches the
    handlers of the `polyply` logger; only the console streams (and stdout) are pointed at a null sink.  Whatever the code under
    test keeps about logged messages (counts by level, ...) therefore accumulates over all runs of the process."""

    def __enter__(self):
        import logging
        import polyply.src.logging      # attaches the handlers the command line has (bin/polyply imports it too)
        self.tap = _LogTap.get()
        self.before = self.tap.snapshot()
        self.prev = logging.root.manager.disable
        logging.disable(logging.NOTSET)
        self.null = open(os.devnull, "w")
        self.swapped = []
        for lg in (logging.getLogger("polyply"), logging.getLogger("vermouth"), logging.getLogger()):
            for h in lg.handlers:
                if isinstance(h, logging.StreamHandler) and not isinstance(h, logging.FileHandler):
                    self.swapped.append((h, h.setStream(self.null)))
        self.stdout = sys.stdout
        sys.stdout = self.null
        return self

    def __exit__(self, *exc):
        import logging
        sys.stdout = self.stdout
        for h, old in self.swapped:
            if old is not None:
                h.setStream(old)
        self.null.close()
        logging.disable(self.prev)
        after = self.tap.snapshot()
        self.logged = {lv: after[lv] - self.before[lv] for lv in LEVELS}
        return False


class _NoLogging:
    before = logged = None

    def __enter__(self):
        return self

    def __exit__(self, *exc):
        return False


def carried_messages(molecule):
    """how many [ info ] / [ warning ] / [ error ] messages the applied blocks and links attached to the molecule"""
    res = {lv: 0 for lv in LEVELS}
    try:
        for levelno, entries in molecule.log_entries.items():
            lv = _level_name(int(levelno))
            if lv:
                res[lv] += len(entries)
    except Exception:
        pass
    return res


class Capture:
    """wraps the writer call, the end of link application and the logger of gen_params (no hooks inside the repository).
    "Mapping and link application passed" is observed where gen_params asks for the missing links (gen_itp.find_missing_edges, the
    name the module uses now); when gen_params gets at its missing links some other way the return of ApplyLinks.run_molecule
    stands for it, and the writer call in any case.  The requested residue graph is the meta molecule's at that moment (taken from
    the missing-link query, else from the meta molecule ApplyLinks returned, else - last resort - the residue graph of the
    molecule handed to the writer).  A wrapper whose target is not there is simply not installed."""

    def __init__(self):
        import vermouth.gmx.itp as vitp
        import polyply.src.gen_itp as gi
        self.vitp, self.gi = vitp, gi
        self.orig_write, self.orig_logger = vitp.write_molecule_itp, getattr(gi, "LOGGER", None)
        self.orig_missing = getattr(gi, "find_missing_edges", None)
        self.links_cls = getattr(gi, "ApplyLinks", None)
        self.orig_run = self.links_cls.__dict__.get("run_molecule") if isinstance(self.links_cls, type) else None
        self.built = None
        self.msgs = None
        self.req = None
        self.meta = None
        self.molecule = None
        self.warnings = []
        self.stage = "start"
        cap = self

        def write_molecule_itp(molecule, outfile, *a, **k):
            cap.stage = "writer called"
            cap.molecule = molecule
            try:
                cap.built = project_molecule(molecule, k.get("moltype", a[1] if len(a) > 1 else None))
            except Exception as exc:   # the projection must never mask the code under test
                cap.built = {"error": "%s: %s" % (type(exc).__name__, exc)}
            cap.msgs = carried_messages(molecule)
            res = cap.orig_write(molecule, outfile, *a, **k)
            cap.stage = "writer returned"
            return res

        def find_missing_edges(meta, molecule):
            res = list(cap.orig_missing(meta, molecule))
            cap.stage = "links applied"
            cap.req = project_resgraph(meta)
            return iter(res)

        def run_molecule(proc, meta, *a, **k):
            res = cap.orig_run(proc, meta, *a, **k)
            cap.meta = res if res is not None else meta
            if cap.orig_missing is None and cap.stage == "start":
                cap.stage = "links applied"
            return res
        vitp.write_molecule_itp = write_molecule_itp
        if self.orig_missing is not None:
            gi.find_missing_edges = find_missing_edges
        if self.orig_run is not None:
            self.links_cls.run_molecule = run_molecule
        if self.orig_logger is not None:
            gi.LOGGER = _LoggerProxy(self.orig_logger, self.warnings)

    def requested(self):
        """the requested residue graph (see the class comment for where it is taken from)"""
        if self.req is None and self.meta is not None:
            try:
                self.req = project_resgraph(self.meta)
            except Exception:
                pass
        if self.req is None and self.molecule is not None:
            try:
                from vermouth.graph_utils import make_residue_graph
                rg = make_residue_graph(self.molecule, attrs=("resid", "resname"))
                self.req = project_resgraph(rg)
            except Exception:
                pass
        return self.req

    def missing(self):
        """residue pairs named by the missing-link warnings"""
        res = []
        for text in self.warnings:
            m = MISSING_MSG.search(text)
            if m:
                res.append(sorted([norm_token(m.group(1)), norm_token(m.group(3))]))
        return res

    def close(self):
        self.vitp.write_molecule_itp = self.orig_write
        if self.orig_missing is not None:
            self.gi.find_missing_edges = self.orig_missing
        if self.orig_run is not None:
            self.links_cls.run_molecule = self.orig_run
        if self.orig_logger is not None:
            self.gi.LOGGER = self.orig_logger


def run_command(argv, cwd, keep_existing=False, live_log=False):
    """`polyply gen_params ...` exactly as the command line runs it (bin/polyply main()), in this process.
    Returns the observation record (without the read-back part).  keep_existing: an output file of an earlier run is left in place
    (histories: the command overwrites it); "written" then means that the file at the path is a new one.
    live_log: the logging system is on during the run, as it is for the command line (see live_logging); the record then has
    "seen" (records by level this process had logged before the run) and "logged" (records by level of this run)."""
    from vermouth.file_writer import DeferredFileWriter
    out = None
    for i, tok in enumerate(argv):
        if tok == "-o" and i + 1 < len(argv):
            out = Path(cwd) / argv[i + 1]
    if out is None:
        out = Path(cwd) / "polymer.itp"
    name = "polymer"
    for i, tok in enumerate(argv):
        if tok == "-name" and i + 1 < len(argv):
            name = argv[i + 1]
    before = None
    if out.exists():
        if keep_existing:
            st = out.stat()
            before = (st.st_ino, st.st_mtime_ns, st.st_size)
        else:
            out.unlink()
    old_argv, old_cwd = sys.argv, os.getcwd()
    cap = Capture()
    rec = {"argv": list(argv), "name": name, "out": str(out), "exception": "", "accepted": False}
    log = live_logging() if live_log else _NoLogging()
    try:
        os.chdir(cwd)
        sys.argv = [str(polyply_script())] + list(argv[1:])
        try:
            with log:
                runpy.run_path(str(polyply_script()), run_name="__main__")
        except SystemExit as exc:
            if exc.code not in (0, None):
                rec["exception"] = "SystemExit(%r)" % (exc.code,)
        except BaseException as exc:   # the command must not raise once the molecule is built: reported by the caller
            if isinstance(exc, KeyboardInterrupt):
                raise
            rec["exception"] = "%s: %s" % (type(exc).__name__, exc)
            rec["traceback"] = traceback.format_exc()[-1800:]
    finally:
        cap.close()
        sys.argv = old_argv
        os.chdir(old_cwd)
        if rec["exception"]:
            try:    # the deferred writer is a process-wide singleton: do not let a failed run leak into the next one
                DeferredFileWriter().open_files.clear()
            except Exception:
                pass
    rec["stage"] = cap.stage
    rec["accepted"] = cap.stage != "start"          # mapping and link application passed
    rec["built"] = cap.built
    rec["msgs"] = cap.msgs or {lv: 0 for lv in LEVELS}
    rec["seen"], rec["logged"] = log.before, log.logged
    rec["req"] = cap.requested() if cap.stage != "start" else None
    rec["missing"] = cap.missing() if cap.stage != "start" else None
    rec["written"] = out.exists()
    if rec["written"] and before is not None:
        st = out.stat()
        rec["written"] = (st.st_ino, st.st_mtime_ns, st.st_size) != before
    rec["text"] = out.read_text() if rec["written"] else ""
    return rec


def read_back(itp_path, name, wd):
    """the file read by polyply's own readers: (a) Topology.from_gmx_topfile on a minimal wrapping .top, (b) MetaMolecule.from_itp"""
    from polyply.src.topology import Topology
    from polyply import MetaMolecule
    import vermouth.forcefield
    res = {}
    top = Path(wd) / "wrap.top"
    top.write_text('#include "%s"\n[ system ]\nroundtrip\n[ molecules ]\n%s 1\n' % (Path(itp_path).name, name))
    try:
        topology = Topology.from_gmx_topfile(str(top), "roundtrip")
        if len(topology.molecules) != 1:
            raise ValueError("the topology lists %d molecules" % len(topology.molecules))
        mm = topology.molecules[0]
        res["read"] = project_molecule(mm.molecule, mm.mol_name, nrexcl=topology.force_field.blocks[name].nrexcl)
        res["rg"] = project_resgraph(mm)
    except Exception as exc:
        res["read_error"] = "Topology.from_gmx_topfile: %s: %s" % (type(exc).__name__, exc)
    try:
        ff = vermouth.forcefield.ForceField("roundtrip")
        mm2 = MetaMolecule.from_itp(ff, str(itp_path), name)
        res["read2"] = project_molecule(mm2.molecule, mm2.mol_name, nrexcl=ff.blocks[name].nrexcl)
        res["rg2"] = project_resgraph(mm2)
    except Exception as exc:
        res["read_error"] = res.get("read_error", "") + " MetaMolecule.from_itp: %s: %s" % (type(exc).__name__, exc)
    return res


def adapt_argv(argv, wd):
    """the stored residue-graph JSON files of the repository use the node-link key "links"; the installed networkx reads "edges":
    a copy with both keys is handed to the command (an input adaptation to the environment, nothing of the code under test changes)"""
    res = list(argv)
    for i, tok in enumerate(argv):
        if tok == "-seqf" and i + 1 < len(argv) and argv[i + 1].endswith(".json"):
            try:
                d = json.loads(Path(argv[i + 1]).read_text())
            except Exception:
                continue
            if isinstance(d, dict) and "links" in d and "edges" not in d:
                d["edges"] = d["links"]
                cp = Path(wd) / ("seq_%s" % Path(argv[i + 1]).name)
                cp.write_text(json.dumps(d))
                res[i + 1] = str(cp)
    return res


def read_into(force_field, itp_path, name):
    """MetaMolecule.from_itp into a force field the caller keeps (it may already hold a block of that name: the generating library's
    residue block, or a molecule read there before) -> {"read": molecule, "rg": residue graph} or {"read_error": ...}"""
    from polyply import MetaMolecule
    try:
        mm = MetaMolecule.from_itp(force_field, str(itp_path), name)
        return {"read": project_molecule(mm.molecule, mm.mol_name, nrexcl=force_field.blocks[name].nrexcl), "rg": project_resgraph(mm)}
    except Exception as exc:
        return {"read_error": "MetaMolecule.from_itp (force field in use): %s: %s" % (type(exc).__name__, exc)}


def observe(argv, wd, live_log=False):
    """run the command in directory wd and read the output back; one record of the I->S trace"""
    rec = run_command(adapt_argv(argv, wd), wd, live_log=live_log)
    if rec["written"]:
        rec.update(read_back(rec["out"], rec["name"], wd))
        rec["lines"] = tokenise(rec["text"])
    return rec


# --------------------------------------------------------------------------- rendering abstract molecules (S->I)

def _meta(x, version):
    m = {"edge": False, "version": version}
    if x["gk"] != "none":
        m[x["gk"]] = x["gtag"]
    if x.get("comment"):
        m["comment"] = x["comment"]
    return json.dumps(m)


def message_section(lv, where):
    """a message section of a block or a link: [ info ] / [ warning ] / [ error ] followed by the text (no braces: the text is a format)"""
    return ["[ %s ]" % lv, "verif: the force field attaches this %s message to %s" % (lv, where)]


def render_case(mol, variant=0, msg=None):
    """abstract molecule -> (.ff text, residue-graph JSON).  Blocks hold the atoms (same name => same block); every interaction and
    every atom-level edge is made by one link whose atoms are selected by atom name, residue name and a per-residue tag, so that it
    applies exactly once; the links carry the edges of the requested graph among their residues (polyply matches links on those).
    variant 1 puts the guards into #meta lines instead of the inline JSON.
    msg = {"lv": info|warning|error, "on": block|link}: the force field carries a message section of that level - on every residue
    block, or on one of the links (all of them are applied) - as force fields do to comment on / warn about / flag what they describe."""
    on_link = None
    if msg and msg.get("lv") in LEVELS:
        nitems = len(mol["inter"]) + len(mol["edges"])
        on_link = (variant % nitems) + 1 if (msg["on"] == "link" and nitems) else 0      # 0: on the blocks
    atoms = mol["atoms"]
    resids = []
    for a in atoms:
        if a["resid"] not in resids:
            resids.append(a["resid"])
    rnode = {n["id"]: n["name"] for n in mol["rnodes"]}
    for rid in sorted(rnode):
        if rid not in resids:
            raise ValueError("requested residue %s has no atom" % rid)
    resids = sorted(rnode)
    by_res = {rid: [i for i, a in enumerate(atoms, 1) if a["resid"] == rid] for rid in resids}
    out = []
    seen = []
    for rid in resids:
        rn = rnode[rid]
        if rn in seen:
            continue
        seen.append(rn)
        out.append("[ moleculetype ]\n%s %d\n[ atoms ]" % (rn, mol["nrexcl"]))
        for k, i in enumerate(by_res[rid], 1):
            a = atoms[i - 1]
            cols = "%d %s 1 %s %s 1" % (k, a["type"], rn, a["name"])
            if a["charge"] != "":
                cols += " " + a["charge"] + ((" " + a["mass"]) if a["mass"] != "" else "")
            elif a["mass"] != "":
                cols += ' {"mass": %s}' % a["mass"]
            out.append(cols)
        if on_link == 0:
            out.extend(message_section(msg["lv"], "residue %s" % rn))
        out.append("")
    redges = {frozenset(e) for e in mol["redges"]}

    def ref(i, rs):
        a = atoms[i - 1]
        return ["", ">", ">>"][rs.index(a["resid"])] + a["name"], {"resname": rnode[a["resid"]], "tag": "r%d" % a["resid"]}

    def realise(ra, rb):
        for e in mol["edges"]:
            if {atoms[e[0] - 1]["resid"], atoms[e[1] - 1]["resid"]} == {ra, rb}:
                return tuple(e)
        return None
    items = [("i", x) for x in mol["inter"]] + [("e", e) for e in mol["edges"]]
    for n, (kind, x) in enumerate(items, 1):
        ats = list(x["atoms"] if kind == "i" else x)
        rs = sorted({atoms[i - 1]["resid"] for i in ats})
        ledges = [] if kind == "i" else [tuple(x)]
        for ia in range(len(rs)):
            for ib in range(ia + 1, len(rs)):
                if frozenset((rs[ia], rs[ib])) in redges:
                    e = realise(rs[ia], rs[ib])
                    if e is None:
                        raise ValueError("interaction over residues %s cannot be made by a link: residues %s and %s are not joined" % (rs, rs[ia], rs[ib]))
                    if e not in ledges:
                        ledges.append(e)
        out.append("[ link ]")
        out.append("[ atoms ]")
        done = set()
        for i in ats + [j for e in ledges for j in e]:
            if i not in done:
                done.add(i)
                key, attrs = ref(i, rs)
                out.append("%s %s" % (key, json.dumps(attrs)))
        if kind == "i":
            out.append("[ %s ]" % x["sec"])
            keys = [ref(i, rs)[0] for i in ats]
            par = " ".join(x["par"])
            if variant == 1 and x["gk"] != "none":
                out.append("#meta " + json.dumps({x["gk"]: x["gtag"]}))
                y = dict(x, gk="none")
            else:
                y = x
            if x["sec"] in ("virtual_sitesn", "exclusions"):      # atoms of variable number: explicit separator
                out.append(" ".join(keys) + " -- " + par + " " + _meta(y, n))
            else:
                out.append(" ".join(keys) + " " + par + " " + _meta(y, n))
        if ledges:
            out.append("[ edges ]")
            for e in ledges:
                out.append(" ".join(ref(i, rs)[0] for i in e))
        if on_link == n:
            out.extend(message_section(msg["lv"], "the atoms of link %d" % n))
        out.append("")
    ordinal = {rid: k for k, rid in enumerate(resids)}
    g = {"directed": False, "multigraph": False, "graph": {},
         "nodes": [{"id": ordinal[rid], "resid": rid, "resname": rnode[rid], "tag": "r%d" % rid} for rid in resids],
         "edges": [{"source": ordinal[e[0]], "target": ordinal[e[1]]} for e in mol["redges"]]}
    g["links"] = g["edges"]
    return "\n".join(out), json.dumps(g)


def render_chain(mol):
    """abstract CHAIN molecule -> (.ff text, residue-graph JSON without tags): a force field a `-seq` request can use.  Residues are
    numbered 1..n and joined in a row; same name => same block (atoms and the interactions inside the residue); every bond /
    constraint between consecutive residues is made by a link that selects its atoms by atom name and residue name only."""
    atoms = mol["atoms"]
    rnode = {n["id"]: n["name"] for n in mol["rnodes"]}
    n = len(rnode)
    if sorted(rnode) != list(range(1, n + 1)) or sorted(sorted(e) for e in mol["redges"]) != [[r, r + 1] for r in range(1, n)]:
        raise ValueError("not a chain of residues 1..n")
    by_res = {rid: [i for i, a in enumerate(atoms, 1) if a["resid"] == rid] for rid in rnode}
    local = {i: (a["resid"], by_res[a["resid"]].index(i) + 1) for i, a in enumerate(atoms, 1)}

    def guard_meta(x):
        m = {}
        if x["gk"] != "none":
            m[x["gk"]] = x["gtag"]
        if x.get("comment"):
            m["comment"] = x["comment"]
        return (" " + json.dumps(m)) if m else ""
    intra = {rid: [] for rid in rnode}
    links = []
    for x in mol["inter"]:
        rs = sorted({local[i][0] for i in x["atoms"]})
        if len(rs) == 1:
            intra[rs[0]].append((x["sec"], tuple(local[i][1] for i in x["atoms"]), tuple(x["par"]), guard_meta(x)))
        elif len(rs) == 2 and rs[1] == rs[0] + 1 and x["sec"] in ("bonds", "constraints") and len(x["atoms"]) == 2:
            ref = [("" if local[i][0] == rs[0] else "+") + atoms[i - 1]["name"] for i in x["atoms"]]
            key = (rnode[rs[0]], rnode[rs[1]], x["sec"], tuple(ref), tuple(x["par"]), guard_meta(x))
            if key not in links:
                links.append(key)
        else:
            raise ValueError("interaction %s cannot be made by a block or a link of consecutive residues" % (x,))
    out, seen = [], {}
    for rid in sorted(rnode):
        rn = rnode[rid]
        body = (tuple((atoms[i - 1]["name"], atoms[i - 1]["type"], atoms[i - 1]["charge"], atoms[i - 1]["mass"]) for i in by_res[rid]), tuple(sorted(intra[rid])))
        if rn in seen:
            if seen[rn] != body:
                raise ValueError("residues named %s differ" % rn)
            continue
        seen[rn] = body
        out.append("[ moleculetype ]\n%s %d\n[ atoms ]" % (rn, mol["nrexcl"]))
        for k, i in enumerate(by_res[rid], 1):
            a = atoms[i - 1]
            cols = "%d %s 1 %s %s 1" % (k, a["type"], rn, a["name"])
            if a["charge"] != "":
                cols += " " + a["charge"] + ((" " + a["mass"]) if a["mass"] != "" else "")
            elif a["mass"] != "":
                cols += ' {"mass": %s}' % a["mass"]
            out.append(cols)
        for sec in sorted({t[0] for t in intra[rid]}):
            out.append("[ %s ]" % sec)
            for t in intra[rid]:
                if t[0] == sec:
                    sep = " -- " if sec in ("virtual_sitesn", "exclusions") else " "
                    out.append(" ".join(str(j) for j in t[1]) + sep + " ".join(t[2]) + t[3])
        out.append("")
    for ra, rb, sec, ref, par, meta in links:
        out.append("[ link ]\n[ atoms ]")
        for r in ref:
            out.append('%s {"resname": "%s"}' % (r, rb if r.startswith("+") else ra))
        out.append("[ %s ]" % sec)
        out.append(" ".join(ref) + " " + " ".join(par) + meta)
        out.append("")
    g = {"directed": False, "multigraph": False, "graph": {},
         "nodes": [{"id": rid - 1, "resid": rid, "resname": rnode[rid]} for rid in sorted(rnode)],
         "edges": [{"source": r - 1, "target": r} for r in range(1, n)]}
    g["links"] = g["edges"]
    return "\n".join(out) + "\n", json.dumps(g)


# --------------------------------------------------------------------------- seeded random polymers (I->S)

GUARDS = [None, None, None, ("ifdef", "FLEXIBLE"), ("ifndef", "FLEXIBLE"), ("ifdef", "POSRES"), ("ifndef", "STIFF")]


def _rnum(rng, lo, hi, nd):
    return ("%." + str(nd) + "f") % rng.uniform(lo, hi)


def _rpar(rng, sec, sane=False):
    if sec == "bonds":
        return ["1", _rnum(rng, 0.25, 0.4, 3 if sane else rng.randint(2, 6)), _rnum(rng, 1000, 9000, rng.randint(0, 3))]
    if sec == "constraints":
        return ["1", _rnum(rng, 0.25, 0.4, 3 if sane else rng.randint(2, 5))]
    if sec == "angles":
        return [rng.choice(["1", "2", "10"]), _rnum(rng, 90, 160, rng.randint(0, 2)), _rnum(rng, 10, 100, rng.randint(0, 4))]
    if sec == "dihedrals":
        return rng.choice([["9", _rnum(rng, 0, 180, 1), _rnum(rng, 0.5, 9, 3), str(rng.randint(1, 4))], ["1", "180", _rnum(rng, 0.5, 9, 2), "2"],
                           ["3", "1.5", "-2.25", "0.75", "0", "0", "0"]])
    if sec == "impropers":
        return ["2", _rnum(rng, 0, 40, 1), _rnum(rng, 10, 300, 2)]
    if sec == "pairs":
        return rng.choice([["1"], ["1", _rnum(rng, 0.1, 0.5, 6), _rnum(rng, 0.1, 2, 6)]])
    if sec == "exclusions":
        return []
    if sec == "virtual_sites2":
        return ["1", _rnum(rng, 0.1, 0.9, 4)]
    if sec == "virtual_sites3":
        return ["1", _rnum(rng, 0.1, 0.5, 3), _rnum(rng, 0.1, 0.5, 3)]
    if sec == "virtual_sitesn":
        return [rng.choice(["1", "2"])]
    if sec == "position_restraints":
        return ["1", "1000", "1000", rng.choice(["1000", "0"])]
    if sec == "dihedral_restraints":
        return ["1", _rnum(rng, 0, 180, 0), "0", _rnum(rng, 10, 100, 0)]
    if sec == "angle_restraints_z":
        return ["1", _rnum(rng, 0, 90, 0), _rnum(rng, 10, 100, 0), "1"]
    raise KeyError(sec)


NAT = {"angle_restraints_z": 2, "bonds": 2, "constraints": 2, "angles": 3, "dihedrals": 4, "impropers": 4, "pairs": 2, "exclusions": 2, "virtual_sites2": 3,
       "virtual_sites3": 4, "virtual_sitesn": 3, "position_restraints": 1, "dihedral_restraints": 4}


def _meta_json(rng, guard, extra=None):
    m = dict(extra or {})
    if guard:
        m[guard[0]] = guard[1]
    if rng.random() < 0.25:
        m["comment"] = rng.choice(["from the paper", "fitted", "x y z"])
    if rng.random() < 0.2:
        m["group"] = rng.choice(["backbone", "side chain"])
    return (" " + json.dumps(m)) if m else ""


def random_polymer(rng, exotic=True):
    """(ff text, residue graph JSON, description): 3-4 block types of 1-3 atoms with interactions of every section (guards, comments,
    groups, #meta lines), links that bond consecutive / adjacent residues (some residue-name pairs deliberately have no link), angle,
    dihedral (two terms), pair, exclusion, constraint and virtual-site links; 5-8 residues in a chain or a tree with a ring closure"""
    names = ["PA", "PB", "PC", "PD"][:rng.randint(3, 4)]
    out = []
    blocks = {}
    for bn in names:
        na = rng.randint(1, 3)
        ats = ["%s%d" % (bn[1], k) for k in range(1, na + 1)]
        blocks[bn] = ats
        out.append("[ moleculetype ]\n%s %d\n[ atoms ]" % (bn, rng.choice([1, 1, 3])))
        cg = 1
        for k, an in enumerate(ats, 1):
            cols = "%d %s 1 %s %s %d" % (k, rng.choice(["C1", "SN2a", "opls_135", "Qd"]), bn, an, cg)
            r = rng.random()
            if r < 0.45:
                cols += " %s %s" % (_rnum(rng, -1, 1, rng.randint(1, 9)), _rnum(rng, 1, 80, rng.randint(0, 4)))
            elif r < 0.75:
                cols += " %s" % _rnum(rng, -1, 1, rng.randint(0, 6))
            out.append(cols)
            if rng.random() < 0.5:
                cg += 1
        secs = {}
        for _ in range(rng.randint(0, 5)):
            sec = rng.choice(["bonds", "bonds", "constraints", "angles", "dihedrals", "impropers", "pairs", "exclusions", "virtual_sites2",
                              "virtual_sitesn", "position_restraints", "dihedrals"])
            if rng.random() < 0.03 and exotic:
                sec = rng.choice(["angle_restraints_z", "virtual_sites3", "dihedral_restraints"])
            n = NAT[sec]
            if sec == "exclusions":
                n = rng.randint(2, 3)
            if n > na and sec != "position_restraints":
                continue
            tup = rng.sample(ats, n) if n <= na else [rng.choice(ats)]
            secs.setdefault(sec, []).append((tup, _rpar(rng, sec), rng.choice(GUARDS)))
        if na >= 2:
            secs.setdefault("bonds", []).append(([ats[0], ats[1]], _rpar(rng, "bonds"), None))
        if na == 3:
            secs.setdefault(rng.choice(["bonds", "constraints"]), []).append(([ats[2], ats[1]], ["1", "0.31"], rng.choice([None, None, ("ifdef", "FLEXIBLE")])))
        ver = 1
        for sec, lst in secs.items():
            out.append("[ %s ]" % sec)
            # a "#meta" line applies to every following line of the section (it cannot be taken back): either the whole section is
            # guarded that way, or every line carries its own inline guard
            section_guard = rng.choice(GUARDS[3:]) if rng.random() < 0.25 else None
            if section_guard:
                out.append("#meta " + json.dumps({section_guard[0]: section_guard[1]}))
            for tup, par, guard in lst:
                ver += 1
                extra = {"version": ver} if sec in ("dihedrals", "bonds") else {}
                tail = _meta_json(rng, None if section_guard else guard, extra)
                if sec == "virtual_sitesn":
                    out.append(" ".join(tup) + " -- " + " ".join(par) + tail)
                else:
                    out.append(" ".join(tup) + " " + " ".join(par) + tail)
        out.append("")
    # links
    chain = rng.random() < 0.65
    unlinked = set()
    if rng.random() < 0.3:
        a, b = rng.sample(names, 2)
        unlinked.add(frozenset((a, b)))
    if rng.random() < 0.08:
        unlinked.add(frozenset((names[0],)))
    for i, a in enumerate(names):
        for b in names[i:]:
            pair = frozenset((a, b))
            if pair in unlinked:
                continue
            for x, y in ((a, b),) if a == b else ((a, b), (b, a)):
                pre = rng.choice(["+", ">"]) if chain else ">"
                ax, by = blocks[x][-1], blocks[y][0]
                out.append("[ link ]\n[ atoms ]")
                out.append('%s {"resname": "%s"}' % (ax, x))
                out.append('%s%s {"resname": "%s"}' % (pre, by, y))
                sec = rng.choice(["bonds", "bonds", "bonds", "constraints"])
                out.append("[ %s ]" % sec)
                out.append("%s %s%s %s%s" % (ax, pre, by, " ".join(_rpar(rng, sec)), _meta_json(rng, rng.choice([None, None, None, ("ifdef", "FLEXIBLE")]))))
                if sec == "bonds" and rng.random() < 0.3:
                    out.append("[ constraints ]")
                    out.append('%s %s%s 1 0.33 {"ifndef": "FLEXIBLE"}' % (ax, pre, by))
                for extra in rng.sample(["angles", "pairs", "exclusions", "dihedrals", "virtual_sites2"], rng.randint(0, 3)):
                    pool = [(blocks[x][k], "") for k in range(len(blocks[x]))] + [(blocks[y][k], pre) for k in range(len(blocks[y]))]
                    n = NAT[extra]
                    if len(pool) < n:
                        continue
                    tup = rng.sample(pool, n)
                    if not (any(p == "" for _, p in tup) and any(p == pre for _, p in tup)):
                        continue
                    refs = []
                    for an, p in tup:
                        refs.append("%s%s" % (p, an))
                    out.append("[ %s ]" % extra)
                    g = rng.choice(GUARDS)
                    ex = {"edge": False} if rng.random() < 0.5 else {}
                    out.append(" ".join(refs) + " " + " ".join(_rpar(rng, extra)) + _meta_json(rng, g, ex))
                    if extra == "dihedrals" and rng.random() < 0.6:
                        ex2 = dict(ex, version=2)
                        out.append(" ".join(refs) + " " + " ".join(_rpar(rng, extra)) + _meta_json(rng, g, ex2))
                out.append("")
    n = rng.randint(5, 8)
    seq = [rng.choice(names) for _ in range(n)]
    off = rng.choice([0, 0, 0, 2, 10])
    edges = set()
    if chain:
        for k in range(1, n):
            edges.add((k - 1, k))
    else:
        for k in range(1, n):
            edges.add((rng.randrange(k), k))
    if rng.random() < 0.2 and n > 3:
        a, b = sorted(rng.sample(range(n), 2))
        if b - a > 1:
            edges.add((a, b))
    g = {"directed": False, "multigraph": False, "graph": {},
         "nodes": [{"id": k, "resid": k + 1 + off, "resname": seq[k]} for k in range(n)],
         "edges": [{"source": a, "target": b} for a, b in sorted(edges)]}
    g["links"] = g["edges"]
    return "\n".join(out) + "\n", json.dumps(g), {"sequence": seq, "edges": sorted(edges), "unlinked": [sorted(p) for p in unlinked]}


def add_messages(ff_text, rng, lv=None):
    """(.ff text with message sections, description): [ info ] / [ warning ] / [ error ] sections appended to residue blocks and / or
    links of a force field text whose blocks and links end with an empty line (random_polymer's do)"""
    lv = lv or rng.choice(LEVELS)
    on = rng.choice(["block", "link", "link", "both"])
    lines = ff_text.split("\n")
    out, ctx, count = [], None, {"block": 0, "link": 0}
    for line in lines + [""]:
        head = line.strip()
        if head == "" and ctx is not None:
            if (on in (ctx, "both")) and (ctx == "block" or rng.random() < 0.6):
                count[ctx] += 1
                out.extend(message_section(lv if rng.random() < 0.8 else rng.choice(LEVELS), "%s %d" % (ctx, count[ctx])))
            ctx = None
        elif head.startswith("[") and head.strip("[] ") == "moleculetype":
            ctx = "block"
        elif head.startswith("[") and head.strip("[] ") == "link":
            ctx = "link"
        out.append(line)
    return "\n".join(out[:-1]), {"level": lv, "on": on, "sections": count}


def message_only_link(resname, atom, lv):
    """a force-field file with one link that has no interaction: it matches every residue `resname` (its atom `atom`) and only
    attaches a message - to be given with -f next to a library"""
    return "\n".join(["[ link ]", 'resname "%s"' % resname, "[ atoms ]", '%s {"resname": "%s"}' % (atom, resname)]
                     + message_section(lv, "every residue %s" % resname)) + "\n"


# --------------------------------------------------------------------------- repository inputs

def repo_commands(tier):
    """gen_params command lines of the repository: library_tests/*/*/polyply/command and the inputs of test_gen_params.py.
    Returns [(label, argv, directory the relative paths refer to)]; quick shortens long homopolymers (n > 4 -> 4)."""
    import polyply
    td = Path(polyply.__file__).resolve().parent / "tests" / "test_data"
    res = []
    for cmdf in sorted((td / "library_tests").glob("*/*/polyply/command")):
        toks = shlex.split(cmdf.read_text().strip())
        if len(toks) < 2 or toks[1] not in ("gen_params", "gen_itp"):
            continue
        argv = []
        for t in toks:
            if t.startswith("../") or t.startswith("./"):
                argv.append(str((cmdf.parent / t).resolve()))
            else:
                argv.append(t)
        res.append(("library_tests/%s/%s" % (cmdf.parts[-4], cmdf.parts[-3]), argv, str(cmdf.parent)))
    inp = td / "gen_params" / "input"
    tests = [(["-f", "PEO.martini.3.itp", "-seq", "PEO:10", "-name", "PEO"], "PEO"),
             (["-f", "PS.martini.2.itp", "-seqf", "PS.json", "-name", "PS"], "PS"),
             (["-f", "P3HT.martini.2.itp", "-seq", "P3HT:10", "-name", "P3HT"], "P3HT"),
             (["-f", "PPI.ff", "-seqf", "PPI.json", "-name", "PPI"], "PPI"),
             (["-f", "test.ff", "-seq", "N1:1", "N2:1", "N1:1", "N2:1", "N3:1", "-name", "test"], "test"),
             (["-f", "test_edge_attr.ff", "-seqf", "test_edge_attr.json", "-name", "test"], "edge_attr"),
             (["-f", "removal.ff", "-seq", "PEO:3", "-name", "test"], "removal")]
    for args, label in tests:
        argv = ["polyply", "gen_params"]
        for t in args:
            argv.append(str(inp / t) if (inp / t).exists() else t)
        argv += ["-o", "out.itp"]
        res.append(("gen_params/input/%s" % label, argv, str(inp)))
    if tier == "quick":
        short = []
        for label, argv, d in res:
            a2, inseq = [], False
            for t in argv:
                if t == "-seq":
                    inseq = True
                elif t.startswith("-"):
                    inseq = False
                elif inseq and ":" in t:
                    nm, cnt = t.rsplit(":", 1)
                    if cnt.isdigit() and int(cnt) > 4:
                        t = "%s:4" % nm
                a2.append(t)
            short.append((label, a2, d))
        res = short
    return res


def library_homopolymers(rng, per_lib):
    """`-lib L -seq B:3` / copolymers `-seq B:2 C:2` for single-residue blocks of the library force fields"""
    import polyply
    from polyply.src.load_library import load_ff_library
    res = []
    libs = sorted(p for p in os.listdir(polyply.DATA_PATH) if not p.startswith("__") and (Path(polyply.DATA_PATH) / p).is_dir())
    for lib in libs:
        try:
            ff = load_ff_library("probe", [lib], [])
        except Exception:
            continue
        single = sorted(nm for nm, b in ff.blocks.items() if len(b) and len(b) <= 40 and len({d.get("resid") for _, d in b.nodes(data=True)}) == 1)
        if not single:
            continue
        picks = rng.sample(single, min(per_lib, len(single)))
        for k, nm in enumerate(picks):
            if k % 3 == 2 and len(single) > 1:
                other = rng.choice([s for s in single if s != nm])
                seq = ["%s:2" % nm, "%s:2" % other]
            else:
                seq = ["%s:%d" % (nm, rng.randint(2, 4))]
            res.append(("lib %s %s" % (lib, " ".join(seq)), ["polyply", "gen_params", "-lib", lib, "-seq"] + seq + ["-name", "homo", "-o", "out.itp"], "."))
    return res
