"""X03 - extension beyond the listed properties (DESIGN 9 item 6):
   (a) bending-probability acceptance of the random walk      spec/Bending.tla, BendingMC, BendingExport, BendingTrace
   (b) combination rule of Topology.gen_pairs vs GROMACS       spec/CombRule.tla, CombRuleExport, CombRuleTrace

(a) S->I : every behaviour of MaxCalls calls of RandomWalk.bendiness on the rank grid (candidate angles 0.5/60/120/180 degrees,
           scripted random.uniform, resname triples with / without a [ bending ] constant, with / without a grandparent) is
           replayed on a real RandomWalk + NonBondEngine whose bending table was read from a real [ bending ] build file.
    I->S : gen_coords runs with random [ bending ] build files; wrappers record call / prob / draw / ret events; the floats
           of one walk are ranked, the numeric monitor checks the density and the bounds of the draw; BendingTrace validates.
(b) S->I : every (rule, type A, type B) of the integer grid rendered as a real .top file, Topology.gen_pairs run, the value
           compared with the squared rationals exported by TLC for polyply's table (I-layer as found) and for the GROMACS table.
    I->S : random real-valued type tables, monitor verdicts arithmetic / geometric, CombRuleTrace requires the selected one.
The comb-rule deviation (DESIGN note N1) is not a violation of a listed property: TLC must refute AgreesWithGromacs for
polyply's table, the real code must follow that table (or GROMACS's), and the run reports which as a note.
"""
import json
import math
import os
import random
from pathlib import Path

import numpy as np

from .. import common as c

PROP = "X03"
LP_OUT = 5.0        # bending constant of the exhaustive instance with the initial 1 above the density (InitRank 9999)
PROBE_CALLS = 40    # straight candidates per probe run
MAX_EVENTS = 120    # recorded events per walk object (longer walks are recorded up to here)
MAX_WALKS = 24      # recorded walk objects per run
RUN_TIMEOUT = 4     # seconds per gen_coords run; a timed-out run contributes the walks recorded so far (no verdict on the rest)
LP_IN = 200.0       # constant for which 1 lies between the density at 179 and at 180 degrees (InitRank 1795)
D = 0.47


# =========================================================================== numeric monitor (independent of polyply)

def density(lp, ang):
    """documented bending density over the angle in degrees: exp(lp*ang/180) * lp / (180 (exp(lp) - 1))"""
    return math.exp(lp * ang / 180.0) * lp / (180.0 * (math.exp(lp) - 1.0))


def angle_deg(a, b, cpt):
    """angle at b between a and c, by atan2 (not the arccos the code uses)"""
    u = np.asarray(a, float) - np.asarray(b, float)
    v = np.asarray(cpt, float) - np.asarray(b, float)
    return math.degrees(math.atan2(float(np.linalg.norm(np.cross(u, v))), float(np.dot(u, v))))


def close(x, y, rel=1e-7):
    return abs(x - y) <= rel * max(abs(x), abs(y), 1e-300)


ANG_TOL = 1e-5      # degrees: the code measures the angle with arccos, which is ill-conditioned near 0 and 180 degrees


def density_matches(p, lp, ang):
    """p is the density of an angle within ANG_TOL of the monitored one (lp > 0: the density grows with the angle)"""
    lo, hi = density(lp, max(0.0, ang - ANG_TOL)), density(lp, min(180.0, ang + ANG_TOL))
    return p == p and lo * (1 - 1e-9) <= p <= hi * (1 + 1e-9)


# =========================================================================== (b) combination rule

UNITS = {1: (1e-3, 1e-6), 2: (0.1, 0.5), 3: (0.1, 0.5)}


def top_text(rule, types, gen="yes"):
    """types: list of (name, nb1, nb2)"""
    lines = ["[ defaults ]", "; nbfunc comb-rule gen-pairs fudgeLJ fudgeQQ", "1 %d %s 1.0 1.0" % (rule, gen), "[ atomtypes ]"]
    for name, v, w in types:
        lines.append("%s 72.0 0.0 A %r %r" % (name, v, w))
    lines += ["[ moleculetype ]", "M 1", "[ atoms ]"]
    for i, (name, _, _) in enumerate(types):
        lines.append("%d %s 1 R X%d %d 0.0 72.0" % (i + 1, name, i + 1, i + 1))
    lines += ["[ system ]", "x", "[ molecules ]", "M 1", ""]
    return "\n".join(lines)


def run_gen_pairs(path):
    from polyply.src.topology import Topology
    t = Topology.from_gmx_topfile(name="x", path=path)
    t.gen_pairs()
    return {tuple(sorted(k)) if len(k) == 2 else (list(k)[0],) * 2: (float(v["nb1"]), float(v["nb2"])) for k, v in t.nonbond_params.items()}


def _sq_matches(obs, rat, unit):
    return close(obs * obs, rat["n"] / rat["d"] * unit * unit, 1e-10)


def _comb_chunk(arg):
    wd, items = arg
    res = []
    for idx, case, alt in items:
        rule = case["rule"]
        u1, u2 = UNITS[rule]
        p = Path(wd) / ("c%d.top" % idx)
        p.write_text(top_text(rule, [("TA", case["a"]["v"] * u1, case["a"]["w"] * u2), ("TB", case["b"]["v"] * u1, case["b"]["w"] * u2)]))
        try:
            nb = run_gen_pairs(p)
            obs = nb.get(("TA", "TB"))
            selfa, selfb = nb.get(("TA", "TA")), nb.get(("TB", "TB"))
        except Exception as exc:
            res.append((idx, "exception %s: %s" % (type(exc).__name__, exc), None))
            continue
        if obs is None or selfa is None or selfb is None:
            res.append((idx, "pair or self term missing from nonbond_params: %s" % sorted(nb), None))
            continue
        ok_self = close(selfa[0], case["a"]["v"] * u1) and close(selfa[1], case["a"]["w"] * u2) and \
            close(selfb[0], case["b"]["v"] * u1) and close(selfb[1], case["b"]["w"] * u2)
        as_found = _sq_matches(obs[0], case["out"]["nb1"], u1) and _sq_matches(obs[1], case["out"]["nb2"], u2)
        as_gmx = _sq_matches(obs[0], alt["out"]["nb1"], u1) and _sq_matches(obs[1], alt["out"]["nb2"], u2)
        res.append((idx, None if ok_self else "self pair is not the atom type's own parameters",
                    {"obs": obs, "as_found": as_found, "as_gmx": as_gmx}))
    return res


def comb_replay(ck, found, gmx):
    """found / gmx: exported cases of the I-layer with polyply's table / the GROMACS numbering (same order of inputs)."""
    key = lambda k: (k["rule"], k["a"]["v"], k["a"]["w"], k["b"]["v"], k["b"]["w"])
    g = {key(k): k for k in gmx}
    items = [(i, k, g[key(k)]) for i, k in enumerate(found)]
    wd = c.workdir(PROP, "comb")
    per_rule = {1: {"found": 0, "gmx": 0, "disc": 0}, 2: {"found": 0, "gmx": 0, "disc": 0}, 3: {"found": 0, "gmx": 0, "disc": 0}}
    bad = 0
    for part in c.pmap(_comb_chunk, [(str(wd), ch) for ch in c.chunks(items, c.NPROC * 2)]):
        for idx, err, o in part:
            case = found[idx]
            ck.evaluations += 1
            if err or not (o["as_found"] or o["as_gmx"]):
                bad += 1
                ck.violation({"kind": "comb S->I", "case": case, "gromacs": g[key(case)]["out"], "observed": o},
                             what="gen_pairs with comb-rule %d on types %s / %s: %s" % (
                                 case["rule"], case["a"], case["b"],
                                 err or "observed %s is neither polyply's table (%s) nor the GROMACS rule (%s), squared values in grid units" % (
                                     o["obs"], case["out"], g[key(case)]["out"])))
                continue
            if not case["agree"]:
                ck.nontrivial.add("comb:%s" % (key(case),))
                pr = per_rule[case["rule"]]
                pr["disc"] += 1
                pr["found"] += o["as_found"]
                pr["gmx"] += o["as_gmx"]
    ck.replayed += len(found)
    verdict = {}
    for r, pr in per_rule.items():
        if pr["disc"] and pr["found"] == pr["disc"]:
            verdict[r] = "as_found"
        elif pr["disc"] and pr["gmx"] == pr["disc"]:
            verdict[r] = "gromacs"
        else:
            verdict[r] = "mixed"
            if not bad:
                ck.violation({"kind": "comb S->I", "rule": r, "tally": pr},
                             what="comb-rule %d follows neither table consistently: %s" % (r, pr))
    return verdict, per_rule


def comb_records(nrec, sd):
    """I->S: random real-valued tables of 3-5 atom types through the real gen_pairs; one record per generated pair."""
    rng = random.Random(sd)
    wd = c.workdir(PROP, "comb_rand")
    recs, raw = [], []
    k = 0
    while len(recs) < nrec:
        rule = rng.choice([1, 2, 3])
        nt = rng.randint(3, 5)
        types = []
        for i in range(nt):
            if rule == 1:
                v, w = rng.uniform(1e-4, 5e-2), rng.uniform(1e-8, 5e-4)
            else:
                v, w = rng.uniform(0.2, 0.7), rng.uniform(0.05, 5.0)
            if i and rng.random() < 0.25:
                v = types[rng.randrange(i)][1]          # equal first column: the two means coincide
            types.append(("T%d" % i, v, w))
        p = wd / ("r%d.top" % k)
        k += 1
        p.write_text(top_text(rule, types))
        try:
            nb = run_gen_pairs(p)
        except Exception as exc:
            recs.append({"rule": rule, "v_equal": False, "w_equal": False, "nb1_is_arith": False, "nb1_is_geo": False,
                         "nb2_is_geo": False, "symmetric": False})
            raw.append({"rule": rule, "types": types, "exception": "%s: %s" % (type(exc).__name__, exc)})
            continue
        for i in range(nt):
            for j in range(i + 1, nt):
                (na, va, wa), (nb_, vb, wb) = types[i], types[j]
                obs = nb.get(tuple(sorted((na, nb_))))
                if obs is None:
                    obs = (float("nan"), float("nan"))
                recs.append({"rule": rule, "v_equal": va == vb, "w_equal": wa == wb,
                             "nb1_is_arith": close(obs[0], (va + vb) / 2.0, 1e-12), "nb1_is_geo": close(obs[0], math.sqrt(va * vb), 1e-12),
                             "nb2_is_geo": close(obs[1], math.sqrt(wa * wb), 1e-12), "symmetric": True})
                raw.append({"rule": rule, "a": types[i], "b": types[j], "observed": obs})
    return recs, raw


def comb_validate(ck, recs, raw, devmap, name, expect_reject=False):
    wd = c.workdir(PROP, name)
    f = wd / "recs.json"
    f.write_text(json.dumps({"devmap": devmap, "recs": recs}))
    res = c.tlc("CombRuleTrace", "Cr_trace.cfg", workers=1, env={"TRACE_FILE": str(f)}, check=False)
    rej = res.tagged("REJECTED")
    if res.rc != 0 and not rej:
        raise c.MachineryError("CombRuleTrace failed: %s" % res.out[-2000:])
    rejected = sorted({int(t) for r in rej for t in r})
    if expect_reject:
        return rejected
    ck.add_tlc(res)
    ck.traces += len(recs) - len(rejected)
    for tid in rejected[:10]:
        ck.violation({"kind": "comb I->S", "devmap": devmap, "record": recs[tid - 1], "raw": raw[tid - 1]},
                     what="gen_pairs record rejected by CombRule (table %s): %s" % ("as found" if devmap else "GROMACS", json.dumps(raw[tid - 1])[:300]))
    return rejected


# =========================================================================== (a) bending: real objects

class RunTimeout(BaseException):
    """raised by the harness's timer inside a gen_coords run (BaseException: the code under test cannot swallow it)"""


SIG_NAN = "straight-angle-nan"


class UniformShim:
    """stands in for the `random` module inside polyply.src.random_walk: scripts / records random.uniform"""

    def __init__(self, log, script=None):
        self._log, self._script = log, script

    def __getattr__(self, k):
        return getattr(random, k)

    def uniform(self, a, b):
        t = self._script(a, b) if self._script else random.uniform(a, b)
        self._log.append(("draw", float(a), float(b), float(t)))
        return t


class BendRig:
    """a real RandomWalk on a real NonBondEngine whose bending table comes from a real [ bending ] build file"""

    def __init__(self, wd, table_lines):
        from polyply.src import random_walk as rwm
        from polyply.src.nonbond_engine import NonBondEngine
        from polyply.src.topology import Topology
        from polyply.src.build_file_parser import read_build_file
        self.rwm = rwm
        wd = Path(wd)
        top = wd / "rig.top"
        top.write_text("\n".join(["[ defaults ]", "1 2 no 1.0 1.0", "[ atomtypes ]", "P 72.0 0.0 A %.2f 4.0" % D,
                                  "[ moleculetype ]", "M 1", "[ atoms ]", "1 P 1 A B1 1 0.0 72", "2 P 2 A B2 2 0.0 72", "3 P 3 A B3 3 0.0 72",
                                  "[ bonds ]", "1 2 1 0.47 1000", "2 3 1 0.47 1000", "[ system ]", "x", "[ molecules ]", "M 1", ""]))
        self.topology = Topology.from_gmx_topfile(name="x", path=top)
        self.topology.preprocess()
        read_build_file(("\n".join(["[ bending ]"] + table_lines) + "\n").splitlines(True), self.topology)
        self.mol = self.topology.molecules[0]
        self.topology.volumes = {"A": D, "B": D}
        box = np.array([20.0, 20.0, 20.0])
        self.engine = NonBondEngine.from_topology(self.topology.molecules, self.topology, box)
        self.B = np.array([10.0, 10.0, 10.0])
        self.C = self.B - np.array([D, 0.0, 0.0])
        self.engine.add_positions(self.C, 0, 0, start=True)
        self.engine.add_positions(self.B, 0, 1, start=False)
        self.log = []
        self.orig_random = rwm.random
        self.orig_prob = NonBondEngine.compute_bending_probability
        log = self.log

        def wp(eng, lp, point, mol_idx, nb, nc):
            p = self.orig_prob(eng, lp, point, mol_idx, nb, nc)
            log.append(("prob", float(lp), float(p)))
            return p
        self.NBE = NonBondEngine
        NonBondEngine.compute_bending_probability = wp
        self.thr = None
        rwm.random = UniformShim(self.log, lambda a, b: self.thr)

    def new_walk(self):
        rw = self.rwm.RandomWalk(0, self.engine)
        rw.molecule = self.mol
        return rw

    def point(self, ang):
        """candidate for node 2 at angle `ang` (degrees) at B between the candidate and C"""
        th = math.radians(ang)
        return self.B + D * np.array([-math.cos(th), math.sin(th), 0.0])

    def set_names(self, tr):
        ra, rb, rc = tr
        self.mol.nodes[2]["resname"], self.mol.nodes[1]["resname"], self.mol.nodes[0]["resname"] = ra, rb, rc

    def close(self):
        self.rwm.random = self.orig_random
        self.NBE.compute_bending_probability = self.orig_prob


def _rank_of(x, lp, cands, init_rank):
    """rank of a float on the grid of the exhaustive instance: 1.0 -> InitRank, a density of a candidate angle -> 10 x angle"""
    if x == 1:
        return init_rank
    for r in cands:
        if close(x, density(lp, r / 10.0), 1e-9):
            return r
    return None


def _bend_chunk(arg):
    wd, lp, init_rank, items = arg
    table = ["A A A %r" % lp, "B A A %r" % lp, "A B A 0.0"]
    try:
        rig = BendRig(wd, table)
    except Exception as exc:
        return [(items[0][0], 0, "cannot build the rig: %s: %s" % (type(exc).__name__, exc), None)] if items else []
    bad = []
    cands = sorted({ev["p"] for _, h in items for ev in h if ev["p"] >= 0})
    lo, hi = density(lp, 1.0), density(lp, 179.0)
    try:
        for ci, hist in items:
            rw = rig.new_walk()
            for k, ev in enumerate(hist):
                del rig.log[:]
                rig.set_names(ev["tr"])
                node = 2 if ev["gp"] else 1
                ang = (ev["p"] / 10.0) if ev["p"] >= 0 else 77.0
                rig.thr = density(lp, ev["t"] / 10.0) if ev["t"] >= 0 else density(lp, 90.0)
                if ev["t"] == 10:
                    rig.thr = lo
                elif ev["t"] == 1790:
                    rig.thr = hi
                try:
                    res = bool(rw.bendiness(rig.point(ang), node))
                except Exception as exc:
                    bad.append((ci, k, "exception %s: %s" % (type(exc).__name__, exc), None))
                    break
                probs = [e for e in rig.log if e[0] == "prob"]
                draws = [e for e in rig.log if e[0] == "draw"]
                got = {"evaluated": bool(probs), "drawn": bool(draws), "res": res, "prev": _rank_of(rw.prev_prob, lp, cands, init_rank),
                       "prev_float": float(rw.prev_prob)}
                why = None
                if got["evaluated"] != (ev["p"] >= 0):
                    why = "bending test %s, specification: %s" % ("evaluated" if probs else "skipped", "evaluate" if ev["p"] >= 0 else "skip")
                elif probs and not density_matches(probs[0][2], lp, ang):
                    why = "probability %r of a %.1f degree angle, documented density %r" % (probs[0][2], ang, density(lp, ang))
                elif got["drawn"] != (ev["t"] >= 0):
                    why = "random.uniform %s, specification: %s" % ("called" if draws else "not called", "draw" if ev["t"] >= 0 else "no draw")
                elif draws and not (close(draws[0][1], lo, 1e-9) and close(draws[0][2], hi, 1e-9)):
                    why = "bounds of the draw %r..%r, density at 1 and 179 degrees %r..%r" % (draws[0][1], draws[0][2], lo, hi)
                elif res != ev["res"]:
                    why = "returned %s, specification %s" % (res, ev["res"])
                elif got["prev"] != ev["prev"]:
                    why = "prev_prob %r (rank %s), specification rank %s" % (rw.prev_prob, got["prev"], ev["prev"])
                if why:
                    bad.append((ci, k, why, got))
                    break
    finally:
        rig.close()
    return bad


def bend_replay(ck, cases, lp, init_rank, label):
    idx = list(enumerate(cases))
    wd = c.workdir(PROP, "bend_" + label)
    parts = []
    for i, ch in enumerate(c.chunks(idx, c.NPROC * 2)):
        d = wd / str(i)
        d.mkdir(exist_ok=True)
        parts.append((str(d), lp, init_rank, ch))
    nbad = 0
    for bad in c.pmap(_bend_chunk, parts):
        for ci, k, why, got in bad:
            nbad += 1
            ck.violation({"kind": "bend S->I", "lp": lp, "init_rank": init_rank, "history": cases[ci][:k + 1], "step": k, "observed": got},
                         what="%s: bendiness diverges from Bending at call %d (%s): %s" % (label, k, json.dumps(cases[ci][k]), why))
    ck.replayed += len(cases)
    for h in cases:
        ck.evaluations += len(h)
        ck.nontrivial.add("bend:%s:%s" % (label, json.dumps([[e["tr"], e["gp"], e["p"], e["t"]] for e in h])))
        for e in h:
            kind = "skip" if e["p"] < 0 else ("improve" if e["t"] < 0 else "threshold")
            ck.actions["bend_" + kind] = ck.actions.get("bend_" + kind, 0) + 1
    return nbad


# --------------------------------------------------------------------------- I -> S: real walks

def _walk_top(rng, nres, nmol, branched):
    names = [rng.choice("AAB") for _ in range(nres)]
    lines = ["[ defaults ]", "1 2 no 1.0 1.0", "[ atomtypes ]", "P 72.0 0.0 A %.2f 4.0" % D, "[ moleculetype ]", "M 1", "[ atoms ]"]
    for i in range(1, nres + 1):
        lines.append("%d P %d %s B %d 0.0 72" % (i, i, names[i - 1], i))
    lines.append("[ bonds ]")
    edges = []
    for i in range(2, nres + 1):
        j = i - 1
        if branched and i > 3 and rng.random() < 0.25:
            j = rng.randint(1, i - 2)
        edges.append((j, i))
        lines.append("%d %d 1 0.47 1000" % (j, i))
    lines += ["[ system ]", "x", "[ molecules ]", "M %d" % nmol, ""]
    return "\n".join(lines), names


def _walk_table(rng):
    table = []
    for tr in [("A", "A", "A"), ("B", "A", "A"), ("A", "B", "A"), ("A", "A", "B"), ("B", "B", "A"), ("B", "A", "B")]:
        r = rng.random()
        if r < 0.55:
            table.append((tr, round(rng.choice([0.5, 2.0, 5.0, 8.0, 20.0, 190.0, 250.0]) * rng.uniform(0.9, 1.1), 3)))
        elif r < 0.7:
            table.append((tr, 0.0))
    if not any(lp for _, lp in table):
        table.append((("A", "A", "A"), 6.0))
    return table


def _record_run(arg):
    """one gen_coords run with a random [ bending ] table; returns the traces (one per RandomWalk object) in rank form"""
    probe = len(arg) > 2 and arg[2] == "probe"
    wd, sd = arg[0], arg[1]
    import signal
    from polyply.src import random_walk as rwm
    from polyply.src.nonbond_engine import NonBondEngine
    from polyply.src.gen_coords import gen_coords
    import warnings
    warnings.simplefilter("ignore")
    rng = random.Random(sd)
    wd = Path(wd)
    wd.mkdir(parents=True, exist_ok=True)
    text, names = _walk_top(rng, rng.randint(5, 14), rng.randint(1, 3), rng.random() < 0.4)
    table = _walk_table(random.Random(sd // 100000 * 7 + sd % 4))     # four tables per check seed: one TLC batch per table
    if probe:
        # straight-continuation probe: three residues A, one constant, candidates exactly opposite to the previous bond
        text = "\n".join(["[ defaults ]", "1 2 no 1.0 1.0", "[ atomtypes ]", "P 72.0 0.0 A %.2f 4.0" % D, "[ moleculetype ]", "M 1", "[ atoms ]",
                          "1 P 1 A B 1 0.0 72", "2 P 2 A B 2 0.0 72", "3 P 3 A B 3 0.0 72", "[ bonds ]", "1 2 1 0.47 1000", "2 3 1 0.47 1000",
                          "[ system ]", "x", "[ molecules ]", "M 1", ""])
        table = [(("A", "A", "A"), [2.0, 20.0, 150.0][sd % 3])]
    (wd / "s.top").write_text(text)
    (wd / "b.bld").write_text("[ bending ]\n" + "".join("%s %s %s %r\n" % (tr + (lp,)) for tr, lp in table))
    walks = []          # list of event lists (floats)
    state = {"cur": None}
    orig_b, orig_p, orig_r = rwm.RandomWalk.bendiness, NonBondEngine.compute_bending_probability, rwm.random

    def wb(self, point, node):
        if getattr(self, "_x03", None) is None:
            self._x03 = len(walks)
            walks.append({"init": float(self.prev_prob), "events": [], "full": False})
        if walks[self._x03]["full"] or self._x03 >= (10 ** 9 if probe else MAX_WALKS):
            state["cur"] = None         # recording budget used up: the rest of this walk runs unobserved
            return orig_b(self, point, node)
        evs = walks[self._x03]["events"]
        state["cur"] = evs
        tree = self.molecule.search_tree
        preds = list(tree.predecessors(node))
        b = preds[0] if preds else None
        cs = list(tree.predecessors(b)) if b is not None else []
        nm = lambda n: str(self.molecule.nodes[n]["resname"])
        gp = len(cs) == 1
        evs.append({"ev": "call", "tr": [nm(node), nm(b) if b is not None else "-", nm(cs[0]) if gp else "-"], "gp": gp})
        state["geom"] = (np.array(point, float), b, cs[0] if gp else None, self.mol_idx)
        mark = len(evs) - 1
        try:
            r = orig_b(self, point, node)
        except RunTimeout:
            del evs[mark:]              # the run is stopped by the harness: the unfinished call is not part of the trace
            state["cur"] = None
            raise
        except Exception as exc:
            evs.append({"ev": "ret", "res": False, "prevf": -1.0, "exception": "%s: %s" % (type(exc).__name__, exc)})
            raise
        evs.append({"ev": "ret", "res": bool(r), "prevf": float(self.prev_prob)})
        if len(evs) > MAX_EVENTS:
            walks[self._x03]["full"] = True
        return r

    def wp(eng, lp, point, mol_idx, nb, nc):
        p = orig_p(eng, lp, point, mol_idx, nb, nc)
        evs = state["cur"]
        if evs is not None:
            ang = angle_deg(point, eng.get_point(mol_idx, nb), eng.get_point(mol_idx, nc))
            pt, b, cc, mi = state["geom"]
            same = (nb == b and nc == cc and mi == mol_idx and np.array_equal(pt, np.asarray(point, float)))
            lpf = float(lp)
            ok = same and lpf > 0 and density_matches(float(p), lpf, ang)
            nan_straight = bool(same and lpf > 0 and float(p) != float(p) and ang > 180.0 - ANG_TOL)
            evs.append({"ev": "prob", "pf": float(p), "lp": lpf, "ang": ang, "prob_ok": bool(ok), "nan_straight": nan_straight,
                        "lof": density(lpf, 1.0) if lpf > 0 else 0.0, "hif": density(lpf, 179.0) if lpf > 0 else 0.0,
                        "topf": density(lpf, 180.0) if lpf > 0 else 0.0})
        return p

    class Shim(UniformShim):
        def uniform(self, a, b):
            t = random.uniform(a, b)
            evs = state["cur"]
            if evs is not None:
                last = [e for e in evs if e["ev"] == "prob"][-1:] or [None]
                ok = last[0] is not None and close(float(a), last[0]["lof"], 1e-9) and close(float(b), last[0]["hif"], 1e-9)
                evs.append({"ev": "draw", "tf": float(t), "bounds_ok": bool(ok), "a": float(a), "b": float(b)})
            return t

    def on_alarm(*_):
        raise RunTimeout("x03 run timed out")
    rwm.RandomWalk.bendiness, NonBondEngine.compute_bending_probability, rwm.random = wb, wp, Shim([], None)
    old = signal.signal(signal.SIGALRM, on_alarm)
    signal.setitimer(signal.ITIMER_REAL, RUN_TIMEOUT, 0.5)
    err = None
    try:
        random.seed(sd)
        np.random.seed(sd % (2 ** 31))
        if probe:
            _straight_probe(wd, rng, rwm, NonBondEngine)
        else:
            gen_coords(toppath=wd / "s.top", outpath=wd / "o.gro", build=[wd / "b.bld"], name="x", box=np.array([9.0, 9.0, 9.0]))
    except RunTimeout:
        err = "timeout"
    except Exception as exc:
        err = "%s: %s" % (type(exc).__name__, exc)
    finally:
        signal.setitimer(signal.ITIMER_REAL, 0)
        signal.signal(signal.SIGALRM, old)
        rwm.RandomWalk.bendiness, NonBondEngine.compute_bending_probability, rwm.random = orig_b, orig_p, orig_r
    return {"seed": sd, "probe": probe, "table": [{"k": list(tr), "nz": bool(lp)} for tr, lp in table], "lps": [[list(tr), lp] for tr, lp in table],
            "walks": [rank_walk(w) for w in walks if w["events"]], "error": err}


def _straight_probe(wd, rng, rwm, NonBondEngine):
    """real objects, exactly straight candidates along random directions (what the walk produces when it draws the same unit vector twice)"""
    from polyply.src.topology import Topology
    from polyply.src.build_file_parser import read_build_file
    t = Topology.from_gmx_topfile(name="x", path=wd / "s.top")
    t.preprocess()
    read_build_file((wd / "b.bld").read_text().splitlines(True), t)
    t.volumes = {"A": D}
    mol = t.molecules[0]
    for _ in range(PROBE_CALLS):
        eng = NonBondEngine.from_topology(t.molecules, t, np.array([20.0, 20.0, 20.0]))
        u = np.array([rng.gauss(0, 1), rng.gauss(0, 1), rng.gauss(0, 1)])
        u /= np.linalg.norm(u)
        b = np.array([10.0, 10.0, 10.0])
        eng.add_positions(b - D * u, 0, 0, start=True)
        eng.add_positions(b, 0, 1, start=False)
        rw = rwm.RandomWalk(0, eng)
        rw.molecule = mol
        rw.bendiness(b + D * u, 2)


def rank_walk(w):
    """replace the floats of one walk by their ranks (order-isomorphic embedding into 1..n)"""
    vals = {w["init"]}
    for e in w["events"]:
        for k in ("pf", "lof", "hif", "topf", "tf", "prevf"):
            if k in e and e[k] == e[k]:
                vals.add(e[k])
    order = {v: i + 1 for i, v in enumerate(sorted(vals))}
    rk = lambda x: order.get(x, 0)
    out = {"init": rk(w["init"]), "events": [], "raw": w}
    for e in w["events"]:
        if e["ev"] == "call":
            out["events"].append({"ev": "call", "tr": e["tr"], "gp": e["gp"]})
        elif e["ev"] == "prob":
            out["events"].append({"ev": "prob", "p": rk(e["pf"]), "lo": rk(e["lof"]), "hi": rk(e["hif"]), "top": rk(e["topf"]), "prob_ok": e["prob_ok"], "nan_straight": e["nan_straight"]})
        elif e["ev"] == "draw":
            out["events"].append({"ev": "draw", "t": rk(e["tf"]), "bounds_ok": e["bounds_ok"]})
        else:
            out["events"].append({"ev": "ret", "res": e["res"], "prev": rk(e["prevf"])})
    return out


def bend_validate(ck, runs, name, expect_reject=False):
    """one TLC run per distinct [ bending ] table would be wasteful: every trace carries nothing table-specific but the
    call events, so all runs are validated in one batch per table signature."""
    groups = {}
    for r in runs:
        groups.setdefault(json.dumps(r["table"], sort_keys=True), []).append(r)
    jobs, docs = [], []
    wd = c.workdir(PROP, name)
    for gi, (sig, rs) in enumerate(sorted(groups.items())):
        traces = [{"init": w["init"], "events": w["events"]} for r in rs for w in r["walks"]]
        src = [((r["seed"], r.get("probe", False)), w) for r in rs for w in r["walks"]]
        if not traces:
            continue
        f = wd / ("t%d.json" % gi)
        f.write_text(json.dumps({"table": rs[0]["table"], "nan_known": SIG_NAN in ck._known, "traces": traces}))
        jobs.append(("BendingTrace", "Bd_trace.cfg", {"workers": 1, "env": {"TRACE_FILE": str(f)}, "check": False}))
        docs.append((rs[0], traces, src))
    rejected = []
    results = []
    for i in range(0, len(jobs), max(1, c.NPROC)):
        results += c.tlc_many(jobs[i:i + max(1, c.NPROC)], workers_each=1)
    for res, (r0, traces, src) in zip(results, docs):
        rej = res.tagged("REJECTED")
        if res.rc != 0 and not rej:
            raise c.MachineryError("BendingTrace failed: %s" % res.out[-2500:])
        rj = {}
        for r in rej:
            rj.update({int(t): int(m) for t, m in r})
        if not expect_reject:
            ck.add_tlc(res)
            ck.traces += len(traces) - len(rj)
        if not expect_reject:
            for tid, (sd, w) in enumerate(src, 1):
                if tid in rj:
                    continue
                for e in w["raw"]["events"]:
                    if e.get("nan_straight"):
                        ck.violation({"kind": "bend I->S", "seed": sd[0], "probe": sd[1], "event": e}, sig=SIG_NAN,
                                     what="straight continuation (monitored angle %.9f) got probability NaN and was rejected" % e["ang"])
        for tid, matched in sorted(rj.items()):
            sd, w = src[tid - 1]
            rejected.append((sd, tid, matched))
            if not expect_reject:
                raw = w["raw"]["events"]
                ck.violation({"kind": "bend I->S", "seed": sd[0], "probe": sd[1], "table": r0["lps"], "trace": traces[tid - 1], "raw": raw[:matched + 2], "matched_events": matched},
                             what="recorded walk (run seed %d%s) rejected by Bending after %d matched events; next event %s" % (
                                 sd[0], ", straight probe" if sd[1] else "", matched, json.dumps(raw[matched])[:300] if matched < len(raw) else "-"))
    return rejected


# =========================================================================== entry points

def run(tier):
    ck = c.Check(PROP, tier)
    ck.rule = ("(a) S->I: every behaviour of 3 calls of RandomWalk.bendiness over 4 resname triples x has-grandparent x 4 candidate angles "
               "(0.5/60/120/180 deg) x 4 scripted thresholds, for an initial prev_prob above the density (lp 5) and inside it (lp 200); a case is "
               "distinct by its call sequence. I->S: gen_coords walks (5-14 residues, 1-3 molecules, linear and branched, random [ bending ] tables "
               "incl. zero and absent constants, lp 0.45..275), one trace per RandomWalk object, floats ranked per walk. "
               "(b) S->I: all (rule, type A, type B) with both columns in {1,2,3}; distinct non-trivial = cases where polyply's table and GROMACS "
               "differ. I->S: random real-valued type tables (3-5 types), one record per generated pair")
    ck.assumptions = ["probabilities enter the specification as ranks (order-isomorphic integers); that a float is the documented density of the "
                      "independently measured angle (atan2) is checked by the numeric monitor with rel. tolerance 1e-6 (prob_ok), the bounds of the draw "
                      "with 1e-9 (bounds_ok)",
                      "lp > 0 (for lp < 0 the density decreases with the angle; not exercised); candidate angles of the exhaustive instance are "
                      "axis-safe (no arccos argument outside [-1, 1])",
                      "combination rules: GROMACS definition taken from the reference manual (1: geometric C6/C12, 2: Lorentz-Berthelot, 3: geometric "
                      "sigma/epsilon); squared values compared exactly as rationals in TLC, the code's floats with rel. 1e-10"]
    sd = c.seed()
    quick = tier == "quick"
    ck.stage("TLC: models, sensitivity, exports (concurrently)")
    wd = c.workdir(PROP, "cfg")
    ncalls = 3
    exp_cfgs = {}
    for nm in ("Bd_export", "Bd_export_in"):
        p = wd / (nm + "_n.cfg")
        p.write_text((c.SPEC / (nm + ".cfg")).read_text().replace("MaxCalls = 2", "MaxCalls = %d" % ncalls))
        exp_cfgs[nm] = p
    simd = wd / "Bd_sim.cfg"
    simd.write_text((c.SPEC / "Bd_export.cfg").read_text().replace("MaxCalls = 2", "MaxCalls = %d" % (6 if quick else 10)))
    jobs = [
        ("BendingMC", "Bd_small.cfg" if quick else "Bd_deep.cfg", {"workers": 2, "coverage": True}),
        ("BendingMC", "Bd_small_in.cfg", {"workers": 1}),
        ("BendingMC", "Bd_mono.cfg", {"workers": 1, "check": False}),
        ("BendingMC", "Bd_dev_nonstrict.cfg", {"workers": 1, "check": False}),
        ("BendingMC", "Bd_dev_keepprev.cfg", {"workers": 1, "check": False}),
        ("BendingMC", "Bd_dev_updrej.cfg", {"workers": 1, "check": False}),
        ("BendingMC", "Bd_dev_thrrev.cfg", {"workers": 1, "check": False}),
        ("BendingMC", "Bd_dev_keyrev.cfg", {"workers": 1, "check": False}),
        ("BendingExport", exp_cfgs["Bd_export"], {"workers": 1}),
        ("BendingExport", exp_cfgs["Bd_export_in"], {"workers": 1}),
        ("BendingExport", simd, {"workers": 1, "simulate": "num=%d" % (40 if quick else 400), "depth": 7 * (6 if quick else 10) + 1, "tseed": sd + 3}),
        ("CombRuleExport", "Cr_small.cfg", {"workers": 1}),
        ("CombRuleExport", "Cr_asis.cfg", {"workers": 1}),
        ("CombRuleExport", "Cr_asis_gmx.cfg", {"workers": 1, "check": False}),
        ("CombRuleExport", "Cr_dev_args.cfg", {"workers": 1, "check": False}),
        ("CombRuleExport", "Cr_dev_harm.cfg", {"workers": 1, "check": False}),
        ("CombRuleExport", "Cr_export.cfg", {"workers": 1}),
        ("CombRuleExport", "Cr_export_gmx.cfg", {"workers": 1}),
    ]
    res = []
    for i in range(0, len(jobs), c.NPROC):
        res += c.tlc_many(jobs[i:i + c.NPROC], workers_each=1)
    (small, small_in, mono, d1, d2, d3, d4, d5, ex, ex_in, sim, cr_small, cr_asis, cr_gmx, cr_args, cr_harm, cr_ex, cr_exg) = res
    # ---- design level
    ck.model_must_hold(small, "Bending P-layer (initial 1 above the density)")
    ck.model_must_hold(small_in, "Bending P-layer (initial 1 inside the density range)")
    cov = small.coverage()
    for act in ("Call", "Skip", "Prob", "Improve", "Draw", "Threshold", "Return"):
        ck.require(cov.get(act, 0) > 0, "Bending action %s never taken (vacuous model)" % act)
    ck.model_must_refute(d1, "DrawOnlyWhenNeeded", "prev_prob <= prob")
    ck.model_must_refute(d2, "PrevIsLastAccepted", "prev_prob kept on threshold acceptance")
    ck.model_must_refute(d3, "RejectKeeps", "prev_prob updated on rejection")
    ck.model_must_refute(d4, "StraightAccepted", "threshold comparison reversed")
    ck.model_must_refute(d5, "LookupRule", "constant looked up under the reversed triple")
    ck.model_must_refute(mono, "PrevMonotone", "expectation 'prev_prob never decreases' (it is lowered by every threshold acceptance)")
    ck.note("X03(a): TLC refutes the expectation 'prev_prob is monotone non-decreasing along a walk': prev_prob starts at 1 (above the density "
            "for lp < ~180), so the first candidate always goes through the draw and prev_prob then drops to that candidate's probability; "
            "what does hold is PrevIsLastAccepted / AcceptRule / StraightAccepted (proved on the instance, validated on real walks)")
    ck.note("X03(a): the [ bending ] directive is reachable (build_file_parser.BuildDirector._bending -> topology.bending -> "
            "NonBondEngine.bending_matrix); its key is (new residue, predecessor, predecessor's predecessor)")
    ck.note("X03(a) observations not asserted (no statement to hold them against): prev_prob is also updated by candidates that are afterwards rejected "
            "for overlap (bendiness runs before _is_overlap), is not reset by _rewind, and is compared across residues with different constants; "
            "angle() ignores periodic images")
    ck.model_must_hold(cr_small, "CombRule with the GROMACS numbering")
    ck.model_must_hold(cr_asis, "CombRule laws that hold for polyply's table (Symmetric, SelfPair, DeviationExtent, Swapped23)")
    ck.model_must_refute(cr_gmx, "AgreesWithGromacs", "polyply's table 1->LB, 2->geometric, 3->LB")
    ck.model_must_refute(cr_args, "Symmetric", "arguments passed per type instead of per column")
    ck.model_must_refute(cr_harm, "AgreesWithGromacs", "harmonic mean")
    # ---- (b) S->I
    ck.stage("comb-rule: replay %d cases" % len(cr_ex.cases()))
    ck.model_must_hold(cr_ex, "CombRule export (as found)")
    ck.model_must_hold(cr_exg, "CombRule export (GROMACS numbering)")
    found, gmx = cr_ex.cases(), cr_exg.cases()
    if len(found) != 243 or len(gmx) != 243:
        raise c.MachineryError("CombRule export: expected 243 cases, got %d / %d" % (len(found), len(gmx)))
    verdict, tally = comb_replay(ck, found, gmx)
    ck.extra["comb_rule_tables"] = {"verdict_per_rule": {str(k): v for k, v in verdict.items()}, "discriminating_cases": {str(k): v for k, v in tally.items()}}
    ex1 = [k for k in found if k["rule"] == 1 and not k["agree"]][0]
    ck.sample({"comb S->I case": ex1})
    if all(v == "as_found" for v in verdict.values()):
        ck.note("X03(b) NOTE N1 reproduced (not a violation of a listed property): gen_pairs maps comb-rule 1->Lorentz-Berthelot, 2->geometric, "
                "3->Lorentz-Berthelot; GROMACS defines 1 geometric (C6/C12), 2 Lorentz-Berthelot, 3 geometric. Minimal example: comb-rule 1, "
                "C6_A = 1, C6_B = 2 (x 1e-3): polyply 1.5 (square 9/4), GROMACS sqrt(2) (square 2). Differs exactly when the first columns differ "
                "(DeviationExtent). See notes/findings_proposed/X03-comb-rule-mapping.md")
        devmap = True
    elif all(v == "gromacs" for v in verdict.values()):
        ck.note("X03(b): the tree follows the GROMACS numbering of the combination rules (note N1 does not reproduce)")
        devmap = False
    else:
        devmap = None
        ck.note("X03(b): per-rule tables differ: %s" % verdict)
    # ---- (b) I->S
    ck.stage("comb-rule: random tables")
    if devmap is not None:
        recs, raw = comb_records(300 if quick else 3000, sd)
        ck.evaluations += len(recs)
        ck.sample({"comb I->S record": recs[0], "raw": raw[0]})
        comb_validate(ck, recs, raw, devmap, "comb_trace")
        bad = [dict(r) for r in recs[:20]]
        k = next(i for i, r in enumerate(bad) if not r["v_equal"])
        bad[k]["nb1_is_arith"], bad[k]["nb1_is_geo"] = bad[k]["nb1_is_geo"], bad[k]["nb1_is_arith"]
        rej = comb_validate(ck, bad, raw[:20], devmap, "comb_corrupt", expect_reject=True)
        ck.require((k + 1) in rej and (ck.violations or rej == [k + 1]),
                   "binding demonstration (comb rule) failed: corrupted record %d, rejected %s" % (k + 1, rej))
        ck.extra["binding_demo_comb"] = "record with swapped mean verdicts rejected (record %d of 20)" % (k + 1)
    # ---- (a) S->I
    ck.stage("bending: replay exhaustive exports")
    ck.model_must_hold(ex, "Bending export")
    ck.model_must_hold(ex_in, "Bending export (initial inside)")
    ca, cb = ex.cases(), ex_in.cases()
    if not ca or not cb:
        raise c.MachineryError("BendingExport produced no cases")
    ck.sample({"bend S->I case": ca[len(ca) // 2]})
    if quick:
        rng = random.Random(sd)
        cb = rng.sample(cb, min(len(cb), 6000))
    bend_replay(ck, ca, LP_OUT, 9999, "out")
    bend_replay(ck, cb, LP_IN, 1795, "in")
    ck.add_tlc(sim)
    sc = list({json.dumps(h, sort_keys=True): h for h in sim.cases()}.values())
    bend_replay(ck, sc, LP_OUT, 9999, "sim")
    # ---- (a) I->S
    ck.stage("bending: real walks")
    nruns = 48 if quick else 600
    wdw = c.workdir(PROP, "walks")
    nprobe = 6 if quick else 30
    runs = c.pmap(_record_run, [(str(wdw / str(i)), sd * 100000 + i) for i in range(nruns)] +
                  [(str(wdw / ("p%d" % i)), sd * 100000 + 50000 + i, "probe") for i in range(nprobe)])
    nwalk = sum(len(r["walks"]) for r in runs)
    nev = sum(len(w["events"]) for r in runs for w in r["walks"])
    errs = [r for r in runs if r["error"] and r["error"] != "timeout"]
    for r in errs[:5]:
        ck.violation({"kind": "bend run", "seed": r["seed"], "table": r["lps"], "error": r["error"]},
                     what="gen_coords with a [ bending ] build file raised: %s" % r["error"])
    kinds = {}
    for r in runs:
        for w in r["walks"]:
            evs = w["events"]
            for i, e in enumerate(evs):
                if e["ev"] == "ret":
                    j = i - 1
                    k = "skip" if evs[j]["ev"] == "call" else ("threshold" if evs[j]["ev"] == "draw" else "improve")
                    kinds[k] = kinds.get(k, 0) + 1
                    ck.actions["walk_" + k] = ck.actions.get("walk_" + k, 0) + 1
            ck.nontrivial.add("walk:%d:%d" % (r["seed"], len(evs)))
    ck.evaluations += nev
    ck.extra["walks"] = {"runs": nruns, "straight_probe_runs": nprobe, "straight_probe_calls": nprobe * PROBE_CALLS, "timeouts": sum(1 for r in runs if r["error"] == "timeout"), "walk_objects": nwalk, "events": nev, "calls_by_kind": kinds}
    for k in ("skip", "threshold", "improve"):
        ck.require(kinds.get(k, 0) > 0, "real walks never took the %s path (vacuous I->S)" % k)
    first = next((w for r in runs for w in r["walks"] if len(w["events"]) > 8), None)
    if first:
        ck.sample({"bend I->S trace (ranks)": first["events"][:9]})
    ck.stage("bending: validate %d walk traces (%d events)" % (nwalk, nev))
    bend_validate(ck, runs, "walk_traces")
    # binding demonstration
    demo = None
    for r in runs:
        if r.get("probe"):
            continue
        for w in r["walks"]:
            idx = [i for i, e in enumerate(w["events"]) if e["ev"] == "ret" and w["events"][i - 1]["ev"] == "draw"]
            if idx and demo is None:
                w2 = {"init": w["init"], "events": [dict(e) for e in w["events"]], "raw": w["raw"]}
                w2["events"][idx[0]]["res"] = not w2["events"][idx[0]]["res"]
                demo = {"seed": r["seed"], "table": r["table"], "lps": r["lps"], "walks": [w2], "error": None}
    if ck.require(demo is not None, "no walk with a threshold decision to corrupt"):
        rej = bend_validate(ck, [demo], "walk_corrupt", expect_reject=True)
        if ck.require(bool(rej), "binding demonstration (bending) failed: a flipped decision was accepted"):
            ck.extra["binding_demo_bending"] = "walk with one flipped return value rejected after %d matched events" % rej[0][2]
    ck.exhaustive = True
    return ck.finish()


def replay(path):
    doc = json.loads(open(path).read())
    case = doc["case"]
    ck = c.Check(PROP, "quick")
    kind = case.get("kind")
    if kind == "bend S->I":
        bend_replay(ck, [case["history"]], case["lp"], case["init_rank"], "replay")
    elif kind == "comb S->I" and "case" in case:
        k = case["case"]
        verdict, _ = comb_replay(ck, [k], [dict(k, out=case["gromacs"])])
    elif kind == "comb I->S":
        comb_validate(ck, [case["record"]], [case["raw"]], case["devmap"], "replay")
    elif kind == "bend I->S":
        r = _record_run((str(c.workdir(PROP, "replay")), case["seed"]) + (("probe",) if case.get("probe") else ()))
        bend_validate(ck, [r], "replay_traces")
    elif kind == "bend run":
        r = _record_run((str(c.workdir(PROP, "replay")), case["seed"]))
        if r["error"]:
            ck.violations += 1
    print("replayed: %s" % ("still fails" if ck.violations else "passes now"))
    return 1 if ck.violations else 0
