"""C04 - supplied coordinates are preserved; only missing parts are built.

spec/GenCoords.tla : which residue takes which rows of the coordinate file (P-layer Status/Rows, I-layer = the loop of
                     add_positions_from_file), OnlyMissingBuilt, RowsDisjoint, RowsPrefix.
spec/Walk.tla      : SuppliedKept / AcceptedStable (ignored molecules) under every failure schedule.
S->I : (a) every system of MC_GenCoords is rendered as .top + .gro and read by the real Topology.add_positions_from_file;
           flags and the row feeding every atom must equal the specification's;
       (b) a stratified subset goes through the real gen_coords (with a random failure schedule forced on the placement):
           output atoms of "given" residues equal their file rows, "centre" residues are backmapped around their row,
           "build" residues are generated; ignored molecule types at every position of [ molecules ];
       (c) Walk schedules with supplied residues scripted into the real code (as in C17).
I->S : the build traces of (b) are validated by WalkTrace (SuppliedKept, nothing but the status-changing rows moves).
spec/SuppliedHist.tla : in-process HISTORIES - the file system (per path: content, number of rows = size, time stamp) and the process are
                     state; every call of gen_coords / add_positions_from_file yields what the file under its path holds when the call is
                     made (CallIsCurrent, SuppliedAreCurrent, CallsDoNotWrite, HistoryLaw, FsIsLastPut); four deviating processes refuted.
S->I (h): exported histories (put / call) executed on the real code, one forked process per history, files of equal size with controlled
          mtime, rewritten in place or replaced by rename; calls through the reader and through the whole program.
I->S (h): seeded longer histories recorded and validated by SuppliedHistTrace (which takes the Put / Call actions of SuppliedHist).
"""
import json
import os
import random
import signal
import tempfile
from pathlib import Path

import numpy as np

from .. import common as c
from .. import walk_util as w
from . import c17

BOX = 12.0


# ------------------------------------------------------------------ rendering

RN = {"A": "A", "B": "SOL", "W": "W"}     # abstract residue name -> name in the files (SOL: readers tend to special-case it)


def type_names(mols):
    names, seen = [], {}
    for ml in mols:
        key = json.dumps(ml, sort_keys=True)
        if key not in seen:
            seen[key] = "T%d" % (len(seen) + 1)
        names.append(seen[key])
    return names, seen


def top_text(mols, ignore_names=()):
    names, seen = type_names(mols)
    lines = ["[ defaults ]", "1 2 no 1.0 1.0", "[ atomtypes ]", "P 36.0 0.0 A 0.40 2.0"]
    for key, name in seen.items():
        ml = json.loads(key)
        lines += ["[ moleculetype ]", "%s 1" % name, "[ atoms ]"]
        k, bonds, last = 0, [], None
        for ri, res in enumerate(ml, 1):
            first = k + 1
            for a in range(res["na"]):
                k += 1
                lines.append("%d P %d %s a%d %d 0.0 36" % (k, ri, RN.get(res["rn"], res["rn"]), a + 1, k))
                if a > 0:
                    bonds.append((k - 1, k, 0.30))
            if last is not None:
                bonds.append((last, first, 0.40))
            last = k
        if bonds:
            lines.append("[ bonds ]")
            lines += ["%d %d 1 %.2f 1000" % b for b in bonds]
    lines += ["[ system ]", "c04", "[ molecules ]"]
    i = 0
    while i < len(names):
        j = i
        while j + 1 < len(names) and names[j + 1] == names[i]:
            j += 1
        lines.append("%s %d" % (names[i], j - i + 1))
        i = j + 1
    return "\n".join(lines) + "\n"


SPLIT = {"on": False}     # variant: consecutive rows sit at opposite box faces, so multi-atom residues are split across the periodic boundary


def row_xyz(i):
    # distinct, well separated, inside the box, exactly representable with 3 decimals
    if SPLIT["on"]:
        return (0.25 if i % 2 else BOX - 0.25, 1.0 + 0.4 * i, 2.0 + 0.001 * i)
    return (0.5 + 0.5 * (i % 20), 1.0 + 0.75 * (i // 20), 2.0 + 0.001 * i)


def gro_text(K):
    # the residue-name column of the coordinate file uses SOL as well (a water-like name must not be dropped by the reader)
    rows = ["%5d%-5s%5s%5d%8.3f%8.3f%8.3f" % ((i, "SOL" if i % 2 else "X", "x", i) + row_xyz(i)) for i in range(1, K + 1)]
    return "rows\n%5d\n%s%s%10.5f%10.5f%10.5f\n" % (K, "\n".join(rows), "\n" if rows else "", BOX, BOX, BOX)


def row_of(pos):
    for i in range(1, 64):
        if np.allclose(pos, row_xyz(i), atol=1e-6):
            return i
    return None


# ------------------------------------------------------------------ (a) consumption

def _consume_one(case):
    SPLIT["on"] = bool(case.get("split"))
    from polyply.src.topology import Topology
    with tempfile.TemporaryDirectory(prefix="verif_c04_", dir="/var/tmp") as wd:
        wd = Path(wd)
        (wd / "s.top").write_text(top_text(case["mols"]))
        (wd / "in.gro").write_text(gro_text(case["K"]))
        try:
            topology = Topology.from_gmx_topfile(name="c04", path=wd / "s.top")
            topology.preprocess()
        except Exception as exc:
            return ("machinery", "cannot read rendered topology: %s: %s" % (type(exc).__name__, exc))
        try:
            topology.add_positions_from_file(wd / "in.gro", skip_res=[RN.get(x, x) for x in case["skip"]], resolution="mol" if case["res"] == "mol" else "meta_mol")
        except IOError as exc:
            return ("ok", None) if case["err"] else ("diff", "IOError raised but the file is sufficient: %s" % exc)
        except Exception as exc:
            if case["K"] == 0:
                return ("skip", "empty coordinate file not readable: %s" % type(exc).__name__)
            return ("diff", "exception %s: %s" % (type(exc).__name__, exc))
        if case["err"]:
            return ("diff", "a residue with incomplete coordinates was accepted")
        got = []
        for mm in topology.molecules:
            for node in mm.nodes:
                d = mm.nodes[node]
                b, bm = d.get("build"), d.get("backmap")
                status = {(True, True): "build", (False, True): "centre", (False, False): "given"}.get((b, bm), "flags %s/%s" % (b, bm))
                rows = []
                if status == "given":
                    idx = {a: mm.molecule.nodes[a]["index"] for a in d["graph"].nodes}
                    for a in sorted(idx, key=idx.get):
                        rows.append(row_of(mm.molecule.nodes[a].get("position", np.array([np.nan] * 3))))
                    cog = np.mean([row_xyz(r) for r in rows if r], axis=0) if all(rows) else None
                    if cog is None or not np.allclose(d["position"], cog, atol=1e-9):
                        status = "given but residue position is not the centre of its atoms"
                elif status == "centre":
                    rows = [row_of(d["position"])]
                elif "position" in d:
                    status = "build with a position attribute"
                got.append({"status": status, "rows": rows})
        exp = [{"status": e["status"], "rows": list(e["rows"])} for e in case["exp"]]
        if got != exp:
            k = next(i for i in range(max(len(got), len(exp))) if i >= len(got) or i >= len(exp) or got[i] != exp[i])
            return ("diff", "residue %d: observed %s, specification %s" % (k + 1, got[k] if k < len(got) else None, exp[k] if k < len(exp) else None))
        return ("ok", None)


# ------------------------------------------------------------------ (b) end to end

class _Timeout(BaseException):
    pass


def _alarm(signum, frame):
    raise _Timeout()


def read_gro(path):
    lines = Path(path).read_text().splitlines()
    n = int(lines[1])
    atoms = []
    for l in lines[2:2 + n]:
        atoms.append((int(l[0:5]), l[5:10].strip(), l[10:15].strip(), np.array([float(l[20:28]), float(l[28:36]), float(l[36:44])])))
    box = [float(x) for x in lines[2 + n].split()]
    return atoms, box


def _e2e_one(arg):
    case, sd, ignore_types = arg
    SPLIT["on"] = bool(case.get("split"))
    from polyply import gen_coords
    rng = random.Random(sd)
    budget = {"n": rng.randint(0, 4)}

    def chooser(kinds):
        if budget["n"] > 0 and rng.random() < 0.35:
            budget["n"] -= 1
            return kinds[1]
        return kinds[0]
    names, _ = type_names(case["mols"])
    ignore = sorted({names[i] for i in ignore_types})
    np.random.seed(sd)
    random.seed(sd)
    signal.signal(signal.SIGALRM, _alarm)
    signal.setitimer(signal.ITIMER_REAL, 150, 5)
    try:
        with tempfile.TemporaryDirectory(prefix="verif_c04_", dir="/var/tmp") as wd:
            wd = Path(wd)
            (wd / "s.top").write_text(top_text(case["mols"]))
            (wd / "in.gro").write_text(gro_text(case["K"]))
            kw = {"coordpath": wd / "in.gro"} if case["res"] == "mol" else {"coordpath_meta": wd / "in.gro"}
            with w.recording(chooser=chooser) as rec:
                try:
                    gen_coords(toppath=wd / "s.top", outpath=wd / "out.gro", name="c04", build_res=[RN.get(x, x) for x in case["skip"]], ignore=ignore,
                               max_force=1e12, **kw)
                    from vermouth.file_writer import DeferredFileWriter
                    DeferredFileWriter().write()
                except _Timeout:
                    return {"noverdict": "timeout"}
                except w.NoVerdict as exc:
                    return {"noverdict": str(exc)}
                except Exception as exc:
                    return {"error_in_code": "%s: %s" % (type(exc).__name__, exc), "evs": rec.events[-20:], "inst": rec.header}
            atoms, box = read_gro(wd / "out.gro")
            return {"atoms": [(r, rn, an, p.tolist()) for r, rn, an, p in atoms], "box": box, "evs": rec.events, "inst": rec.header, "error_in_code": None}
    except _Timeout:
        return {"noverdict": "timeout"}
    finally:
        signal.setitimer(signal.ITIMER_REAL, 0)


def compare_e2e(case, out):
    """output atoms against the specification's row assignment"""
    SPLIT["on"] = bool(case.get("split"))
    k = 0
    atoms = out["atoms"]
    flat = [(mi, ri, res) for mi, ml in enumerate(case["mols"]) for ri, res in enumerate(ml)]
    if len(atoms) != sum(res["na"] for _, _, res in flat):
        return "output lists %d atoms, the topology has %d" % (len(atoms), sum(res["na"] for _, _, res in flat))
    for (mi, ri, res), exp in zip(flat, case["exp"]):
        mine = atoms[k:k + res["na"]]
        k += res["na"]
        pts = np.array([a[3] for a in mine])
        if not np.all(np.isfinite(pts)):
            return "molecule %d residue %d: non-finite coordinate in the output" % (mi + 1, ri + 1)
        if exp["status"] == "given":
            for a, r in zip(mine, exp["rows"]):
                if not np.allclose(a[3], row_xyz(r), atol=1.1e-3):
                    return "molecule %d residue %d atom %s: supplied coordinate (file row %d = %s) became %s" % (mi + 1, ri + 1, a[2], r, row_xyz(r), a[3])
        elif exp["status"] == "centre":
            cog = pts.mean(axis=0)
            if not np.allclose(cog, row_xyz(exp["rows"][0]), atol=2e-3):
                return "molecule %d residue %d: backmapped around %s instead of the supplied centre %s (file row %d)" % (
                    mi + 1, ri + 1, cog.tolist(), row_xyz(exp["rows"][0]), exp["rows"][0])
        else:
            if any(np.allclose(p, row_xyz(i), atol=1e-6) for p in pts for i in range(1, case["K"] + 1)) and res["na"] > 1:
                return "molecule %d residue %d: a residue that was to be generated carries a file row" % (mi + 1, ri + 1)
    if not np.allclose(out["box"][:3], [BOX] * 3, atol=1e-4):
        return "box of the supplied structure not kept: %s" % out["box"]
    return None


def select_e2e(cases, rng, n):
    good = [cs for cs in cases if not cs["err"] and cs["K"] > 0
            and any(e["status"] == "build" for e in cs["exp"]) and any(e["status"] != "build" for e in cs["exp"])]
    strata = {}
    for cs in good:
        key = (cs["res"], len(cs["mols"]), tuple(sorted(cs["skip"])), min(cs["K"], 4))
        strata.setdefault(key, []).append(cs)
    pick = []
    keys = sorted(strata)
    while len(pick) < n and keys:
        for key in list(keys):
            if strata[key]:
                pick.append(strata[key].pop(rng.randrange(len(strata[key]))))
            else:
                keys.remove(key)
            if len(pick) >= n:
                break
    return pick


def ignore_cases():
    """[ molecules ] orders with the ignored single-atom type first / middle / last / repeated; chains are rebuilt (-res)"""
    S = [{"rn": "W", "na": 1}]
    A = [{"rn": "A", "na": 2}, {"rn": "B", "na": 1}, {"rn": "A", "na": 2}]
    res = []
    for order in ([S, S, A, A], [A, A, S, S], [A, S, S, A], [S, A, S, A, S]):
        nS = sum(1 for m in order if m is S)
        exp, row = [], 0
        for ml in order:
            for r in ml:
                if r["rn"] == "W":
                    row += 1
                    exp.append({"status": "given", "rows": [row]})
                else:
                    exp.append({"status": "build", "rows": []})
        res.append(({"mols": [list(m) for m in order], "K": nS, "skip": ["A", "B"], "res": "mol", "err": False, "exp": exp},
                    [i for i, m in enumerate(order) if m is S]))
    return res


# ------------------------------------------------------------------ in-process histories (the file system and the process are state)
#
# spec/SuppliedHist.tla: one python process calls add_positions_from_file / gen_coords again and again while coordinate files are
# put under the same few paths in between.  A file is [f, K, t]: frame f (content), K rows (= size: fixed-width format), stamp t (mtime).

HF_MAX, HK_MAX = 8, 19


def frame_xyz(f, i):
    # distinct over all (frame, row), rows of one frame well separated, inside every frame's box, exact with 3 decimals
    return (0.5 + 0.5 * (i % 20), 1.0 + 1.25 * f, 2.0 + 0.001 * i + 0.01 * f)


def frame_box(f):
    return BOX + 0.25 * f


_HTABLE = {}


def hmatch(pos, atol):
    """(frame, row) whose position `pos` is, or None"""
    if "t" not in _HTABLE:
        keys = [(f, i) for f in range(1, HF_MAX + 1) for i in range(1, HK_MAX + 1)]
        _HTABLE["k"], _HTABLE["t"] = keys, np.array([frame_xyz(f, i) for f, i in keys])
    pos = np.asarray(pos, dtype=float)
    if pos.shape != (3,) or not np.all(np.isfinite(pos)):
        return None
    hit = np.where(np.all(np.abs(_HTABLE["t"] - pos) <= atol, axis=1))[0]
    return _HTABLE["k"][int(hit[0])] if len(hit) == 1 else None


def hbox(box):
    try:
        box = np.asarray(box, dtype=float).reshape(-1)[:3]
    except Exception:
        return -1
    for f in range(1, HF_MAX + 1):
        if len(box) == 3 and np.allclose(box, [frame_box(f)] * 3, atol=1e-4):
            return f
    return -1


def hgro_text(f, K):
    # the same number of rows gives the same number of bytes, whatever the frame (fixed-width format, constant title)
    rows = ["%5d%-5s%5s%5d%8.3f%8.3f%8.3f" % ((i, "SOL" if i % 2 else "X", "x", i) + frame_xyz(f, i)) for i in range(1, K + 1)]
    b = frame_box(f)
    return "rows\n%5d\n%s\n%10.5f%10.5f%10.5f\n" % (K, "\n".join(rows), b, b, b)


def stamp_ns(t):
    # stamps 2k and 2k+1 lie in the same second; equal stamps are equal to the nanosecond (cp -p, rsync -t, copy2 keep it)
    return (1700000000 + 3 * (t // 2)) * 10 ** 9 + (t % 2) * 500000000


def hput(path, f, K, t, how):
    text, ns = hgro_text(f, K), stamp_ns(t)
    if how == "replace":      # written elsewhere and moved into place (new inode)
        tmp = path.with_name("new_" + path.name)
        tmp.write_text(text)
        os.utime(tmp, ns=(ns, ns))
        os.replace(tmp, path)
    else:                     # rewritten in place
        path.write_text(text)
        os.utime(path, ns=(ns, ns))


def _hproject_topology(topology):
    """result of add_positions_from_file in the vocabulary of SuppliedHist: per residue status / rows / frames; frame of the box"""
    rs = []
    for mm in topology.molecules:
        for node in mm.nodes:
            d = mm.nodes[node]
            b, bm = d.get("build"), d.get("backmap")
            status = {(True, True): "build", (False, True): "centre", (False, False): "given"}.get((b, bm), "flags %s/%s" % (b, bm))
            hits = []
            if status == "given":
                idx = {a: mm.molecule.nodes[a]["index"] for a in d["graph"].nodes}
                hits = [hmatch(mm.molecule.nodes[a].get("position", np.array([np.nan] * 3)), 1e-6) for a in sorted(idx, key=idx.get)]
                if not all(hits):
                    status = "given, but an atom carries a position that is in no coordinate file"
                elif not np.allclose(d.get("position", np.array([np.nan] * 3)), np.mean([frame_xyz(*h) for h in hits], axis=0), atol=1e-9):
                    status = "given, but the residue position is not the centre of its atoms"
            elif status == "centre":
                hits = [hmatch(d.get("position", np.array([np.nan] * 3)), 1e-6)]
                if not all(hits):
                    status = "centre, but at a position that is in no coordinate file"
            elif status == "build" and "position" in d:
                status = "build with a position attribute"
            hits = [h for h in hits if h]
            rs.append({"status": status, "rows": [h[1] for h in hits], "frames": [h[0] for h in hits]})
    return rs


def _hproject_output(opt, atoms, box):
    """the same from the written structure: at atom level a residue is `given` if all its atoms are rows of a file and `build` if
    none is; at residue level it is `centre` if its centre of geometry is a row and `build` if not"""
    rs, k = [], 0
    flat = [res for ml in opt["mols"] for res in ml]
    if len(atoms) != sum(res["na"] for res in flat):
        return None, "the output lists %d atoms, the topology has %d" % (len(atoms), sum(res["na"] for res in flat))
    for res in flat:
        pts = np.array([a[3] for a in atoms[k:k + res["na"]]])
        k += res["na"]
        if not np.all(np.isfinite(pts)):
            rs.append({"status": "non-finite coordinate in the output", "rows": [], "frames": []})
        elif opt["res"] == "mol":
            hits = [hmatch(p, 1.1e-3) for p in pts]
            if all(hits):
                rs.append({"status": "given", "rows": [h[1] for h in hits], "frames": [h[0] for h in hits]})
            elif not any(hits):
                rs.append({"status": "build", "rows": [], "frames": []})
            else:
                rs.append({"status": "some atoms of the residue are file rows, others are not", "rows": [h[1] for h in hits if h], "frames": [h[0] for h in hits if h]})
        else:
            h = hmatch(pts.mean(axis=0), 2e-3)
            rs.append({"status": "centre", "rows": [h[1]], "frames": [h[0]]} if h else {"status": "build", "rows": [], "frames": []})
    return rs, None


def _hcall(wd, path, oi, opt, level, rng):
    """one call in the process of the history -> observed result"""
    top = wd / ("s%d.top" % oi)
    if not top.exists():
        top.write_text(top_text(opt["mols"]))
    before = (path.read_bytes(), os.stat(path).st_mtime_ns)
    skip = [RN.get(x, x) for x in opt["skip"]]
    res = {"walk": None}
    if level == "read":
        from polyply.src.topology import Topology
        topology = Topology.from_gmx_topfile(name="c04", path=top)
        topology.preprocess()
        try:
            topology.add_positions_from_file(path, skip_res=skip, resolution="mol" if opt["res"] == "mol" else "meta_mol")
            res.update(err=False, box=hbox(topology.box), rs=_hproject_topology(topology))
        except IOError:
            res.update(err=True, box=0, rs=[])
        except Exception as exc:
            res.update(exc="%s: %s" % (type(exc).__name__, exc))
    else:
        from polyply import gen_coords
        budget = {"n": rng.randint(0, 3)}

        def chooser(kinds):
            if budget["n"] > 0 and rng.random() < 0.35:
                budget["n"] -= 1
                return kinds[1]
            return kinds[0]
        out = wd / "out.gro"
        kw = {"coordpath": path} if opt["res"] == "mol" else {"coordpath_meta": path}
        np.random.seed(rng.randrange(2 ** 31))
        random.seed(rng.randrange(2 ** 31))
        with w.recording(chooser=chooser) as rec:
            try:
                gen_coords(toppath=top, outpath=out, name="c04", build_res=skip, ignore=[], max_force=1e12, **kw)
                from vermouth.file_writer import DeferredFileWriter
                DeferredFileWriter().write()
                atoms, box = read_gro(out)
                rs, bad = _hproject_output(opt, atoms, box)
                if bad:
                    res.update(exc=bad)
                else:
                    res.update(err=False, box=hbox(box), rs=rs)
                if rec.header:
                    res["walk"] = {"inst": rec.header, "evs": rec.events}
            except _Timeout:
                res.update(noverdict="timeout")
            except w.NoVerdict as exc:
                res.update(noverdict=str(exc))
            except IOError:
                res.update(err=True, box=0, rs=[])
            except Exception as exc:
                res.update(exc="%s: %s" % (type(exc).__name__, exc))
    res["intact"] = (path.read_bytes(), os.stat(path).st_mtime_ns) == before
    return res


def _in_own_process(func, *args):
    """func(*args) in a forked child: a history is what ONE process does from its start; whatever the code under test keeps for the
    life of a process starts empty and ends with the history.  The result comes back as JSON through a pipe."""
    r, wfd = os.pipe()
    pid = os.fork()
    if pid == 0:
        code = 1
        try:
            os.close(r)
            try:
                payload = json.dumps({"ok": func(*args)})
            except BaseException as exc:
                import traceback
                payload = json.dumps({"error": "%s: %s\n%s" % (type(exc).__name__, exc, traceback.format_exc()[-1500:])})
            with os.fdopen(wfd, "w") as f:
                f.write(payload)
            code = 0
        finally:
            os._exit(code)
    os.close(wfd)
    with os.fdopen(r) as f:
        data = f.read()
    os.waitpid(pid, 0)
    if not data:
        raise c.MachineryError("the process of a history ended without a result")
    doc = json.loads(data)
    if "error" in doc:
        raise c.MachineryError("driver failed inside the process of a history: %s" % doc["error"])
    return doc["ok"]


def _hist_body(h):
    """h = {id, opts, ops: [put | call (+ level)], seed, how}: executed from the start of a process in one directory; -> the observed
    result of every operation (None for a put); stops at a call without verdict"""
    import shutil
    rng = random.Random(h["seed"])
    wd = c.WORK / "C04" / "hist" / str(h["id"])
    shutil.rmtree(wd, ignore_errors=True)
    wd.mkdir(parents=True)
    signal.signal(signal.SIGALRM, _alarm)
    signal.setitimer(signal.ITIMER_REAL, 240, 5)
    outs = []
    try:
        for k, op in enumerate(h["ops"]):
            path = wd / (op["path"] + ".gro")
            if op["op"] == "put":
                hput(path, op["f"], op["K"], op["t"], h["how"][k % len(h["how"])])
                outs.append(None)
            else:
                outs.append(_hcall(wd, path, op["o"], h["opts"][op["o"] - 1], op.get("level", "read"), rng))
                if "noverdict" in outs[-1]:
                    break
    except _Timeout:
        outs.append({"noverdict": "timeout", "walk": None})
    finally:
        signal.setitimer(signal.ITIMER_REAL, 0)
        shutil.rmtree(wd, ignore_errors=True)
    return outs


def _hist_one(h):
    # the code under test is loaded before the process of the history is forked (loading it is not part of a history)
    import polyply
    import polyply.src.topology
    import polyply.src.build_system
    import vermouth.file_writer
    return _in_own_process(_hist_body, h)


def _opstr(op):
    if op["op"] == "put":
        return "put(%s: frame %d, %d rows, stamp %d)" % (op["path"], op["f"], op["K"], op["t"])
    return "%s(%s, options %d)" % ({"e2e": "gen_coords", "read": "add_positions_from_file"}.get(op.get("level"), "call"), op["path"], op["o"])


def _collides(ops):
    """the history calls on a file after an earlier call on a file of other content with the same number of rows (= the same size) -
    3: under the same path and with the same time stamp; 2: same path, another stamp; 1: under another path; 0: no such call"""
    best, called, cur = 0, set(), {}
    for op in ops:
        p = op["path"]
        if op["op"] == "put":
            cur[p] = (op["f"], op["K"], op["t"])
        else:
            for q, f, K, t in called:
                if f != cur[p][0] and K == cur[p][1]:
                    best = max(best, (3 if t == cur[p][2] else 2) if q == p else 1)
            called.add((p,) + cur[p])
    return best


def hcompare(exp, got):
    """expected (TLC) vs observed result of one call -> None | text"""
    if got.get("exc"):
        return "the call raised %s" % got["exc"]
    if not got["intact"]:
        return "the call changed its input file (bytes or time stamp)"
    if bool(exp["err"]) != bool(got["err"]):
        return "an incomplete residue was accepted" if exp["err"] else "IOError although the current file is sufficient"
    if exp["err"]:
        return None
    ers = [{"status": r["status"], "rows": list(r["rows"]), "frames": list(r["frames"])} for r in exp["rs"]]
    if got["rs"] != ers:
        k = next(i for i in range(max(len(ers), len(got["rs"]))) if i >= len(ers) or i >= len(got["rs"]) or ers[i] != got["rs"][i])
        return "residue %d: observed %s, the file the path holds now gives %s" % (
            k + 1, got["rs"][k] if k < len(got["rs"]) else None, ers[k] if k < len(ers) else None)
    if got["box"] != exp["box"]:
        return "the box is that of frame %s, the file the path holds now is frame %s" % (got["box"], exp["box"])
    return None


def history_replay(ck, res, tier, rng, sd):
    """S->I: histories exported by SuppliedHist executed on the real code, one process per history"""
    opts = res.tagged("HOPTS")
    hists = res.tagged("HIST")
    ck.require(opts and len(hists) > 1000, "SuppliedHist exported %d option tables / %d histories" % (len(opts), len(hists)))
    opts = opts[0]
    key = {json.dumps(h, sort_keys=True): h for h in hists}
    hists = [key[k] for k in sorted(key)]
    cls = {0: [], 1: [], 2: [], 3: []}
    for h in hists:
        cls[_collides(h)].append(h)
    ck.extra["histories_exported"] = len(hists)
    ck.extra["histories_calling_again_on_other_content_of_the_same_size (same path+stamp / same path / other path)"] = [len(cls[3]), len(cls[2]), len(cls[1])]
    ck.require(len(cls[3]) >= 10 and len(cls[2]) >= 10 and len(cls[1]) >= 50,
               "too few exported histories call again on other content of the same size: %s" % [len(cls[3]), len(cls[2]), len(cls[1])])
    for v in cls.values():
        rng.shuffle(v)
    if tier == "quick":
        nread, ne2e = 260, 24
        todo = cls[3] + cls[2] + cls[1][:nread // 3]
        todo += cls[0][:nread - len(todo)]
    else:
        ne2e = 240
        todo = list(hists)
    noerr = lambda h: not any(op["op"] == "call" and op["res"]["err"] for op in h)
    same, other = [h for h in cls[3] + cls[2] if noerr(h)], [h for h in cls[1] if noerr(h)]
    e2e = same[:2 * ne2e // 3]
    e2e += other[:ne2e - len(e2e)]
    e2e += [h for h in cls[0] if noerr(h)][:ne2e - len(e2e)]
    jobs = []
    for i, h in enumerate(todo):
        jobs.append({"id": "r%d" % i, "opts": opts, "ops": [dict(op, level="read") for op in h], "seed": sd * 100000 + i,
                     "how": ["write", "replace"] if i % 2 else ["write"]})
    for i, h in enumerate(e2e):
        # calls alternate between the whole program and the reader (the process state is shared by both)
        lv = ["e2e", "read", "e2e"] if i % 3 == 0 else ["e2e"]
        ops, n = [], 0
        for op in h:
            if op["op"] == "call":
                ops.append(dict(op, level=lv[n % len(lv)]))
                n += 1
            else:
                ops.append(dict(op))
        jobs.append({"id": "e%d" % i, "opts": opts, "ops": ops, "seed": sd * 100000 + 50000 + i, "how": ["replace", "write"] if i % 2 else ["write"]})
    outs = c.pmap(_hist_one, jobs, chunksize=4)
    walks, nov, ncalls, nagain = [], 0, {"read": 0, "e2e": 0}, 0
    for job, out in zip(jobs, outs):
        ck.replayed += 1
        ck.count("hist:" + json.dumps([job["ops"], job["how"]], sort_keys=True))
        nagain += 1 if _collides(job["ops"]) else 0
        for k, (op, got) in enumerate(zip(job["ops"], out)):
            ck.actions["history:" + op["op"]] = ck.actions.get("history:" + op["op"], 0) + 1
            if got is None:
                continue
            if "noverdict" in got:
                nov += 1
                break
            ncalls[op["level"]] += 1
            if got.get("walk"):
                walks.append(got["walk"])
            bad = hcompare(op["res"], got)
            if bad:
                ck.violation({"kind": "history", "job": job, "step": k, "detail": bad},
                             what="in-process history %s: operation %d: %s" % (" ; ".join(_opstr(o) for o in job["ops"][:k + 1]), k + 1, bad))
                break
    ck.extra["histories_replayed"] = len(jobs)
    ck.extra["history_calls (reader / whole program)"] = [ncalls["read"], ncalls["e2e"]]
    ck.extra["histories_replayed_calling_again_after_same_size_rewrite"] = nagain
    ck.extra["history_calls_without_verdict"] = nov
    ck.require(ncalls["e2e"] >= len(e2e) >= min(ne2e, 30) and nagain >= min(100, len(jobs) // 3), "the replayed histories hardly call a path again after a same-size rewrite (%d) / hardly run gen_coords (%d)" % (nagain, ncalls["e2e"]))
    ck.sample({"history (S->I)": [_opstr(o) for o in e2e[0]] if e2e else None, "options by index": opts})
    return walks


# options of the recorded histories (beyond the exhaustive instance: more molecules, longer chains, more paths, frames, stamps, rows)
_X = [{"rn": "A", "na": 1}]
_Y = [{"rn": "A", "na": 2}, {"rn": "B", "na": 1}]
_Z = [{"rn": "B", "na": 2}, {"rn": "A", "na": 1}, {"rn": "B", "na": 2}]
_C = [{"rn": "A", "na": 2}, {"rn": "B", "na": 1}, {"rn": "A", "na": 2}, {"rn": "B", "na": 1}]
TOPTS = [{"mols": [_Z], "skip": [], "res": "mol"}, {"mols": [_Z], "skip": ["A"], "res": "mol"}, {"mols": [_Y, _X], "skip": [], "res": "meta"},
         {"mols": [_Y, _Z, _X], "skip": [], "res": "mol"}, {"mols": [_X, _Y, _Y], "skip": ["B"], "res": "mol"},
         {"mols": [_Z, _Z], "skip": [], "res": "meta"}, {"mols": [_Y, _Z], "skip": ["A"], "res": "meta"}, {"mols": [_C, _C], "skip": [], "res": "mol"}]


def _opt_limit(opt):
    return sum(r["na"] for ml in opt["mols"] for r in ml) if opt["res"] == "mol" else sum(len(ml) for ml in opt["mols"])


def hist_trace_job(seed):
    """I->S: a seeded history of 9-14 operations on 2-3 paths; a put often keeps the number of rows and the stamp of the file it replaces"""
    rng = random.Random(seed)
    paths = ["P1", "P2", "P3"][:rng.choice([2, 3])]
    n = rng.randint(9, 14)
    cur, ops, called = {}, [], {}
    while len(ops) < n:
        if not cur or rng.random() < 0.45:
            p = rng.choice(paths)
            if p in cur and rng.random() < 0.7:
                K, t = cur[p][1], cur[p][2] if rng.random() < 0.7 else rng.randint(0, 5)
            else:
                K, t = rng.randint(1, 9), rng.randint(0, 5)
            f = rng.choice([x for x in range(1, 7) if p not in cur or x != cur[p][0]])
            cur[p] = (f, K, t)
            ops.append({"op": "put", "path": p, "f": f, "K": K, "t": t})
        else:
            # preferably a path that was called before and holds another file now
            again = [q for q in sorted(cur) if q in called and called[q] != cur[q]]
            p = rng.choice(again) if again and rng.random() < 0.75 else rng.choice(sorted(cur))
            called[p] = cur[p]
            ok = [i + 1 for i, o in enumerate(TOPTS) if _opt_limit(o) >= cur[p][1]]
            ops.append({"op": "call", "path": p, "o": rng.choice(ok), "level": "e2e" if rng.random() < 0.2 else "read"})
    return {"id": "t%d" % seed, "opts": TOPTS, "ops": ops, "seed": seed, "how": [rng.choice(["write", "replace"]) for _ in range(5)]}


def trace_of(job, out):
    """recorded history -> events for SuppliedHistTrace (None: no verdict); the history ends before a call without verdict"""
    evs = []
    for op, got in zip(job["ops"], out):
        if got is None:
            evs.append({k: op[k] for k in ("op", "path", "f", "K", "t")})
        elif "noverdict" in got:
            break
        elif got.get("exc"):
            return evs, got["exc"]
        else:
            evs.append({"op": "call", "path": op["path"], "o": op["o"], "level": op["level"], "err": bool(got["err"]), "box": got["box"],
                        "rs": got["rs"], "intact": bool(got["intact"])})
    return evs, None


def validate_hist(traces, name):
    wd = c.workdir("C04", name)
    f = wd / "hist_traces.json"
    f.write_text(json.dumps({"opts": TOPTS, "traces": traces}))
    res = c.tlc("SuppliedHistTrace", "SH_trace.cfg", workers=1, env={"TRACE_FILE": str(f)}, check=False, timeout=3000)
    rej = res.tagged("REJECTED")
    if res.inv_violated or (res.rc != 0 and not rej):
        raise c.MachineryError("SuppliedHistTrace failed: %s" % res.out[-2500:])
    rejected = {}
    for r in rej:
        rejected.update({int(t): int(m) for t, m in r})
    return res, rejected


def history_traces_run(tier, sd):
    n = 18 if tier == "quick" else 200
    jobs = [hist_trace_job(sd * 100000 + 70000 + k) for k in range(n)]
    return jobs, c.pmap(_hist_one, jobs)


def history_traces_judge(ck, jobs, outs):
    """validate the recorded histories with SuppliedHistTrace; one corrupted copy must be rejected (binding demonstration)"""
    traces, seeds, walks, again, ne2e = [], [], [], 0, 0
    for job, out in zip(jobs, outs):
        evs, exc = trace_of(job, out)
        for got in out:
            if got and got.get("walk"):
                walks.append(got["walk"])
        if exc:
            k = len(evs)
            ck.violation({"kind": "history trace", "seed": job["seed"], "job": job, "step": k, "detail": exc},
                         what="in-process history (seed %d) %s: operation %d raised %s" % (job["seed"], " ; ".join(_opstr(o) for o in job["ops"][:k + 1]), k + 1, exc))
            continue
        if sum(1 for e in evs if e["op"] == "call") < 2:
            continue
        traces.append(evs)
        seeds.append(job)
        again += 1 if _collides_trace(evs) else 0
        ne2e += sum(1 for e in evs if e["op"] == "call" and e["level"] == "e2e")
    # binding demonstration: in a copy of a recorded history, a call after a same-size rewrite reports the rows of the frame before
    corrupt = None
    for evs in traces:
        corrupt = _corrupted(evs)
        if corrupt:
            break
    ck.require(corrupt is not None, "no recorded history calls a path again after a same-size rewrite")
    from concurrent.futures import ThreadPoolExecutor
    fut = ThreadPoolExecutor(1).submit(validate_hist, traces + [corrupt[0]], "hist_traces")      # runs beside stage (b)

    def finish():
        return _history_traces_finish(ck, jobs, traces, seeds, corrupt, again, ne2e, fut)
    return walks, finish


def _history_traces_finish(ck, jobs, traces, seeds, corrupt, again, ne2e, fut):
    res, rejected = fut.result()
    ck.add_tlc(res)
    ck.require(rejected.get(len(traces) + 1) == corrupt[1], "SuppliedHistTrace accepted a history in which a call reports the rows of the "
               "previous file (binding demonstration): %s" % rejected)
    rejected.pop(len(traces) + 1, None)
    ck.traces += len(traces) - len(rejected)
    ck.evaluations += len(traces)
    for i, evs in enumerate(traces):
        ck.nontrivial.add("histtrace:%d" % seeds[i]["seed"])
        for e in evs:
            ck.actions["histtrace:" + e["op"]] = ck.actions.get("histtrace:" + e["op"], 0) + 1
    for tid, matched in sorted(rejected.items()):
        job, evs = seeds[tid - 1], traces[tid - 1]
        nxt = evs[matched] if matched < len(evs) else None
        ck.violation({"kind": "history trace", "seed": job["seed"], "job": job, "step": matched, "trace": evs[:matched + 1]},
                     what="in-process history (seed %d) rejected by SuppliedHist at operation %d: %s ; observed %s" % (
                         job["seed"], matched + 1, " ; ".join(_opstr(o) for o in job["ops"][:matched + 1]), json.dumps(nxt)[:500]))
    ck.extra["history_traces"] = len(traces)
    ck.extra["history_traces_calling_again_after_same_size_rewrite"] = again
    ck.extra["history_trace_gen_coords_calls"] = ne2e
    ck.require(again >= len(jobs) // 4 and ne2e >= len(jobs) // 2, "the recorded histories hardly ever call a path again after a same-size rewrite (%d) / "
               "hardly run gen_coords (%d)" % (again, ne2e))
    if traces:
        ck.sample({"recorded history (I->S)": [_opstr(e) for e in traces[0]]})


def _collides_trace(evs):
    return _collides(evs)


def _corrupted(evs):
    """copy of the history in which the first call after a same-size rewrite reports the frame the path held before -> (events, index)"""
    cur, called = {}, {}
    for k, e in enumerate(evs):
        p = e["path"]
        if e["op"] == "put":
            cur[p] = (e["f"], e["K"])
        elif not e["err"]:
            old = [f for f, K in called.get(p, ()) if f != cur[p][0] and K == cur[p][1]]
            if old and any(r["frames"] for r in e["rs"]):
                bad = json.loads(json.dumps(evs))
                for r in bad[k]["rs"]:
                    r["frames"] = [old[0]] * len(r["frames"])
                bad[k]["box"] = old[0]
                return bad, k
            called.setdefault(p, set()).add(cur[p])
    return None


def run(tier):
    ck = c.Check("C04", tier)
    sd = c.seed()
    rng = random.Random(sd)
    ck.rule = ("(a) all systems of MC_GenCoords (<=3 molecules of 3 types, residues of 1-2 atoms, every file length, -res subsets, atom- and "
               "residue-level files) read by the real add_positions_from_file; (b) stratified subset + ignore orders through gen_coords under a random "
               "failure schedule; (c) Walk schedules with supplied residues; (h) in-process histories of SuppliedHist (2 paths x 2 frames x 2 sizes x 2 stamps, "
               "3 option sets, 4 operations): all with a call on other content of the same size after an earlier call + a sample of the rest through "
               "the reader, a subset through gen_coords, one process each; seeded recorded histories of 9-14 operations; distinct = rendered input / history")
    ck.assumptions = ["coordinates are compared at .gro precision (1e-3 nm; 2e-3 nm for the centre of a backmapped residue)",
                      "one coordinate file per call (-c or -mc); ignored molecule types are fully supplied",
                      "histories: file content is identified by its coordinates (frames); size and mtime of the rendered files are set by the harness "
                      "(os.utime), no wall-clock value enters a verdict"]
    ck.stage("TLC: GenCoords + Walk models")
    hdevs = {"cacheByStat": ("CallIsCurrent", "parsed coordinate files are remembered under (path, size, time stamp)"),
             "cacheByPath": ("CallIsCurrent", "parsed coordinate files are remembered under their path"),
             "bufferReused": ("CallIsCurrent", "the row buffer of the previous call is reused"),
             "callRestamps": ("FsIsLastPut", "a call touches its input file")}
    gc, dev, small, d1, hsmall, hexp, ex = c.tlc_many(
        [("MC_GenCoords", "GC_small.cfg", {"workers": 4}),
         ("MC_GenCoords", "GC_dev_skip.cfg", {"check": False, "workers": 1}),
         ("MC_Walk", "Walk_small.cfg" if tier == "quick" else "Walk_deep.cfg", {"workers": 3}),
         ("MC_Walk", "Walk_dev_retryall.cfg", {"check": False, "workers": 1}),
         ("MC_SuppliedHist", "SH_small.cfg", {"workers": 2}),
         ("MC_SuppliedHist", "SH_export.cfg", {"workers": 1}),
         ("WalkExport", "Walk_export.cfg", {"workers": 3})])
    ck.model_must_hold(gc, "LoopIsDeclarative/RowsDisjoint/RowsPrefix/OnlyMissingBuilt")
    ck.model_must_refute(dev, "LoopIsDeclarative", "residues named for rebuilding consume rows (-res ignored)")
    ck.model_must_hold(small, "SuppliedKept/AcceptedStable under all failure schedules")
    ck.model_must_refute(d1, "SuppliedKept", "a failed attempt removes supplied positions (F5)")
    ck.model_must_hold(hsmall, "CallIsCurrent/SuppliedAreCurrent/CallsDoNotWrite on the complete state graph of the process (no bound on the history)")
    # the bounded instance also starts the four deviating processes: TLC prints the first reachable law-breaking state of each (its hist
    # is the counterexample history) and the postcondition of the run requires that every deviation was refuted
    wit = {x["dev"]: x for x in hexp.tagged("WITNESS")}
    if hexp.tagged("UNREFUTED"):
        raise c.MachineryError("sensitivity (MC_SuppliedHist/SH_export.cfg): deviations not refuted: %s" % hexp.tagged("UNREFUTED"))
    ck.model_must_hold(hexp, "HistoryLaw/CallIsCurrent/FsIsLastPut on all histories of 4 operations of the intended process")
    if set(wit) != set(hdevs):
        raise c.MachineryError("sensitivity (MC_SuppliedHist/SH_export.cfg): no counterexample for %s" % sorted(set(hdevs) - set(wit)))
    for d, (inv, what) in hdevs.items():
        if wit[d]["holds"][inv]:
            raise c.MachineryError("sensitivity (SH_export.cfg): deviation %s (%s) does not break %s" % (d, what, inv))
    ck.tlc_runs[-1]["deviations_refuted_in_this_run"] = ["%s (%s)" % (d, hdevs[d][0]) for d in sorted(wit)]
    ck.extra["history_deviations_refuted"] = {d: {"what": hdevs[d][1], "breaks": sorted(k for k, v in wit[d]["holds"].items() if not v),
                                                  "counterexample": [_opstr(o) for o in wit[d]["hist"]]} for d in sorted(wit)}
    cases = gc.cases()
    ck.require(len(cases) > 500, "too few GenCoords cases exported: %d" % len(cases))
    ck.stage("S->I (a): coordinate consumption on %d systems" % len(cases))
    split_cases = [dict(cs, split=True) for cs in cases if cs["res"] == "mol" and any(r["na"] > 1 for ml in cs["mols"] for r in ml)]
    if tier == "quick":
        split_cases = rng.sample(split_cases, min(len(split_cases), 300))
    allc = cases + split_cases
    res = c.pmap(_consume_one, allc, chunksize=16)
    for cs, (kind, msg) in zip(allc, res):
        if kind == "machinery":
            raise c.MachineryError(msg)
        if kind == "skip":
            ck.extra["skipped_empty_file"] = ck.extra.get("skipped_empty_file", 0) + 1
            continue
        ck.replayed += 1
        ck.count(json.dumps([cs["mols"], cs["K"], sorted(cs["skip"]), cs["res"], bool(cs.get("split"))], sort_keys=True))
        if kind == "diff":
            ck.violation({"kind": "consume", "case": cs}, what="add_positions_from_file on %s: %s" % (
                json.dumps({"molecules": cs["mols"], "rows": cs["K"], "res": sorted(cs["skip"]), "level": cs["res"]}), msg))
    ck.sample({"consumption case": cases[len(cases) // 2]})
    ck.stage("S->I (h): in-process histories (files rewritten between calls) on the real code")
    hwalks = history_replay(ck, hexp, tier, rng, sd)
    ck.stage("I->S (h): recorded in-process histories")
    hjobs, houts = history_traces_run(tier, sd)
    w2, hist_finish = history_traces_judge(ck, hjobs, houts)
    hwalks += w2
    ck.stage("S->I (b): end to end through gen_coords")
    n = 28 if tier == "quick" else 220
    picked = [(cs, sd * 1000 + i, []) for i, cs in enumerate(select_e2e(cases, rng, n))]
    picked += [(dict(cs, split=True), sd * 1000 + 300 + i, []) for i, cs in enumerate(select_e2e([x for x in cases if x["res"] == "mol"], rng, max(6, n // 4)))]
    picked += [(cs, sd * 1000 + 500 + i, ign) for i, (cs, ign) in enumerate(ignore_cases())]
    outs = c.pmap(_e2e_one, picked)
    traces, nov = [], 0
    for (cs, s, ign), out in zip(picked, outs):
        if "noverdict" in out:
            nov += 1
            continue
        ck.count(json.dumps(["e2e", cs["mols"], cs["K"], sorted(cs["skip"]), cs["res"], ign], sort_keys=True))
        if out.get("error_in_code"):
            ck.violation({"kind": "e2e", "case": cs, "seed": s, "ignore": ign, "error": out["error_in_code"]},
                         what="gen_coords raised on a system with supplied coordinates (%s, ignore=%s): %s" % (
                             json.dumps({"molecules": cs["mols"], "rows": cs["K"], "res": sorted(cs["skip"]), "level": cs["res"]}), ign, out["error_in_code"]))
            continue
        bad = compare_e2e(cs, out)
        if bad:
            ck.violation({"kind": "e2e", "case": cs, "seed": s, "ignore": ign, "detail": bad}, what="gen_coords output: %s" % bad)
        if out["inst"]:
            traces.append({"inst": out["inst"], "evs": out["evs"]})
            for e in out["evs"]:
                ck.actions["trace:" + e["ev"]] = ck.actions.get("trace:" + e["ev"], 0) + 1
    traces += hwalks          # the builds inside the histories
    for tr in hwalks:
        for e in tr["evs"]:
            ck.actions["trace:" + e["ev"]] = ck.actions.get("trace:" + e["ev"], 0) + 1
    ck.extra["no_verdict_runs"] = nov
    ck.extra["e2e_runs"] = len(picked) - nov
    ck.require(len(picked) - nov >= 0.8 * len(picked), "too many gen_coords runs without verdict: %d of %d" % (nov, len(picked)))
    ck.stage("I->S: recorded histories (SuppliedHistTrace), build traces of the end-to-end runs (WalkTrace)")
    hist_finish()
    if traces:
        c17.validate(ck, traces, "e2e")
        ck.sample({"e2e trace events": [e["ev"] for e in traces[0]["evs"]][:30], "instance": traces[0]["inst"]})
    ck.require(ck.actions.get("trace:cleanup") and ck.actions.get("trace:fail"), "the end-to-end runs contain no failed attempt (vacuous for the failure clause)")
    ck.stage("S->I (c): Walk schedules with supplied residues")
    ck.model_must_hold(ex, "export")
    sup = [x for x in ex.cases() if any(x["inst"]["attr"])]
    if tier == "quick":
        sup = rng.sample(sup, min(len(sup), 700))
    c17.replay_cases(ck, sup, "supplied schedules")
    ck.exhaustive = True
    return ck.finish()


def replay(path):
    doc = json.loads(open(path).read())
    case = doc["case"]
    ck = c.Check("C04", "quick")
    if case["kind"] == "consume":
        kind, msg = _consume_one(case["case"])
        print(kind, msg)
        return 1 if kind == "diff" else 0
    if case["kind"] == "e2e":
        out = _e2e_one((case["case"], case["seed"], case["ignore"]))
        bad = out.get("error_in_code") or compare_e2e(case["case"], out)
        print("replayed:", bad or "no violation")
        return 1 if bad else 0
    if case["kind"] == "history":
        job, k = case["job"], case["step"]
        out = _hist_one(job)
        bad = hcompare(job["ops"][k]["res"], out[k]) if k < len(out) and out[k] and "noverdict" not in out[k] else "no verdict"
        print("replayed history %s: operation %d: %s" % (" ; ".join(_opstr(o) for o in job["ops"][:k + 1]), k + 1, bad or "no violation"))
        return 1 if bad and bad != "no verdict" else 0
    if case["kind"] == "history trace":
        job = case["job"]
        evs, exc = trace_of(job, _hist_one(job))
        if exc:
            print("replayed history: raised %s" % exc)
            return 1
        res, rejected = validate_hist([evs], "replay_hist")
        print("replayed history (seed %d): %s" % (job["seed"], ("rejected after %d operations" % rejected[1]) if rejected else "accepted"))
        return 1 if rejected else 0
    return c17.replay(path)
