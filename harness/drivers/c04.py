"""C04 - supplied coordinates are preserved; only missing parts are built.

spec/GenCoords.tla : which residue takes which rows of the coordinate file (P-layer Status/Rows, I-layer = the loop of
                     add_positions_from_file), OnlyMissingBuilt, RowsDisjoint, RowsPrefix.
spec/Walk.tla      : SuppliedKept / AcceptedStable (ignored molecules) under every failure schedule.
S->I : (a) every system of MC_GenCoords is rendered as .top + .gro and read by the real Topology.add_positions_from_file;
           flags and the row feeding every atom must equal the specification's;
       (b) a stratified subset goes through the real gen_coords (with a random failure schedule forced on the placement):
           output atoms of "given" residues equal their file rows, "centre" residues are backmapped around their row,
           "build" residues are generated; ignored molecule types at every position of [ molecules ];
       (c) Walk schedules with supplied residues scripted into the real code (as in C17).
I->S : the build traces of (b) are validated by WalkTrace (SuppliedKept, nothing but the status-changing rows moves).
"""
import json
import os
import random
import signal
import tempfile
from pathlib import Path

import numpy as np

from .. import common as c
from .. import walk_util as w
from . import c17

BOX = 12.0


# ------------------------------------------------------------------ rendering

RN = {"A": "A", "B": "SOL", "W": "W"}     # abstract residue name -> name in the files (SOL: readers tend to special-case it)


def type_names(mols):
    names, seen = [], {}
    for ml in mols:
        key = json.dumps(ml, sort_keys=True)
        if key not in seen:
            seen[key] = "T%d" % (len(seen) + 1)
        names.append(seen[key])
    return names, seen


def top_text(mols, ignore_names=()):
    names, seen = type_names(mols)
    lines = ["[ defaults ]", "1 2 no 1.0 1.0", "[ atomtypes ]", "P 36.0 0.0 A 0.40 2.0"]
    for key, name in seen.items():
        ml = json.loads(key)
        lines += ["[ moleculetype ]", "%s 1" % name, "[ atoms ]"]
        k, bonds, last = 0, [], None
        for ri, res in enumerate(ml, 1):
            first = k + 1
            for a in range(res["na"]):
                k += 1
                lines.append("%d P %d %s a%d %d 0.0 36" % (k, ri, RN.get(res["rn"], res["rn"]), a + 1, k))
                if a > 0:
                    bonds.append((k - 1, k, 0.30))
            if last is not None:
                bonds.append((last, first, 0.40))
            last = k
        if bonds:
            lines.append("[ bonds ]")
            lines += ["%d %d 1 %.2f 1000" % b for b in bonds]
    lines += ["[ system ]", "c04", "[ molecules ]"]
    i = 0
    while i < len(names):
        j = i
        while j + 1 < len(names) and names[j + 1] == names[i]:
            j += 1
        lines.append("%s %d" % (names[i], j - i + 1))
        i = j + 1
    return "\n".join(lines) + "\n"


SPLIT = {"on": False}     # variant: consecutive rows sit at opposite box faces, so multi-atom residues are split across the periodic boundary


def row_xyz(i):
    # distinct, well separated, inside the box, exactly representable with 3 decimals
    if SPLIT["on"]:
        return (0.25 if i % 2 else BOX - 0.25, 1.0 + 0.4 * i, 2.0 + 0.001 * i)
    return (0.5 + 0.5 * (i % 20), 1.0 + 0.75 * (i // 20), 2.0 + 0.001 * i)


def gro_text(K):
    # the residue-name column of the coordinate file uses SOL as well (a water-like name must not be dropped by the reader)
    rows = ["%5d%-5s%5s%5d%8.3f%8.3f%8.3f" % ((i, "SOL" if i % 2 else "X", "x", i) + row_xyz(i)) for i in range(1, K + 1)]
    return "rows\n%5d\n%s%s%10.5f%10.5f%10.5f\n" % (K, "\n".join(rows), "\n" if rows else "", BOX, BOX, BOX)


def row_of(pos):
    for i in range(1, 64):
        if np.allclose(pos, row_xyz(i), atol=1e-6):
            return i
    return None


# ------------------------------------------------------------------ (a) consumption

def _consume_one(case):
    SPLIT["on"] = bool(case.get("split"))
    from polyply.src.topology import Topology
    with tempfile.TemporaryDirectory(prefix="verif_c04_", dir="/var/tmp") as wd:
        wd = Path(wd)
        (wd / "s.top").write_text(top_text(case["mols"]))
        (wd / "in.gro").write_text(gro_text(case["K"]))
        try:
            topology = Topology.from_gmx_topfile(name="c04", path=wd / "s.top")
            topology.preprocess()
        except Exception as exc:
            return ("machinery", "cannot read rendered topology: %s: %s" % (type(exc).__name__, exc))
        try:
            topology.add_positions_from_file(wd / "in.gro", skip_res=[RN.get(x, x) for x in case["skip"]], resolution="mol" if case["res"] == "mol" else "meta_mol")
        except IOError as exc:
            return ("ok", None) if case["err"] else ("diff", "IOError raised but the file is sufficient: %s" % exc)
        except Exception as exc:
            if case["K"] == 0:
                return ("skip", "empty coordinate file not readable: %s" % type(exc).__name__)
            return ("diff", "exception %s: %s" % (type(exc).__name__, exc))
        if case["err"]:
            return ("diff", "a residue with incomplete coordinates was accepted")
        got = []
        for mm in topology.molecules:
            for node in mm.nodes:
                d = mm.nodes[node]
                b, bm = d.get("build"), d.get("backmap")
                status = {(True, True): "build", (False, True): "centre", (False, False): "given"}.get((b, bm), "flags %s/%s" % (b, bm))
                rows = []
                if status == "given":
                    idx = {a: mm.molecule.nodes[a]["index"] for a in d["graph"].nodes}
                    for a in sorted(idx, key=idx.get):
                        rows.append(row_of(mm.molecule.nodes[a].get("position", np.array([np.nan] * 3))))
                    cog = np.mean([row_xyz(r) for r in rows if r], axis=0) if all(rows) else None
                    if cog is None or not np.allclose(d["position"], cog, atol=1e-9):
                        status = "given but residue position is not the centre of its atoms"
                elif status == "centre":
                    rows = [row_of(d["position"])]
                elif "position" in d:
                    status = "build with a position attribute"
                got.append({"status": status, "rows": rows})
        exp = [{"status": e["status"], "rows": list(e["rows"])} for e in case["exp"]]
        if got != exp:
            k = next(i for i in range(max(len(got), len(exp))) if i >= len(got) or i >= len(exp) or got[i] != exp[i])
            return ("diff", "residue %d: observed %s, specification %s" % (k + 1, got[k] if k < len(got) else None, exp[k] if k < len(exp) else None))
        return ("ok", None)


# ------------------------------------------------------------------ (b) end to end

class _Timeout(BaseException):
    pass


def _alarm(signum, frame):
    raise _Timeout()


def read_gro(path):
    lines = Path(path).read_text().splitlines()
    n = int(lines[1])
    atoms = []
    for l in lines[2:2 + n]:
        atoms.append((int(l[0:5]), l[5:10].strip(), l[10:15].strip(), np.array([float(l[20:28]), float(l[28:36]), float(l[36:44])])))
    box = [float(x) for x in lines[2 + n].split()]
    return atoms, box


def _e2e_one(arg):
    case, sd, ignore_types = arg
    SPLIT["on"] = bool(case.get("split"))
    from polyply import gen_coords
    rng = random.Random(sd)
    budget = {"n": rng.randint(0, 4)}

    def chooser(kinds):
        if budget["n"] > 0 and rng.random() < 0.35:
            budget["n"] -= 1
            return kinds[1]
        return kinds[0]
    names, _ = type_names(case["mols"])
    ignore = sorted({names[i] for i in ignore_types})
    np.random.seed(sd)
    random.seed(sd)
    signal.signal(signal.SIGALRM, _alarm)
    signal.setitimer(signal.ITIMER_REAL, 150, 5)
    try:
        with tempfile.TemporaryDirectory(prefix="verif_c04_", dir="/var/tmp") as wd:
            wd = Path(wd)
            (wd / "s.top").write_text(top_text(case["mols"]))
            (wd / "in.gro").write_text(gro_text(case["K"]))
            kw = {"coordpath": wd / "in.gro"} if case["res"] == "mol" else {"coordpath_meta": wd / "in.gro"}
            with w.recording(chooser=chooser) as rec:
                try:
                    gen_coords(toppath=wd / "s.top", outpath=wd / "out.gro", name="c04", build_res=[RN.get(x, x) for x in case["skip"]], ignore=ignore,
                               max_force=1e12, **kw)
                    from vermouth.file_writer import DeferredFileWriter
                    DeferredFileWriter().write()
                except _Timeout:
                    return {"noverdict": "timeout"}
                except w.NoVerdict as exc:
                    return {"noverdict": str(exc)}
                except Exception as exc:
                    return {"error_in_code": "%s: %s" % (type(exc).__name__, exc), "evs": rec.events[-20:], "inst": rec.header}
            atoms, box = read_gro(wd / "out.gro")
            return {"atoms": [(r, rn, an, p.tolist()) for r, rn, an, p in atoms], "box": box, "evs": rec.events, "inst": rec.header, "error_in_code": None}
    except _Timeout:
        return {"noverdict": "timeout"}
    finally:
        signal.setitimer(signal.ITIMER_REAL, 0)


def compare_e2e(case, out):
    """output atoms against the specification's row assignment"""
    SPLIT["on"] = bool(case.get("split"))
    k = 0
    atoms = out["atoms"]
    flat = [(mi, ri, res) for mi, ml in enumerate(case["mols"]) for ri, res in enumerate(ml)]
    if len(atoms) != sum(res["na"] for _, _, res in flat):
        return "output lists %d atoms, the topology has %d" % (len(atoms), sum(res["na"] for _, _, res in flat))
    for (mi, ri, res), exp in zip(flat, case["exp"]):
        mine = atoms[k:k + res["na"]]
        k += res["na"]
        pts = np.array([a[3] for a in mine])
        if not np.all(np.isfinite(pts)):
            return "molecule %d residue %d: non-finite coordinate in the output" % (mi + 1, ri + 1)
        if exp["status"] == "given":
            for a, r in zip(mine, exp["rows"]):
                if not np.allclose(a[3], row_xyz(r), atol=1.1e-3):
                    return "molecule %d residue %d atom %s: supplied coordinate (file row %d = %s) became %s" % (mi + 1, ri + 1, a[2], r, row_xyz(r), a[3])
        elif exp["status"] == "centre":
            cog = pts.mean(axis=0)
            if not np.allclose(cog, row_xyz(exp["rows"][0]), atol=2e-3):
                return "molecule %d residue %d: backmapped around %s instead of the supplied centre %s (file row %d)" % (
                    mi + 1, ri + 1, cog.tolist(), row_xyz(exp["rows"][0]), exp["rows"][0])
        else:
            if any(np.allclose(p, row_xyz(i), atol=1e-6) for p in pts for i in range(1, case["K"] + 1)) and res["na"] > 1:
                return "molecule %d residue %d: a residue that was to be generated carries a file row" % (mi + 1, ri + 1)
    if not np.allclose(out["box"][:3], [BOX] * 3, atol=1e-4):
        return "box of the supplied structure not kept: %s" % out["box"]
    return None


def select_e2e(cases, rng, n):
    good = [cs for cs in cases if not cs["err"] and cs["K"] > 0
            and any(e["status"] == "build" for e in cs["exp"]) and any(e["status"] != "build" for e in cs["exp"])]
    strata = {}
    for cs in good:
        key = (cs["res"], len(cs["mols"]), tuple(sorted(cs["skip"])), min(cs["K"], 4))
        strata.setdefault(key, []).append(cs)
    pick = []
    keys = sorted(strata)
    while len(pick) < n and keys:
        for key in list(keys):
            if strata[key]:
                pick.append(strata[key].pop(rng.randrange(len(strata[key]))))
            else:
                keys.remove(key)
            if len(pick) >= n:
                break
    return pick


def ignore_cases():
    """[ molecules ] orders with the ignored single-atom type first / middle / last / repeated; chains are rebuilt (-res)"""
    S = [{"rn": "W", "na": 1}]
    A = [{"rn": "A", "na": 2}, {"rn": "B", "na": 1}, {"rn": "A", "na": 2}]
    res = []
    for order in ([S, S, A, A], [A, A, S, S], [A, S, S, A], [S, A, S, A, S]):
        nS = sum(1 for m in order if m is S)
        exp, row = [], 0
        for ml in order:
            for r in ml:
                if r["rn"] == "W":
                    row += 1
                    exp.append({"status": "given", "rows": [row]})
                else:
                    exp.append({"status": "build", "rows": []})
        res.append(({"mols": [list(m) for m in order], "K": nS, "skip": ["A", "B"], "res": "mol", "err": False, "exp": exp},
                    [i for i, m in enumerate(order) if m is S]))
    return res


def run(tier):
    ck = c.Check("C04", tier)
    sd = c.seed()
    rng = random.Random(sd)
    ck.rule = ("(a) all systems of MC_GenCoords (<=3 molecules of 3 types, residues of 1-2 atoms, every file length, -res subsets, atom- and "
               "residue-level files) read by the real add_positions_from_file; (b) stratified subset + ignore orders through gen_coords under a random "
               "failure schedule; (c) Walk schedules with supplied residues; distinct = rendered input")
    ck.assumptions = ["coordinates are compared at .gro precision (1e-3 nm; 2e-3 nm for the centre of a backmapped residue)",
                      "one coordinate file per run (-c or -mc); ignored molecule types are fully supplied"]
    ck.stage("TLC: GenCoords + Walk models")
    gc, dev, small, d1 = c.tlc_many([("MC_GenCoords", "GC_small.cfg", {"workers": 6}),
                                     ("MC_GenCoords", "GC_dev_skip.cfg", {"check": False, "workers": 2}),
                                     ("MC_Walk", "Walk_small.cfg" if tier == "quick" else "Walk_deep.cfg", {"workers": 4}),
                                     ("MC_Walk", "Walk_dev_retryall.cfg", {"check": False, "workers": 1})])
    ck.model_must_hold(gc, "LoopIsDeclarative/RowsDisjoint/RowsPrefix/OnlyMissingBuilt")
    ck.model_must_refute(dev, "LoopIsDeclarative", "residues named for rebuilding consume rows (-res ignored)")
    ck.model_must_hold(small, "SuppliedKept/AcceptedStable under all failure schedules")
    ck.model_must_refute(d1, "SuppliedKept", "a failed attempt removes supplied positions (F5)")
    cases = gc.cases()
    ck.require(len(cases) > 500, "too few GenCoords cases exported: %d" % len(cases))
    ck.stage("S->I (a): coordinate consumption on %d systems" % len(cases))
    split_cases = [dict(cs, split=True) for cs in cases if cs["res"] == "mol" and any(r["na"] > 1 for ml in cs["mols"] for r in ml)]
    if tier == "quick":
        split_cases = rng.sample(split_cases, min(len(split_cases), 300))
    allc = cases + split_cases
    res = c.pmap(_consume_one, allc, chunksize=16)
    for cs, (kind, msg) in zip(allc, res):
        if kind == "machinery":
            raise c.MachineryError(msg)
        if kind == "skip":
            ck.extra["skipped_empty_file"] = ck.extra.get("skipped_empty_file", 0) + 1
            continue
        ck.replayed += 1
        ck.count(json.dumps([cs["mols"], cs["K"], sorted(cs["skip"]), cs["res"], bool(cs.get("split"))], sort_keys=True))
        if kind == "diff":
            ck.violation({"kind": "consume", "case": cs}, what="add_positions_from_file on %s: %s" % (
                json.dumps({"molecules": cs["mols"], "rows": cs["K"], "res": sorted(cs["skip"]), "level": cs["res"]}), msg))
    ck.sample({"consumption case": cases[len(cases) // 2]})
    ck.stage("S->I (b): end to end through gen_coords")
    n = 28 if tier == "quick" else 220
    picked = [(cs, sd * 1000 + i, []) for i, cs in enumerate(select_e2e(cases, rng, n))]
    picked += [(dict(cs, split=True), sd * 1000 + 300 + i, []) for i, cs in enumerate(select_e2e([x for x in cases if x["res"] == "mol"], rng, max(6, n // 4)))]
    picked += [(cs, sd * 1000 + 500 + i, ign) for i, (cs, ign) in enumerate(ignore_cases())]
    outs = c.pmap(_e2e_one, picked)
    traces, nov = [], 0
    for (cs, s, ign), out in zip(picked, outs):
        if "noverdict" in out:
            nov += 1
            continue
        ck.count(json.dumps(["e2e", cs["mols"], cs["K"], sorted(cs["skip"]), cs["res"], ign], sort_keys=True))
        if out.get("error_in_code"):
            ck.violation({"kind": "e2e", "case": cs, "seed": s, "ignore": ign, "error": out["error_in_code"]},
                         what="gen_coords raised on a system with supplied coordinates (%s, ignore=%s): %s" % (
                             json.dumps({"molecules": cs["mols"], "rows": cs["K"], "res": sorted(cs["skip"]), "level": cs["res"]}), ign, out["error_in_code"]))
            continue
        bad = compare_e2e(cs, out)
        if bad:
            ck.violation({"kind": "e2e", "case": cs, "seed": s, "ignore": ign, "detail": bad}, what="gen_coords output: %s" % bad)
        if out["inst"]:
            traces.append({"inst": out["inst"], "evs": out["evs"]})
            for e in out["evs"]:
                ck.actions["trace:" + e["ev"]] = ck.actions.get("trace:" + e["ev"], 0) + 1
    ck.extra["no_verdict_runs"] = nov
    ck.extra["e2e_runs"] = len(picked) - nov
    ck.require(len(picked) - nov >= 0.8 * len(picked), "too many gen_coords runs without verdict: %d of %d" % (nov, len(picked)))
    ck.stage("I->S: build traces of the end-to-end runs")
    if traces:
        c17.validate(ck, traces, "e2e")
        ck.sample({"e2e trace events": [e["ev"] for e in traces[0]["evs"]][:30], "instance": traces[0]["inst"]})
    ck.require(ck.actions.get("trace:cleanup") and ck.actions.get("trace:fail"), "the end-to-end runs contain no failed attempt (vacuous for the failure clause)")
    ck.stage("S->I (c): Walk schedules with supplied residues")
    ex = c.tlc("WalkExport", "Walk_export.cfg", workers=6)
    ck.model_must_hold(ex, "export")
    sup = [x for x in ex.cases() if any(x["inst"]["attr"])]
    if tier == "quick":
        sup = rng.sample(sup, min(len(sup), 700))
    c17.replay_cases(ck, sup, "supplied schedules")
    ck.exhaustive = True
    return ck.finish()


def replay(path):
    doc = json.loads(open(path).read())
    case = doc["case"]
    ck = c.Check("C04", "quick")
    if case["kind"] == "consume":
        kind, msg = _consume_one(case["case"])
        print(kind, msg)
        return 1 if kind == "diff" else 0
    if case["kind"] == "e2e":
        out = _e2e_one((case["case"], case["seed"], case["ignore"]))
        bad = out.get("error_in_code") or compare_e2e(case["case"], out)
        print("replayed:", bad or "no violation")
        return 1 if bad else 0
    return c17.replay(path)
