"""C14 - mixed exclusion distances are honoured atom by atom.

spec/FFMap.tla : P-layer ExclP (bond-graph distance in the final molecule within the distance of the block of one of the two
                 atoms, or an explicit block / link exclusion), ExclEff (what a written nrexcl + [ exclusions ] means);
                 I-layer TagExclusions (retag with the original distance, molecule gets the minimum) and expand_excl inside
                 ApplyLinks (neighbourhood by path length in nodes); C14_Inv: ExclEff of the I-layer = ExclP, uniform distance
                 kept and nothing invented.  Deviations: min->max (m10), tag lost on merge, cut-off off by one (m11).
S->I : instance EX adds copies of a two-residue from_itp block (cyclic graphs on 3 residues, two separate fragments in 5-6
       residues) to mixed distances.  TLC enumerates instance E (trees on <= 4 residues + all connected graphs on 3, names over {A, B} with 1-3 atoms, block
       distances 0..4, link-made bonds with '+' and '>' links, explicit block and link exclusions) and exports the expected
       effective exclusion set together with the table "pairs within d bonds"; the real code is run on .ff / polyply .itp
       renderings (processors and gen_params + written .itp); nrexcl, [ exclusions ] and the bond graph are read back.
I->S : seeded random mixed polymers (5-8 residues, blocks up to 5 atoms, 2-3 residue blocks, cycles) validated by FFTrace.
"""
import json
import random
from pathlib import Path

from .. import common as c
from .. import ffmap_util as u
from .. import ffmap_trace as t

PROP = "C14"


def excl_view(mol):
    """nrexcl, explicit pairs and bond graph of an abstract molecule (projection only; distances come from TLC)"""
    bonds, expl = set(), set()
    for x in mol["inters"]:
        if x["sec"] in ("bonds", "constraints"):
            bonds.add(frozenset(x["at"][:2]))
        elif x["sec"] == "exclusions":
            for b in x["at"][1:]:
                if b != x["at"][0]:
                    expl.add(frozenset((x["at"][0], b)))
    return bonds, expl


def judge(case, obs):
    """observed final molecule against the exported P-layer results; returns None or the reason"""
    exp = case["exp"]
    if len(obs["atoms"]) != len(exp["atoms"]):
        return "%d atoms, expected %d" % (len(obs["atoms"]), len(exp["atoms"]))
    ebonds, eexpl = excl_view(exp)
    obonds, oexpl = excl_view(obs)
    if obonds != ebonds:
        return "bond graph differs from the expected molecule: %s" % sorted(map(sorted, obonds ^ ebonds))[:4]
    n = obs["nrexcl"]
    if not isinstance(n, int) or n < 0 or n + 1 > len(case["within"]):
        return "nrexcl %r outside 0..5" % (n,)
    eff = {frozenset(p) for p in case["within"][n]} | oexpl       # pairs within nrexcl bonds (table from TLC) + listed pairs
    want = {frozenset(p) for p in case["excl"]}
    if eff != want:
        miss, extra = sorted(map(sorted, want - eff)), sorted(map(sorted, eff - want))
        return "effective exclusion set differs (nrexcl %d): not excluded %s, wrongly excluded %s" % (n, miss[:4], extra[:4])
    if case["uniform"]:
        un = case["nrexclI"]
        if n != un:
            return "uniform exclusion distance %d not kept: nrexcl %d" % (un, n)
        if oexpl != eexpl:
            return "uniform exclusion distance but exclusions invented: %s" % sorted(map(sorted, oexpl - eexpl))[:4]
    return None


def matches_asis(obs, a):
    """exact classifier of an open finding: the observed molecule is what the I-layer with the open deviations on yields"""
    if a["err"] or not a["fired"]:
        return False
    ob, oe = excl_view(obs)
    ab, ae = excl_view(a["got"])
    return obs["nrexcl"] == a["got"]["nrexcl"] and ob == ab and oe == ae and len(obs["atoms"]) == len(a["got"]["atoms"])


def _replay_chunk(arg):
    chunk, ffs, wd, sd, gp_every, asis = arg
    rendered = {}
    out = []
    for ci, case, fmt in chunk:
        inp = case["inp"]
        key = (inp["ff"], fmt)
        if key not in rendered:
            # every second force field is followed by an unrelated polyply .itp file (F33, repaired: reading it must not
            # turn the exclusions sections of the .ff blocks and links into edges)
            rendered[key] = u.render_ff(ffs[inp["ff"] - 1], fmt, Path(wd) / ("ff%d_%s" % key), tag="f", trailing_itp=inp["ff"] % 2 == 0)
        rng = random.Random(sd * 1000003 + ci)
        lay = u.graph_layout(inp, rng)
        via = "gen_params" if gp_every and ci % gp_every == 0 else "processors"
        obs = u.run_gen_params(rendered[key], inp, lay, wd) if via == "gen_params" else u.run_processors(rendered[key], inp, lay)
        if "exc" in obs:
            e = obs["exc"]
            why = "the code raised %s at %s (%s): %s" % (e["type"], e["site"], e["stage"], e["msg"][:160])
        else:
            why = judge(case, obs["final"])
        sig = None
        if why and "exc" not in obs:
            for a in asis.get(u.case_key(inp), []):
                if matches_asis(obs["final"], a):
                    sig = u.attribute(a["fired"])
        out.append((ci, fmt, via, why, lay if why else None, obs if why else None, sig))
    return out


def has_block_exclusions(ff):
    return any(x["sec"] == "exclusions" for b in ff["blocks"] for x in b["inters"])


def replay_instance(ck, label, res, tier, sd, gp_every, res_asis=None):
    asis = {}
    for a in (res_asis.cases() if res_asis is not None else []):
        u.norm_case(a)
        asis.setdefault(u.case_key(a["inp"]), []).append(a)
    cases = [u.norm_case(x) for x in res.cases()]
    if not cases:
        raise c.MachineryError("%s exported no cases" % label)
    ffs = u.ffs_of(res)
    work = []
    for ci, case in enumerate(cases):
        ff = ffs[case["inp"]["ff"] - 1]
        # polyply .itp blocks turn every section into edges: exclusions sections are given in .ff syntax only (DESIGN 4.14)
        fmts = ("ff",) if has_block_exclusions(ff) else (("ff", "itp") if tier != "quick" else (("itp",) if ci % 2 else ("ff",)))
        for fmt in fmts:
            work.append((ci, case, fmt))
    wd = c.workdir(PROP, "replay_" + label)
    parts = [(ch, ffs, str(wd / ("w%d" % i)), sd, gp_every, {u.case_key(x[1]["inp"]): asis.get(u.case_key(x[1]["inp"]), []) for x in ch})
             for i, ch in enumerate(c.chunks(work, c.NPROC * 3))]
    ngp = 0
    for outs in c.pmap(_replay_chunk, parts):
        for ci, fmt, via, why, lay, obs, sig in outs:
            ck.evaluations += 1
            ngp += via == "gen_params"
            if why:
                case = cases[ci]
                ck.violation(sig=sig, case={"kind": "S->I replay", "instance": label, "fmt": fmt, "via": via, "ff": ffs[case["inp"]["ff"] - 1], "case": case,
                              "layout": lay, "observed": obs},
                             what="%s (%s syntax, %s): residues %s edges %s, block distances %s: %s" % (
                                 label, fmt, via, case["inp"]["rn"], case["inp"]["edges"],
                                 {b["name"]: b["nrexcl"] for b in ffs[case["inp"]["ff"] - 1]["blocks"]}, why))
    ck.replayed += len(work)
    nmixed = 0
    for case in cases:
        ck.nontrivial.add(label + u.case_key(case["inp"]))
        nmixed += not case["uniform"]
    ck.extra.setdefault("instances", {})[label] = {"inputs": len(cases), "runs": len(work), "force_fields": len(ffs), "mixed_distance_inputs": nmixed,
                            "inputs_with_generated_exclusions": sum(1 for x in cases if x["ngenI"] > 0), "via_gen_params": ngp}
    if not nmixed or not ck.extra["instances"][label]["inputs_with_generated_exclusions"]:
        raise c.MachineryError("instance E never mixes exclusion distances (vacuous)")
    return cases, ffs


DEVS = [("FF_Esmall", "exmax", "C14_Inv", "m10: molecule gets the maximum instead of the minimum distance"),
        ("FF_Esmall", "extaglost", "C14_Inv", "original distance tag lost on merge"),
        ("FF_Esmall", "excutoff", "C14_Inv", "m11: neighbourhood cut-off off by one in the harmful direction"),
        ("FF_EL", "explicitafterexcl", "C14_Inv", "seed3-C14-2: exclusions generated before the explicit links add their bonds"),
        ("FF_EH", "retaglowered", "C14_Inv", "retag-lowered (open): a block lowered by an earlier molecule is retagged with the lowered distance"),
        ("FF_EH", "tagdropped", "C14_Inv", "seed5-C14-2: tags of earlier molecules dropped while the lowered nrexcl stays")]
REACH = [("FF_Esmall", "Reach_Gen")]


def run(tier):
    ck = c.Check(PROP, tier)
    sd = c.seed()
    quick = tier == "quick"
    ck.rule = ("S->I: one case = one input (force field id = block sizes x block exclusion distances x link set, residue names, residue-graph "
               "edges) of the TLC instance E; the effective exclusion set read from the real result (pairs within the written nrexcl + listed "
               "pairs) must equal ExclP. I->S: seeded random mixed polymers of 5-8 residues validated by FFTrace; distinct by input")
    ck.assumptions = ["edge-creating sections are bonds / constraints (exclusions / pairs sections only in .ff syntax: polyply .itp blocks turn every "
                      "section into edges), so the bond graph is unambiguous",
                      "links from the minimal language ('+' / '>' two-residue bonds, constraints and exclusions); the link rule itself is C02",
                      "graph distances are computed by TLC only (ExclP, the exported 'within d bonds' tables, FFTrace); the harness reads nrexcl, "
                      "[ exclusions ] and the bond list and unions sets"]
    E = "FF_Eq" if quick else "FF_Et"
    ck.stage("TLC: model + export + deviations (concurrently)")
    jobs = [(E, "FF_E_export.cfg", {"workers": 6 if quick else 12, "timeout": 3000}), ("FF_Esmall", "FF_E.cfg", {"workers": 2}),
            ("FF_EX", "FF_E_export.cfg", {"workers": 2}), ("FF_EL", "FF_E_export.cfg", {"workers": 2}),
            ("FF_EH", "FF_E_export.cfg", {"workers": 3}), ("FF_EH", "FF_asis.cfg", {"workers": 2})]
    jobs += [(m, "FF_dev_%s.cfg" % d, {"workers": 1, "check": False, "timeout": 600}) for m, d, _, _ in DEVS]
    jobs += [(m, "FF_dev_%s.cfg" % r, {"workers": 1, "check": False, "timeout": 600}) for m, r in REACH]
    res = c.tlc_many(jobs, workers_each=2)
    ex, small, exx, exl, exh, exha = res[:6]
    ck.model_must_hold(ex, "C14_Inv (+ C01_Inv, Base_Inv) on instance E")
    ck.model_must_hold(small, "C14_Inv small")
    ck.model_must_hold(exx, "C14_Inv (+ C01_Inv, Base_Inv) on instance EX")
    ck.model_must_hold(exl, "C14_Inv (+ C01_Inv, Base_Inv) on instance EL")
    ck.model_must_hold(exh, "C14_Inv on instance EH (histories of one force-field object)")
    ck.add_tlc(exha)
    for (m, d, inv, what), r in zip(DEVS, res[6:6 + len(DEVS)]):
        ck.model_must_refute(r, inv, what)
    for (m, rname), r in zip(REACH, res[6 + len(DEVS):]):
        ck.model_must_refute(r, rname, "non-vacuity: " + rname)
    ck.extra["deviations_refuted"] = [d for _, d, _, _ in DEVS]

    ck.stage("S->I replay")
    cases, ffs = replay_instance(ck, "E", ex, tier, sd, 4)
    replay_instance(ck, "EX", exx, "thorough", sd, 3)       # small: always both syntaxes
    replay_instance(ck, "EL", exl, "thorough", sd, 3)       # bonds made by explicit (by_atom_id) links
    # histories: earlier molecules are built from the same force-field object in the same process (processors only)
    replay_instance(ck, "EH", exh, "quick" if quick else "thorough", sd, 0, res_asis=exha)
    mixed = [x for x in cases if not x["uniform"] and x["ngenI"] > 0]
    s = mixed[len(mixed) // 2]
    ck.sample({"S->I input": s["inp"], "block distances": {b["name"]: b["nrexcl"] for b in ffs[s["inp"]["ff"] - 1]["blocks"]},
               "expected excluded pairs (ExclP)": s["excl"][:12]})

    ck.stage("I->S: seeded random mixed polymers, FFTrace")
    t.run_traces(ck, PROP, tier, sd)
    ck.exhaustive = True
    return ck.finish()


def replay(path):
    doc = json.loads(open(path).read())
    case = doc["case"]
    ck = None      # a stored case is re-executed without touching the evidence of the last run
    if case["kind"] == "S->I replay":
        wd = c.workdir(PROP, "replay_one")
        paths = u.render_ff(case["ff"], case["fmt"], wd, tag="f")
        inp = case["case"]["inp"]
        obs = u.run_gen_params(paths, inp, case["layout"], wd) if case.get("via") == "gen_params" else u.run_processors(paths, inp, case["layout"])
        why = ("raised %s" % obs["exc"]) if "exc" in obs else judge(case["case"], obs["final"])
        print("replayed: %s" % (why or "matches now"))
        return 1 if why else 0
    return t.replay_trace(ck, PROP, case)
