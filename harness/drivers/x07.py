"""X07 (extension) - the repository's own test suite as a source of records for parameter generation and topology reading.

The tests under polyply/tests drive MapToMolecule, ApplyLinks (through gen_params), Topology.from_gmx_topfile and Topology.preprocess
with hand-written inputs and assert a few facts about the result.  Here the same executions are *observed*
(harness/pytest_trace_plugin_params.py, loaded into pytest with -p, no edit in the repository), projected exactly the way the
existing I->S paths project their own inputs, and every complete unit of behaviour is judged by the specification:

  map    MapToMolecule.run_molecule (+ the rest of the gen_params pipeline on the same molecule)  -> spec/FFTraceX07.tla (FFMap: PBase / PFinal)
  links  ApplyLinks.run_molecule                                                              -> spec/LinksTrace.tla (Links: P-layer, Missing)
  top    Topology.from_gmx_topfile                                                            -> spec/TopReadTrace.tla (TopRead: I-layer = PRead)
  pre    Topology.preprocess / a top-level gen_bonded_interactions                            -> spec/TypeResolveTrace.tla (Expected, PEntries)

A failing or erroring test is not a violation; a record the specification rejects is.  Inputs outside the domain a specification
states are counted with their reason (Python-side predicates below for what the abstraction cannot express, the specification's own
domain predicates - DomOK, InDomain / NoTies / Stable, TopRead.InDomain, TypeResolve.InDomain / InDomainNB - evaluated by TLC).
"""
import glob
import json
import os
import shutil
import subprocess
import sys
import tempfile
import time
from concurrent.futures import ThreadPoolExecutor
from pathlib import Path

from .. import common as c
from .. import ffmap_trace as ft
from . import c08, c09

PROP = "X07"
PLUGIN = "harness.pytest_trace_plugin_params"
FOCUS = ["test_map_to_molecule.py", "test_apply_links.py", "test_gen_params.py", "test_apply_modifications.py", "test_ff_parser.py",
         "test_top_parser.py", "test_topology.py", "test_load_library.py", "test_gen_coords_logic.py", "test_generate_templates.py",
         "test_residue_equivalence.py", "test_build_system.py", "test_persistence.py", "test_nb_engine.py", "test_gen_coords.py", "test_random_walk.py"]
# tests excluded BY NAME (node id -> one-line reason); none is needed on the current tree
EXCLUDE = {}
# tests of the traced files that fail on the unchanged tree in this environment (they stop before MapToMolecule: the stored sequence .json files use
# the networkx "links" key, properties.jsonl names it as an environment issue); any OTHER failing test of the traced files means the tree was changed
BASELINE_FAILING = {"polyply/tests/test_gen_params.py::test_gen_params[inpath1-None-seqf1-PS-ref_file1]",
                    "polyply/tests/test_gen_params.py::test_gen_params[inpath3-None-seqf3-PPI-ref_file3]",
                    "polyply/tests/test_gen_params.py::test_gen_params[inpath5-None-seqf5-test-ref_file5]"}
KINDS = ("map", "links", "top", "pre")          # "bonded" records are judged with "pre" (TypeResolveTrace, bonded half)
MAX_ATOMS = 400
PROTEIN = ("GLY", "ALA", "CYS", "VAL", "LEU", "ILE", "MET", "PRO", "HYP", "ASN", "GLN", "ASP", "GLU", "THR", "SER", "LYS", "ARG", "HIS", "PHE",
           "TYR", "TRP")


def repo_root():
    r = os.environ.get("VERIF_REPO")
    if r:
        return Path(r)
    import polyply
    return Path(polyply.__file__).resolve().parents[1]


# ----------------------------------------------------------------------------- running pytest with the plugin

def run_pytest(repo, targets, scratch, tag, timeout):
    out = Path(scratch) / ("out_" + tag)
    out.mkdir(parents=True, exist_ok=True)
    env = dict(os.environ)
    env.update({"TQDM_DISABLE": "1", "OMP_NUM_THREADS": "1", "OPENBLAS_NUM_THREADS": "1", "MKL_NUM_THREADS": "1", "PYTHONDONTWRITEBYTECODE": "1",
                "PYTHONHASHSEED": "0", "X07_OUT": str(out), "VERIF_SEED": str(c.seed()), "PYTHONPATH": "%s:%s" % (c.VERIF, repo)})
    cmd = [sys.executable, "-m", "pytest", "-q", "-p", "no:cacheprovider", "-p", PLUGIN, "--continue-on-collection-errors",
           "--basetemp", str(Path(scratch) / ("bt_" + tag)), "-o", "addopts="]
    try:
        import pytest_timeout  # noqa: F401
        cmd.append("--timeout=%s" % os.environ.get("X07_TEST_TIMEOUT", "300"))
    except ImportError:
        pass
    cmd += [str(Path(repo) / t) for t in targets]
    cwd = Path(scratch) / ("cwd_" + tag)
    cwd.mkdir(parents=True, exist_ok=True)
    t0 = time.time()
    try:
        p = subprocess.run(cmd, cwd=cwd, env=env, capture_output=True, text=True, timeout=timeout)
    except subprocess.TimeoutExpired:
        raise c.MachineryError("pytest (%s) did not finish within %d s" % (tag, timeout))
    pay, recs = {}, []
    for f in sorted(glob.glob(str(out / "records-*.ndjson"))):
        with open(f) as fh:
            for line in fh:
                if line.strip():
                    r = json.loads(line)
                    if r["kind"] == "payload":
                        pay[r["h"]] = r["data"]
                    else:
                        recs.append(r)
    for r in recs:
        if "h" in r:
            r["data"] = pay[r["h"]]
            if r["kind"] == "top":
                r["data"] = dict(r["data"], tree=pay[r["data"]["tree"]])
    tail = "\n".join((p.stdout + p.stderr).splitlines()[-15:])
    if p.returncode not in (0, 1) and not any(r["kind"] == "test" for r in recs):
        raise c.MachineryError("pytest (%s) failed with exit code %d:\n%s" % (tag, p.returncode, tail))
    return p.returncode, recs, tail, time.time() - t0


# ----------------------------------------------------------------------------- grouping: one item per distinct record

class Item:
    def __init__(self, kind, head):
        self.kind = kind
        self.head = head
        self.data = head.get("data")
        self.nodeids = []
        self.status = None          # accepted | outside | rejected | unprojectable
        self.why = ""
        self.case = None            # what is sent to TLC

    def where(self):
        n = len(self.nodeids)
        return "%s%s" % (self.nodeids[0], " (and %d more calls with the same input and result)" % (n - 1) if n > 1 else "")


def group(recs):
    items, index = {k: [] for k in KINDS}, {}
    for r in recs:
        kind = "pre" if r["kind"] == "bonded" else r["kind"]
        if kind not in KINDS or r["nodeid"] in EXCLUDE:
            continue
        key = (r["kind"], r.get("h"), r.get("outside"), r.get("unprojectable"), json.dumps(r.get("exc"), sort_keys=True), r.get("path") if "h" not in r else None)
        it = index.get(key)
        if it is None:
            it = index[key] = Item(kind, r)
            it.sub = r["kind"]
            items[kind].append(it)
        it.nodeids.append(r["nodeid"])
    return items


def outside(it, why):
    it.status, it.why = "outside", why


# ----------------------------------------------------------------------------- map: FFTraceX07

def map_prepare(it):
    """abstract force field + case of FFMap for one record (the way ffmap_trace.library_doc makes it), or the reason it is outside"""
    h, d = it.head, it.data
    if "unprojectable" in h:
        it.status, it.why = "unprojectable", h["unprojectable"]
        return
    if h.get("missing_blocks"):
        return outside(it, "a residue names a block the force field does not have")
    g = d["graph"]
    if g["resids"] != list(range(g["start"], g["start"] + g["n"])):
        return outside(it, "residue ids not contiguous")
    blocks = json.loads(json.dumps(d["blocks"]))
    for b in blocks:
        if b["resids"][0] != 1 or b["resids"] != list(range(1, len(b["resids"]) + 1)):
            return outside(it, "block residue ids do not start at 1")
        if any(a[k] is None for a in b["atoms"] for k in ("an", "ty", "rn", "cg")):
            return outside(it, "a block atom has no name / type / residue name / charge group")
        b.pop("resids")
    size = {b["name"]: len(b["atoms"]) for b in blocks}
    if (len(d["base"]["atoms"]) if d.get("base") else sum(size.get(fi or rn, 0) for rn, fi in zip(g["rn"], g["fi"]))) > MAX_ATOMS:
        return outside(it, "more than %d atoms" % MAX_ATOMS)
    raised = h.get("exc")
    judge_final, note = False, ""
    if d["links_ran"]:
        if d["unsupported"]:
            note = "final molecule not judged: " + d["unsupported"][0]
        elif h.get("has_mods") and any(x in PROTEIN for x in g["rn"]):
            note = "final molecule not judged: protein with library modifications (covered by C01 instance M / X05)"
        elif raised and raised["stage"] in ("links", "mods"):
            judge_final = True
        elif d["links_done"] and d["mods_ran"] and d.get("final"):
            judge_final = True
        else:
            note = "final molecule not judged: the pipeline was not completed on this molecule"
    obs = {"base": d.get("base")}
    if judge_final and not raised:
        obs["final"] = d["final"]
    if raised and (raised["stage"] == "map" or judge_final):
        obs["exc"] = raised
    inp = {"ff": 0, "n": g["n"], "start": g["start"], "rn": g["rn"], "fi": g["fi"], "edges": g["edges"], "sel": []}
    it.case = {"ff": {"blocks": blocks, "links": [], "mods": []}, "case": ft.make_case(inp, obs, use_apps=True, apps=d["apps"] if judge_final else []),
               "judge_final": judge_final, "note": note, "exc": raised}


def map_tlc(arg):
    name, doc = arg
    wd = c.workdir(PROP, name)
    f = wd / "doc.json"
    f.write_text(json.dumps(doc))
    res = c.tlc("FFTraceX07", "FF_trace_x07.cfg", workers=1, env={"TRACE_FILE": str(f)}, check=False, timeout=3000)
    v = res.tagged("VERDICTS")
    if res.rc != 0 or not v:
        raise c.MachineryError("FFTraceX07 failed on %s (rc=%s): %s" % (name, res.rc, res.out[-3000:]))
    return res, v[0]


def map_validate(cases, name, batch=40):
    """cases: list of {"ff", "case"}; returns (list of {stage: set of verdicts}, TLC results)"""
    jobs = []
    for k in range(0, len(cases), batch):
        sub = cases[k:k + batch]
        doc = {"ffs": [x["ff"] for x in sub], "cases": [dict(x["case"], inp=dict(x["case"]["inp"], ff=i + 1)) for i, x in enumerate(sub)]}
        jobs.append((k, ("%s_%d" % (name, k // batch), doc)))
    with ThreadPoolExecutor(max(1, min(len(jobs), 4, c.NPROC))) as ex:
        outs = list(ex.map(lambda j: map_tlc(j[1]), jobs))
    by = [dict() for _ in cases]
    for (k, _), (res, ents) in zip(jobs, outs):
        for ent in ents:
            by[int(ent[0]) - 1 + k].setdefault(ent[1], set()).add(ent[2])
    return by, [r for r, _ in outs]


def map_judge(case, v):
    """-> (status, reason)"""
    def one(stage):
        s = v.get(stage, set())
        return next(iter(s)) if len(s) == 1 else ("no verdict" if not s else "/".join(sorted(s)))
    if one("dom") == "out":
        return "outside", "FFMap.DomOK does not hold (multi-residue block without from_itp labels / fragment that is not a whole number of block copies)"
    if one("dom") != "in":
        return "rejected", "no domain verdict from the specification (%s)" % one("dom")
    cs, exc = case["case"], case["exc"]
    if cs["raised"] and not cs["hasBase"]:
        if one("final").startswith("model-error"):
            return "accepted", "the code refuses the input (%s) and so does the specification (%s)" % (exc["type"], one("final"))
        return "rejected", "MapToMolecule raised %s at %s (%s) on an input inside the domain on which the specification builds a molecule" % (
            exc["type"], exc["site"], exc["msg"][:160])
    if one("base") != "ok":
        return "rejected", "molecule after MapToMolecule: " + one("base")
    if one("edges") != "ok":
        return "rejected", "atom edges after MapToMolecule: " + one("edges")
    if one("excl") != "ok":
        return "rejected", "exclusion distance / exclude tags after MapToMolecule: " + one("excl")
    if case["judge_final"]:
        if cs["raised"]:
            return "rejected", "the pipeline raised %s at %s in stage %s (%s); the specification completes" % (exc["type"], exc["site"], exc["stage"], exc["msg"][:160])
        if one("final") != "ok":
            return "rejected", "final molecule (after ApplyLinks + ApplyModifications, link applications as observed): " + one("final")
    return "accepted", case["note"]


# ----------------------------------------------------------------------------- links: LinksTrace

def links_prepare(it):
    h = it.head
    if "unprojectable" in h:
        it.status, it.why = "unprojectable", h["unprojectable"]
    elif "outside" in h:
        outside(it, h["outside"])
    else:
        it.case = {"input": it.data["input"], "obs": it.data["obs"]}


def links_validate(cases, name, per_file=60):
    """-> (rejected {index: why}, skipped set, details {index: detail}, TLC results)"""
    wd = c.workdir(PROP, name)
    files = []
    for k in range(0, len(cases), per_file):
        f = wd / ("traces_%d.json" % (k // per_file))
        f.write_text(json.dumps({"traces": cases[k:k + per_file]}))
        files.append((k, str(f), len(cases[k:k + per_file])))
    with ThreadPoolExecutor(max(1, min(len(files), 4, c.NPROC))) as ex:
        results = list(ex.map(lambda fl: c.tlc("LinksTrace", "Lk_trace.cfg", workers=1, check=False, timeout=3000,
                                               env={"TRACE_FILE": fl[1], "JAVA_TOOL_OPTIONS": "-Xss64m -XX:ParallelGCThreads=2"}), files))
    rejected, skipped, details = {}, set(), {}
    for (off, path, n), res in zip(files, results):
        rej, skp = res.tagged("REJECTED"), res.tagged("SKIPPED")
        if (res.rc != 0 and not rej) or not skp or res.distinct != n:
            raise c.MachineryError("LinksTrace failed on %s: %s" % (path, res.out[-2500:]))
        for r in rej:
            for tid, why in r:
                rejected[off + int(tid) - 1] = why
        for s in skp:
            skipped.update(off + int(t) - 1 for t in s)
        for d in res.tagged("DETAIL"):
            details[off + int(d["tid"]) - 1] = d["detail"]
    return rejected, skipped, details, results


# ----------------------------------------------------------------------------- top: TopReadTrace

def top_prepare(it):
    h = it.head
    if "unprojectable" in h:
        it.status, it.why = "unprojectable", h["unprojectable"]
    elif "outside" in h:
        outside(it, h["outside"])
    else:
        t = it.data["tree"]
        it.case = {"id": h.get("path", ""), "main": t["main"], "files": t["files"], "obs": it.data["obs"]}


def top_validate(cases, name):
    """-> (rejected {index: why}, outside set (TopRead.InDomain false), expected {index: value}, TLC results)"""
    idx = list(range(len(cases)))
    out_dom, runs = set(), []
    while idx:
        wd = c.workdir(PROP, name)
        f = wd / "traces.json"
        f.write_text(json.dumps({"traces": [{"main": cases[i]["main"], "files": cases[i]["files"], "obs": c08.tla_safe(cases[i])["obs"]} for i in idx]}))
        for attempt in (1, 2):
            res = c.tlc("TopReadTrace", "Top_trace.cfg", workers=1, env=dict(c08.jvm(6), TRACE_FILE=str(f)), check=False, timeout=3000)
            if res.finished or res.errors:
                break
        runs.append(res)
        ood = res.tagged("OUTOFDOMAIN")
        if ood:
            t = int(ood[0][0])
            out_dom.add(idx[t - 1])
            del idx[t - 1]
            continue
        rej = res.tagged("REJECTED")
        if (res.rc != 0 and not rej) or res.inv_violated:
            raise c.MachineryError("TopReadTrace failed: %s" % res.out[-3000:])
        rejected = {}
        for r in rej:
            rejected.update({idx[int(t) - 1]: w for t, w in r})
        expected = {idx[int(e["tid"]) - 1]: e["exp"] for e in res.tagged("EXPECTED")}
        return rejected, out_dom, expected, runs
    return {}, out_dom, {}, runs


# ----------------------------------------------------------------------------- pre: TypeResolveTrace

def pre_prepare(it):
    h, d = it.head, it.data
    if "unprojectable" in h:
        it.status, it.why = "unprojectable", h["unprojectable"]
    elif "outside" in h:
        outside(it, h["outside"])
    elif "exception" in d:
        # the specification decides whether the input is inside the domain; the placeholder observation can only be skipped or rejected
        it.case = {"top": d["top"], "obs": {"err": False, "inst": []}, "nb": c09.EMPTY_NB, "nbobs": c09.EMPTY_NBOBS, "exception": d["exception"]}
    else:
        half = it.sub == "bonded" or d["nbobs"] is None
        it.case = {"top": d["top"], "obs": d["obs"], "nb": c09.EMPTY_NB if half else d["nb"], "nbobs": c09.EMPTY_NBOBS if half else d["nbobs"]}


def pre_validate(cases, name):
    """-> (rejected set, verdicts {index: (bonded, nonbonded)}, TLC results)"""
    wd = c.workdir(PROP, name)
    f = wd / "records.json"
    f.write_text(json.dumps([{k: x[k] for k in ("top", "obs", "nb", "nbobs")} for x in cases]))
    res = c.tlc("TypeResolveTrace", "TR_trace.cfg", workers=1, env={"TRACE_FILE": str(f)}, check=False, timeout=3000)
    rej = res.tagged("REJECTED")
    if (res.rc != 0 and not rej) or not res.finished:
        raise c.MachineryError("TypeResolveTrace failed on %s: %s" % (name, res.out[-2500:]))
    rejected = set()
    for r in rej:
        rejected.update(int(x) - 1 for x in r)
    verdicts = {int(v[0]) - 1: (v[1], v[2]) for v in res.tagged("VERDICT")}
    return rejected, verdicts, [res]


# ----------------------------------------------------------------------------- judging all kinds

def judge(items, name="main"):
    """validate the prepared items of every kind, the four trace specifications concurrently; fills status / why; returns TLC results"""
    todo = {k: [it for it in items[k] if it.case is not None and it.status is None] for k in KINDS}

    def run_kind(kind):
        its = todo[kind]
        if not its:
            return kind, None
        cases = [it.case for it in its]
        if kind == "map":
            return kind, map_validate(cases, name + "_map")
        if kind == "links":
            return kind, links_validate(cases, name + "_links")
        if kind == "top":
            return kind, top_validate(cases, name + "_top")
        return kind, pre_validate(cases, name + "_pre")
    with ThreadPoolExecutor(max(1, min(4, c.NPROC))) as ex:
        outs = dict(ex.map(run_kind, KINDS))
    runs = []
    if outs["map"]:
        by, rr = outs["map"]
        runs += rr
        for it, v in zip(todo["map"], by):
            it.status, it.why = map_judge(it.case, v)
            it.verdicts = {k: sorted(s) for k, s in v.items()}
    if outs["links"]:
        rej, skp, det, rr = outs["links"]
        runs += rr
        for i, it in enumerate(todo["links"]):
            if i in skp:
                outside(it, "Links.InDomain / NoTies / Stable does not hold (a link without any residue name, ties between definitions, a link whose own effects change its own vetoes)")
            elif i in rej:
                it.status, it.why, it.detail = "rejected", "first differing component: %s%s" % (
                    rej[i], (" - the code raised / the projection failed: " + it.case["obs"]["exception"][:200]) if rej[i] == "exception" else ""), det.get(i)
            else:
                it.status = "accepted"
    if outs["top"]:
        rej, ood, exp, rr = outs["top"]
        runs += rr
        for i, it in enumerate(todo["top"]):
            if i in ood:
                outside(it, "TopRead.InDomain does not hold (define inside a conditional, [ molecules ] entry before its molecule type, ...)")
            elif i in rej:
                it.status, it.why, it.detail = "rejected", "%s differ: read %s, TopRead gives %s" % (
                    rej[i], json.dumps(it.case["obs"])[:300], json.dumps(exp.get(i))[:300]), exp.get(i)
            else:
                it.status = "accepted"
    if outs["pre"]:
        rej, ver, rr = outs["pre"]
        runs += rr
        for i, it in enumerate(todo["pre"]):
            b, n = ver.get(i, ("ok", "ok"))
            if i in rej:
                if "exception" in it.case:
                    it.status, it.why = "rejected", "the code raised on a topology inside the domain: " + it.case["exception"][:300]
                else:
                    it.status, it.why = "rejected", "rejected by the %s P-layer of TypeResolve" % ("bonded" if b == "reject" else "non-bonded")
            elif b == "skip" or n == "skip":
                outside(it, "TypeResolve.InDomain / InDomainNB does not hold (ties between type-table entries, repeated keys, ...)")
            else:
                it.status = "accepted"
    return runs


def prepare(items):
    for it in items["map"]:
        map_prepare(it)
    for it in items["links"]:
        links_prepare(it)
    for it in items["top"]:
        top_prepare(it)
    for it in items["pre"]:
        pre_prepare(it)


# ----------------------------------------------------------------------------- the check

def run(tier):
    ck = c.Check(PROP, tier, level="model_checking")
    repo = repo_root()
    tests_dir = Path("polyply") / "tests"
    focus = sorted(str(tests_dir / f) for f in FOCUS if (repo / tests_dir / f).exists())      # the order pytest itself uses for the directory
    if c.seed():          # nothing here is random; the seed permutes the order in which the test files run (module-level state, caches)
        import random
        random.Random(c.seed()).shuffle(focus)
    ck.rule = ("I->S only: the repository's own test suite (quick: %s; thorough: the whole suite) is run unmodified under pytest with a recording plugin; every "
               "MapToMolecule.run_molecule call (with the rest of the gen_params pipeline on the same molecule) is a record for FFTraceX07 (FFMap: PBase, edges, PFinal), "
               "every ApplyLinks.run_molecule call a record for LinksTrace, every Topology.from_gmx_topfile call a record for TopReadTrace, every "
               "Topology.preprocess / top-level gen_bonded_interactions call a record for TypeResolveTrace" % ", ".join(FOCUS))
    ck.assumptions = ["a failing or erroring test is not a violation; a record the specification rejects is",
                      "records are projected by the functions of the existing I->S paths (ffmap_trace / ffmap_util, links_util, c08.lex_tree / make_project_real, "
                      "c09.abstract_from_topology / observe); identical records of different tests are validated once",
                      "inputs outside the domain a specification states are counted with their reason, never validated and never dropped silently",
                      "pieces of a behaviour driven directly by a unit test (apply_link_between_residues, gen_pairs, replace_defines, read_topology on lines, ...) are counted, not judged"]
    if not focus:
        raise c.MachineryError("no test files found under %s" % (repo / tests_dir))
    scratch = tempfile.mkdtemp(prefix="x07_", dir="/var/tmp")
    try:
        ck.stage("pytest with the recording plugin on %s" % repo)
        rc, recs, tail, wall = run_pytest(repo, focus if tier == "quick" else [str(tests_dir)], scratch, "main", 1800 if tier == "quick" else 3600)
        last = tail.splitlines()[-1] if tail else ""
        ck.extra["pytest_run"] = {"exit_code": rc, "summary": last.strip(), "wall_s": round(wall, 1)}
        tests = [r for r in recs if r["kind"] == "test"]
        if not tests:
            raise c.MachineryError("pytest produced no records:\n%s" % tail)
        perr = [r for r in recs if r["kind"] == "plugin_error"]
        items = group(recs)
        prepare(items)
        ck.stage("validation: %s distinct records" % ", ".join("%s %d" % (k, len(items[k])) for k in KINDS))
        runs = judge(items)
        for res in runs:
            ck.add_tlc(res)
        _report(ck, items)
        _evidence(ck, tests, recs, items, perr)
        ck.stage("binding demonstration")
        _binding_demo(ck, items)
        _vacuity(ck, tests, items, focus, perr)
    finally:
        shutil.rmtree(scratch, ignore_errors=True)
    return ck.finish()


WHAT = {"map": "MapToMolecule.run_molecule", "links": "ApplyLinks.run_molecule", "top": "Topology.from_gmx_topfile", "pre": "Topology.preprocess"}


def _report(ck, items):
    for kind in KINDS:
        for it in items[kind]:
            if it.status == "accepted":
                ck.traces += 1
                ck.count(kind + ":" + str(it.head.get("h")), len(it.nodeids))
            elif it.status == "rejected":
                what = "Topology.gen_bonded_interactions" if it.sub == "bonded" else "top_parser.read_topology on a list of lines" if it.head.get("sub") == "lines" else WHAT[kind]
                ck.violation({"kind": kind, "sub": it.sub, "nodeids": it.nodeids[:20], "case": it.case, "why": it.why, "detail": getattr(it, "detail", None),
                              "verdicts": getattr(it, "verdicts", None)},
                             what="test %s: record of %s rejected - %s" % (it.where(), what, it.why))


def _evidence(ck, tests, recs, items, perr):
    failed = [t["nodeid"] for t in tests if any(v != "passed" for v in t["outcome"].values())]
    ck.extra["tests_run"] = len(tests)
    ck.extra["tests_failed_or_errored"] = len(failed)
    ck.extra["tests_failed_sample"] = failed[:8]
    ck.extra["plugin_errors"] = [r.get("error") for r in perr][:5]
    per = {}
    for kind in KINDS:
        its = items[kind]
        reasons = {}
        for it in its:
            if it.status == "outside":
                reasons[it.why] = reasons.get(it.why, 0) + len(it.nodeids)
        per[kind] = {"calls_recorded": sum(len(it.nodeids) for it in its), "distinct_records": len(its),
                     "accepted": sum(1 for it in its if it.status == "accepted"),
                     "accepted_calls": sum(len(it.nodeids) for it in its if it.status == "accepted"),
                     "rejected": sum(1 for it in its if it.status == "rejected"),
                     "outside_the_modelled_domain": sum(1 for it in its if it.status == "outside"),
                     "outside_calls": sum(len(it.nodeids) for it in its if it.status == "outside"),
                     "outside_reasons (calls)": reasons,
                     "outside_tests": [[it.nodeids[0].replace("polyply/tests/", "")[:110], it.why[:90]] for it in its if it.status == "outside"][:16],
                     "unprojectable": [it.why for it in its if it.status == "unprojectable"][:5]}
    m = items["map"]
    per["map"]["with_final_molecule_judged"] = sum(1 for it in m if it.case and it.case["judge_final"] and it.status == "accepted")
    per["map"]["code_and_specification_both_refuse"] = sum(1 for it in m if it.status == "accepted" and it.case and it.case["case"]["raised"])
    per["map"]["notes"] = sorted({it.why for it in m if it.status == "accepted" and it.why and it.why.startswith("final")})
    per["links"]["attempts"] = sum(len(it.case["obs"]["calls"]) for it in items["links"] if it.status == "accepted")
    per["links"]["applied"] = sum(1 for it in items["links"] if it.status == "accepted" for x in it.case["obs"]["calls"] if x["out"] == "applied")
    per["top"]["abstract_lines"] = sum(len(f["lines"]) for it in items["top"] if it.status == "accepted" for f in it.case["files"])
    per["top"]["files"] = sorted({it.head.get("path", "") for it in items["top"] if it.status == "accepted" and it.head.get("sub") != "lines"})[:12]
    per["top"]["line_lists_read_into_a_fresh_topology"] = sum(1 for it in items["top"] if it.status == "accepted" and it.head.get("sub") == "lines")
    per["top"]["aborted_reads (#error / missing include / undeclared molecule)"] = sum(1 for it in items["top"] if it.status == "accepted" and it.case["obs"]["abort"])
    per["pre"]["bonded_half_only"] = sum(1 for it in items["pre"] if it.status == "accepted" and it.sub == "bonded")
    per["pre"]["missing_type_reported"] = sum(1 for it in items["pre"] if it.status == "accepted" and it.case["obs"]["err"])
    ck.extra["records"] = per
    pieces = {}
    for t in tests:
        for k, v in t["pieces"].items():
            pieces[k] = pieces.get(k, 0) + v
    ck.extra["pieces_driven_directly_by_unit_tests (counted, not judged)"] = pieces
    ck.extra["excluded_tests"] = EXCLUDE
    for kind in KINDS:
        acc = [it for it in items[kind] if it.status == "accepted"]
        if acc:
            it = max(acc, key=lambda x: len(json.dumps(x.case)) if kind != "top" else -len(json.dumps(x.case)))
            s = json.dumps(it.case["case"]["inp"] if kind == "map" else it.case.get("input", {}).get("rattr") if kind == "links" else
                           it.case.get("obs") if kind == "top" else it.case["obs"])[:400]
            ck.sample({"kind": kind, "test": it.nodeids[0], "excerpt": s}, limit=8)


def _binding_demo(ck, items):
    """one corrupted field in an accepted record of each kind must be rejected, the intact copy accepted"""
    demo, jobs = {}, {}
    acc = {k: [it for it in items[k] if it.status == "accepted"] for k in KINDS}
    m = [it for it in acc["map"] if it.case["case"]["hasBase"] and it.case["case"]["base"]["edges"]]
    if m:
        it = max(m, key=lambda x: (x.case["judge_final"], len(x.case["case"]["base"]["atoms"])))
        a, b, good = (json.loads(json.dumps(it.case)) for _ in range(3))
        a["case"]["base"]["atoms"][-1]["cg"] += 1
        b["case"]["base"]["edges"].pop()
        cases = [a, b, good]
        if it.case["judge_final"]:
            d = json.loads(json.dumps(it.case))
            d["case"]["final"]["atoms"][0]["resid"] += 1
            cases.insert(2, d)
        jobs["map"] = cases
    l = [it for it in acc["links"] if any(x["out"] == "applied" for x in it.case["obs"]["calls"]) and it.case["obs"]["ints"]]
    if l:
        it = min(l, key=lambda x: len(json.dumps(x.case)))
        a, b, good = (json.loads(json.dumps(it.case)) for _ in range(3))
        victim = [x for x in a["obs"]["ints"] if len({tuple(q)[0] for q in x["atoms"]}) > 1] or a["obs"]["ints"]
        a["obs"]["ints"].remove(victim[0])
        [x for x in b["obs"]["calls"] if x["out"] == "applied"][0]["out"] = "atoms"
        jobs["links"] = [a, b, good]
    t = [it for it in acc["top"] if it.case["obs"]["molecules"]]
    if t:
        it = min(t, key=lambda x: len(json.dumps(x.case)))
        a, good = json.loads(json.dumps(it.case)), json.loads(json.dumps(it.case))
        a["obs"]["molecules"].pop()
        jobs["top"] = [a, good]
    p = [it for it in acc["pre"] if not it.case["obs"]["err"] and any(len(x["par"]) > 1 for i in it.case["obs"]["inst"] for k in c09.KINDS for x in i["inter"][k])]
    if p:
        it = min(p, key=lambda x: len(json.dumps(x.case)))
        a, good = json.loads(json.dumps(it.case)), json.loads(json.dumps(it.case))
        [x for i in a["obs"]["inst"] for k in c09.KINDS for x in i["inter"][k] if len(x["par"]) > 1][0]["par"][-1] += "9"
        jobs["pre"] = [a, good]
        full = [q for q in p if q.case["nbobs"]["post"]]
        if full:
            b = json.loads(json.dumps(min(full, key=lambda x: len(json.dumps(x.case))).case))
            b["nbobs"]["post"].pop()
            jobs["pre"].insert(1, b)

    def run_kind(kind):
        cases = jobs.get(kind)
        if not cases:
            return kind, None
        if kind == "map":
            by, _ = map_validate(cases, "demo_map")
            return kind, [map_judge(x, v)[0] for x, v in zip(cases, by)]
        if kind == "links":
            rej, skp, _, _ = links_validate(cases, "demo_links")
            return kind, ["rejected" if i in rej else "outside" if i in skp else "accepted" for i in range(len(cases))]
        if kind == "top":
            rej, ood, _, _ = top_validate(cases, "demo_top")
            return kind, ["rejected" if i in rej else "outside" if i in ood else "accepted" for i in range(len(cases))]
        rej, ver, _ = pre_validate(cases, "demo_pre")
        return kind, ["rejected" if i in rej else "accepted" for i in range(len(cases))]
    with ThreadPoolExecutor(max(1, min(4, c.NPROC))) as ex:
        outs = dict(ex.map(run_kind, KINDS))
    text = {"map": "charge group of the last atom changed / one atom edge dropped%s" % (" / residue id of the first atom of the final molecule changed" if len(jobs.get("map", [])) == 4 else ""),
            "links": "one link-made interaction deleted / the outcome of one applied attempt falsified",
            "top": "one molecule dropped from the molecule list",
            "pre": "one resolved parameter altered%s" % (" / one pair dropped from the non-bonded table" if len(jobs.get("pre", [])) == 3 else "")}
    for kind in KINDS:
        got = outs.get(kind)
        if got is None:
            continue
        want = ["rejected"] * (len(got) - 1) + ["accepted"]
        if got != want:
            raise c.MachineryError("binding demonstration failed (%s): corrupted records and the intact copy gave %s, expected %s" % (kind, got, want))
        demo[kind] = "%s -> rejected; the intact record accepted" % text[kind]
    ck.extra["binding_demo"] = demo
    missing = [k for k in KINDS if k not in demo]
    ck.require(not missing or ck.extra.get("tests_failed_or_errored", 0) > 0 and ck.violations > 0,
               "no accepted record was available for the binding demonstration of %s" % missing)


# minimum yield, from the numbers measured on the unchanged tree (distinct accepted records: map 15 of 20, 5 of them with the final molecule; links 5
# with 106 applied links; top 53 of 60; pre 20 of 21 - the same in both tiers, the whole suite only repeats the inputs of the focus files)
MINIMUM = {"quick": {"tests": 250, "map": 12, "map_final": 4, "links": 4, "applied": 60, "top": 40, "pre": 15},
           "thorough": {"tests": 450, "map": 12, "map_final": 4, "links": 4, "applied": 60, "top": 40, "pre": 15}}


def _vacuity(ck, tests, items, focus, perr):
    ck.require(not perr, "the recording plugin failed to write the records of %d tests: %s" % (len(perr), [r.get("error") for r in perr][:2]))
    unp = [(k, it.why) for k in KINDS for it in items[k] if it.status == "unprojectable"]
    ck.require(not unp, "records the plugin could not project: %s" % unp[:3])
    focus_names = tuple(Path(f).name for f in focus)
    failed_focus = [t["nodeid"] for t in tests if any(v != "passed" for v in t["outcome"].values()) and t["nodeid"].split("::")[0].endswith(focus_names)]
    acc = {k: [it for it in items[k] if it.status == "accepted"] for k in KINDS}
    lo = MINIMUM[ck.tier]
    need = [(len(tests) >= lo["tests"], "fewer than %d tests ran (%d)" % (lo["tests"], len(tests))),
            (len(acc["map"]) >= lo["map"], "fewer than %d accepted MapToMolecule records (%d)" % (lo["map"], len(acc["map"]))),
            (sum(1 for it in acc["map"] if it.case["judge_final"]) >= lo["map_final"], "fewer than %d records with the final molecule judged" % lo["map_final"]),
            (len(acc["links"]) >= lo["links"], "fewer than %d accepted ApplyLinks records (%d)" % (lo["links"], len(acc["links"]))),
            (sum(1 for it in acc["links"] for x in it.case["obs"]["calls"] if x["out"] == "applied") >= lo["applied"], "fewer than %d applied links in the accepted records" % lo["applied"]),
            (len(acc["top"]) >= lo["top"], "fewer than %d accepted topology-reading records (%d)" % (lo["top"], len(acc["top"]))),
            (len(acc["pre"]) >= lo["pre"], "fewer than %d accepted preprocessing records (%d)" % (lo["pre"], len(acc["pre"])))]
    # the baseline has three failing tests in the traced files; failures beyond those are the doing of a changed tree (or, with VERIF_SEED != 0, of the
    # permuted file order: a few tests of the suite depend on the order) and lower the yield - noted, not a machinery failure
    unexpected = [f for f in failed_focus if f not in BASELINE_FAILING]
    for ok, msg in need:
        if ok:
            continue
        if ck.violations or unexpected:
            ck.note("yield below the usual minimum (%s) while %d tests of the traced files fail beyond the baseline, e.g. %s" % (msg, len(unexpected), unexpected[:2]))
        else:
            ck.require(False, "vacuous: " + msg)


# ----------------------------------------------------------------------------- replay

def replay(path):
    doc = json.loads(open(path).read())
    case = doc["case"]
    ck = c.Check(PROP, "quick", level="model_checking")
    repo = repo_root()
    scratch = tempfile.mkdtemp(prefix="x07_", dir="/var/tmp")
    try:
        it = Item(case["kind"], {})
        it.sub, it.case, it.nodeids = case.get("sub", case["kind"]), case["case"], list(case["nodeids"])
        judge({k: ([it] if k == case["kind"] else []) for k in KINDS}, "replay_stored")
        print("stored record: %s%s" % (it.status, (" - " + it.why) if it.why else ""))
        print("re-running %s on %s" % (case["nodeids"][0], repo))
        rc, recs, tail, _ = run_pytest(repo, [case["nodeids"][0]], scratch, "replay", 900)
        items = group(recs)
        prepare(items)
        judge(items, "replay")
        _report(ck, items)
        n = sum(len(items[k]) for k in KINDS)
        print("replayed: %d records of the test, %s" % (n, "violation reproduced" if ck.violations else "all accepted / outside the domain now"))
    finally:
        shutil.rmtree(scratch, ignore_errors=True)
    return 1 if ck.violations else 0
