"""C20 - outputs appear only after success and never clobber existing files.

spec/Output.tla: I-layer = stage lists of gen_params / gen_coords / gen_seq, the deferred writer's queue and the micro-steps
of its flush, Crash(stage, before|after|mid|inside); P-layer = NoEarlyEffect, SuccessState (first free GROMACS backup name),
OthersKept, OnlyBackupCreated, NoLoss, TargetWhole, TmpClean, CommitOnly.
S->I : every behaviour exported by Output_Export (program variant x initial directory x crash point | success) is executed on
       the real programs in a fresh process and a scratch directory with the exception injected from the wrapped stage function;
       the snapshot after every stage and after the run is compared with the specification's.
I->S : seeded real runs beyond the bound (other inputs incl. inputs that fail by themselves, 6 backup names with gaps, other
       file names / sub-directories, BaseException crashes) record a snapshot per stage boundary; Output_Trace validates them.
History extension (note N3): two runs in one process, exported by the two-run instance, replayed and classified.
"""
import json
import random
from pathlib import Path

from .. import common as c
from .. import output_util as u

PROP = "C20"
TIMEOUT = 150


# ------------------------------------------------------------------ helpers

def _norm(e):
    return {"ev": e["ev"], "run": e["run"], "var": {"prog": e["var"]["prog"], "on": sorted(e["var"]["on"]), "route": e["var"].get("route", "plain"),
                                                         "inout": e["var"].get("inout", "no"), "dev": e["var"].get("dev", "same"),
                                                         "env": e["var"].get("env", "stable")},
            "target": e["target"], "fs": dict(e["fs"]), "queue": [dict(q) for q in e["queue"]], "loose": sorted(e["loose"])}


def _label(ev):
    if ev["kind"] == "stage":
        return ev["stage"]
    if ev["kind"] == "crash":
        return "CRASH %s/%s" % (ev["stage"], ev["when"])
    if ev["kind"] == "fault":
        return "FAULT %s before %s" % (ev["when"], ev["stage"])
    return ev["kind"]


def compare(hist, events):
    """first difference between the specification's behaviour and the observed one, or None"""
    exp = [_norm(e) for e in hist]
    got = [_norm(e) for e in events]
    for k in range(max(len(exp), len(got))):
        if k >= len(got):
            return k, "run ended after %d events; specification continues with %s" % (len(got), _label(exp[k]["ev"]))
        if k >= len(exp):
            return k, "specification's behaviour ends; the program went on with %s" % _label(got[k]["ev"])
        a, b = exp[k], got[k]
        if a["ev"] != b["ev"]:
            return k, "event %d: specification %s, program %s" % (k, _label(a["ev"]), _label(b["ev"]))
        for f in ("fs", "queue", "loose"):
            if a[f] != b[f]:
                if f == "fs":
                    d = {p: (a["fs"].get(p), b["fs"].get(p)) for p in sorted(set(a["fs"]) | set(b["fs"])) if a["fs"].get(p) != b["fs"].get(p)}
                    return k, "after %s the output directory differs (path: expected, observed): %s" % (_label(a["ev"]), d)
                return k, "after %s %s differs: expected %s, observed %s" % (
                    _label(a["ev"]), "the writer's queue" if f == "queue" else "the loose temporary files", a[f], b[f])
    return None


def case_from_hist(hist, cid, hist_mode=False, seed=0):
    """concrete case for one exported behaviour"""
    first = hist[0]
    runs = []
    for i, e in enumerate(hist):
        if e["ev"]["kind"] in ("init", "nextrun"):
            runs.append({"prog": e["var"]["prog"], "on": sorted(e["var"]["on"]), "target": e["target"], "crash": None,
                         "exc": "Exception"})
            runs[-1]["input"] = u.VARIANT_INPUT[(runs[-1]["prog"], tuple(runs[-1]["on"]))]
        elif e["ev"]["kind"] == "crash" and e["ev"]["when"] != "env":
            runs[-1]["crash"] = {"stage": e["ev"]["stage"], "when": e["ev"]["when"]}
        elif e["ev"]["kind"] == "fault":
            # environment fault of the specification: really applied when the run reaches the boundary "before <stage>"
            runs[-1]["fault"] = {"stage": e["ev"]["stage"], "what": e["ev"]["when"]}
    ext = ".dat" if hist_mode else u.EXT[runs[0]["prog"]]
    names = {"out": "out" + ext, "out2": "out2" + ext, "tgt": "run_001" + ext}
    nbk = sum(1 for k in first["fs"] if k.startswith("b"))
    init = {k: v for k, v in first["fs"].items() if k not in ("other",) and v != "absent"}
    return {"id": cid, "names": names, "nbk": nbk, "init": init, "runs": runs, "seed": seed, "instrument": True,
            "route": first["var"].get("route", "plain"), "inout": first["var"].get("inout", "no"),
            "dev": first["var"].get("dev", "same"), "env": first["var"].get("env", "stable")}


def case_key(case):
    return json.dumps([[r["prog"], r["on"], r["target"], r["crash"], r.get("fault")] for r in case["runs"]] + [sorted(case["init"].items()), case.get("route", "plain"), case.get("inout", "no"), case.get("dev", "same")])


def _ref_job(arg):
    root, key, r, seed = arg
    try:
        return u.reference(root, key, r, seed, "ref" + u.EXT[u.inputs(key, Path("x"))[0]])
    except Exception as exc:  # a failing reference run = the program cannot produce the output at all
        return "FAILED %s: %s" % (type(exc).__name__, exc)


def references(ck, wd, keys_runs, seed):
    """complete new contents, produced by un-instrumented runs (one forked child each)"""
    jobs = [(str(wd / ("ref_%s_%d" % (k, r))), k, r, seed) for k, r in keys_runs]
    refs = {}
    for (k, r), res in zip(keys_runs, u.fork_map(_ref_job, jobs, timeout=TIMEOUT)):
        if res[0] == "ok" and isinstance(res[1], bytes):
            refs[(k, r)] = res[1]
        else:
            refs[(k, r)] = b"\0no reference output\0"
            if not k.split("_")[1].startswith("bad"):
                ck.violation({"kind": "reference", "input": k, "run": r, "result": str(res)[:2000]},
                             what="%s: a plain successful run on valid test input %s did not produce the output (%s)" % (
                                 u.inputs(k, Path("x"))[0], k, str(res[1])[:300] if res[0] != "timeout" else "timeout"))
    return refs


_REFS = {}
_ROOT = None


def _run_job(case):
    return u.run_case(case, str(_ROOT / case["id"]), _REFS)


def execute(cases, root, refs):
    global _REFS, _ROOT
    _REFS, _ROOT = refs, Path(root)
    try:
        return u.fork_map(_run_job, cases, timeout=TIMEOUT)
    finally:
        u.unlock_tree(root)      # directories locked by an environment fault in a child that was killed


# ------------------------------------------------------------------ S -> I

def replay_export(ck, hists, label, wd, seed, hist_mode=False):
    cases = [case_from_hist(h, "%s_%04d" % (label, i), hist_mode, seed) for i, h in enumerate(hists)]
    need = sorted({(r["input"], k) for cs in cases for k, r in enumerate(cs["runs"], 1)})
    refs = references(ck, wd, need, seed)
    res = execute(cases, wd / label, refs)
    out = []
    for cs, h, (st, r) in zip(cases, hists, res):
        if st == "timeout":
            ck.extra["timeouts"] = ck.extra.get("timeouts", 0) + 1
            out.append((cs, h, None, "timeout"))
            continue
        if st != "ok":
            # the observer could not cope with what the code under test did: that is reported against the code, with the
            # case, never as a machinery failure (on the unchanged tree this does not happen)
            ck.violation({"kind": "S->I", "case": cs, "expected": h, "observed": [], "info": {"runner": str(r)[-3000:]}},
                         what="%s: the run could not be observed (%s): %s" % (cs["runs"][0]["prog"], st, str(r)[-600:]))
            out.append((cs, h, None, "unobservable"))
            continue
        out.append((cs, h, r, None))
    return out


def judge_main(ck, results):
    """S->I in the statement's domain: any difference is a violation"""
    found = []
    for cs, h, r, skip in results:
        if skip:
            continue
        ck.replayed += 1
        ck.evaluations += len(r["events"])
        ck.nontrivial.add(case_key(cs))
        why = None
        if r["info"]["unplanned"]:
            x = r["info"]["unplanned"][0]
            why = "the program raised by itself on valid input in stage %s: %s" % (x["stage"], x["exc"])
        elif r["info"]["unreached"]:
            x = r["info"]["unreached"][0]["crash"]
            why = "stage boundary %s/%s of the specification's stage list was never reached" % (x["stage"], x["when"])
        if r["info"].get("missing_targets") or r["info"].get("observer_error"):
            why = (why + "; " if why else "") + "the program no longer has the stage functions %s %s" % (
                r["info"].get("missing_targets"), r["info"].get("observer_error") or "")
        d = compare(h, r["events"])
        if d:
            why = (why + "; " if why else "") + d[1]
            fe, fo = _norm(h[-1])["fs"], _norm(r["events"][-1])["fs"]
            if fe != fo:
                why += "; directory after the run (path: expected, observed): %s" % {
                    p: (fe.get(p), fo.get(p)) for p in sorted(set(fe) | set(fo)) if fe.get(p) != fo.get(p)}
        if why:
            found.append(("directory after the run" not in why, len(found), cs, h, r, why))
    # cases whose directory after the run is wrong are reported first (only the first 20 violations are printed)
    for _, _, cs, h, r, why in sorted(found, key=lambda x: x[:2]):
        rn = cs["runs"][0]
        ck.violation({"kind": "S->I", "case": cs, "expected": h, "observed": r["events"], "info": r["info"]},
                     what="%s [%s] initial %s, %s: %s" % (rn["prog"], ",".join(rn["on"]) or "-", cs["init"] or "empty directory",
                                                         ("crash %s/%s" % (rn["crash"]["stage"], rn["crash"]["when"])) if rn["crash"] else
                                                         ("environment fault %s before %s, no injected exception" % (rn["fault"]["what"], rn["fault"]["stage"])) if rn.get("fault") else "no crash", why))


# ------------------------------------------------------------------ I -> S

GOOD = ["gp_min", "gp_dna", "gp_ps_json", "gp_ppi", "gp_p3ht", "gp_lib", "gc_min", "gc_full", "gc_coords_bld", "gc_meta",
        "gc_dens", "gs_min", "gs_file", "gs_block"]
SLOW = ["gc_uff"]     # 10-20 s per complete run (template optimisation): a few runs in the thorough tier only
BAD = ["gp_bad_res", "gp_bad_file", "gp_bad_seq", "gc_bad_start", "gc_bad_top", "gc_bad_filter", "gc_bad_split",
       "gs_bad_macro", "gs_bad_string"]
BASE = {"gen_params": ["read_ff", "graph", "dsdna", "map", "links", "mods", "missing", "open", "write", "close", "flush"],
        "gen_coords": ["read_top", "preprocess", "check", "split", "coords", "build_file", "start", "grid", "templates", "ligands",
                       "cycles", "build", "split_lig", "backmap", "convert", "open", "write", "flush"],
        "gen_seq": ["macro_file", "macro_str", "graph", "termini", "labels", "to_json", "popen", "pwrite"]}
OPTIONAL = {"dsdna", "split", "coords", "grid", "macro_file"}
TNBK = 6


def random_cases(n, sd, nslow=0):
    rng = random.Random(sd)
    cases = []
    for i in range(n):
        key = rng.choice(SLOW) if i < nslow else (rng.choice(BAD) if rng.random() < 0.2 else rng.choice(GOOD))
        prog = u.inputs(key, Path("x"))[0]
        on = u.INPUT_ON[key]
        stages = [s for s in BASE[prog] if s not in OPTIONAL or s in on]
        crash = None
        if rng.random() < (0.35 if key in BAD else 0.75):
            s = rng.choice(stages)
            whens = ["before", "after"] + (["mid"] if s in ("write", "flush", "pwrite") else [])
            crash = {"stage": s, "when": rng.choice(whens)}
        init = {}
        if rng.random() < 0.7:
            init["out"] = "old"
        free = rng.randrange(1, TNBK + 1)          # at least this backup name stays free
        for b in range(1, TNBK + 1):
            if b != free and rng.random() < 0.5:
                init["b%d" % b] = "bk%d" % b
        ext = u.EXT[prog]
        stem = rng.choice(["out", "my.result.v2", "sub/dir/coords", "a b", "#odd#", "x" * 40])
        names = {"out": stem + ext, "out2": "unused_second" + ext, "tgt": str(Path(stem).with_name("earlier run 7" + ext))}
        if "out" in init and rng.random() < 0.3:
            init["out"], init["tgt"] = "link", "lold"      # the output path is a symbolic link to a regular file
        route = "plain"
        if "tgt" not in init and "/" not in stem and rng.random() < 0.35:
            route = rng.choice(["symdir", "dots", "abs"])
        no_parent = False
        if key in GOOD and crash is None and rng.random() < 0.25:
            # user error: the output directory does not exist -> the program fails by itself at the very end (flush / open)
            names["out"], init, no_parent = "no_such_dir/" + Path(stem).name + ext, {}, True
        if no_parent:
            route = "plain"
        inout = "no"
        if (init.get("out") == "old" and route == "plain" and "/" not in stem and not no_parent and rng.random() < 0.7
                and key in ("gc_full", "gc_coords_bld", "gp_min", "gp_p3ht", "gp_ps_json", "gp_bad_res", "gp_bad_seq")):     # inputs whose file has the output's format (.gro / .itp)
            inout, init["out"] = rng.choice(["same", "link", "dots"]), "inp"   # the run reads an input from the output path
        dev = "cross" if (not no_parent and rng.random() < 0.2) else "same"
        fault = None
        if key in GOOD and crash is None and not no_parent and route == "plain" and inout == "no" and rng.random() < 0.5:
            # an environment fault while the process is alive instead of an injected exception (spec: Fault / EnvFail)
            what = rng.choice([k for k in ("tmp_gone", "tmp_ro", "out_ro") if k == "tmp_gone" or u.ro_method()])
            if what == "out_ro":
                pts = [stages[0], "popen" if prog == "gen_seq" else "flush"]
            else:
                pts = [stages[0]] + ([] if prog == "gen_seq" else ["open"])
            fault, dev = {"stage": rng.choice(pts), "what": what}, "same"
        cases.append({"id": "t%04d" % i, "names": names, "nbk": TNBK, "init": init, "seed": sd, "instrument": True, "no_parent": no_parent,
                      "route": route, "inout": inout, "dev": dev, "env": "faulty" if fault else "stable",
                      "runs": [{"prog": prog, "on": sorted(on), "input": key, "target": "out", "crash": crash, "fault": fault,
                                "exc": rng.choice(["Exception", "BaseException"])}]})
    return cases


def validate_traces(ck, doc, name, cfg="Out_trace.cfg", expect_reject=False):
    doc = dict(doc)
    seen = {}
    for t in doc["traces"]:
        for e in t["events"]:
            seen[json.dumps(e["var"], sort_keys=True)] = e["var"]
    doc["variants"] = [seen[k] for k in sorted(seen)]
    wd = c.workdir(PROP, name)
    f = wd / "traces.json"
    f.write_text(json.dumps(doc))
    res = c.tlc("Output_Trace", cfg, workers=1, env={"TRACE_FILE": str(f)}, check=False)
    rej = res.tagged("REJECTED")
    if res.rc != 0 and not rej and not res.inv_violated:
        raise c.MachineryError("Output_Trace failed: %s" % res.out[-2500:])
    rejected = {}
    for r in rej:
        rejected.update({int(t): int(m) for t, m in r})
    if expect_reject:
        return rejected, res
    ck.add_tlc(res)
    if res.inv_violated:
        # a P-layer invariant failed on a state the real program went through
        ck.violation({"kind": "I->S invariant", "invariant": res.inv_violated, "counterexample": c.counterexample(res)[:4000]},
                     what="P-layer invariant %s violated on a recorded real run" % res.inv_violated)
        return rejected, res
    ck.traces += len(doc["traces"]) - len(rejected)
    return rejected, res


def trace_direction(ck, wd, n, sd, refs_cache, nslow=0):
    cases = random_cases(n, sd, nslow)
    need = sorted({(cs["runs"][0]["input"], 1) for cs in cases} - set(refs_cache))
    refs_cache.update(references(ck, wd, need, sd))
    res = execute(cases, wd / "traces", refs_cache)
    traces, kept = [], []
    stats = {"success": 0, "injected": 0, "self_failed": 0, "env_faults": 0, "env_failed": 0, "timeouts": 0}
    for cs, (st, r) in zip(cases, res):
        if st == "timeout":
            stats["timeouts"] += 1
            continue
        if st != "ok":
            ck.violation({"kind": "I->S", "case": cs, "observed": [], "info": {"runner": str(r)[-3000:]}},
                         what="%s (%s): the run could not be observed (%s): %s" % (cs["runs"][0]["prog"], cs["runs"][0]["input"], st, str(r)[-600:]))
            continue
        rn = cs["runs"][0]
        ck.evaluations += len(r["events"])
        if r["info"]["unplanned"]:
            stats["self_failed"] += 1
            if rn["input"] in GOOD + SLOW and not cs.get("no_parent"):
                x = r["info"]["unplanned"][0]
                ck.violation({"kind": "I->S", "case": cs, "observed": r["events"], "info": r["info"]},
                             what="%s raised by itself on valid input %s in stage %s: %s" % (rn["prog"], rn["input"], x["stage"], x["exc"]))
                continue
        elif r["info"].get("env_failed"):
            stats["env_failed"] += 1
        elif r["events"][-1]["ev"]["kind"] == "crash":
            stats["injected"] += 1
        else:
            stats["success"] += 1
        stats["env_faults"] += 1 if rn.get("fault") else 0
        traces.append({"events": r["events"]})
        kept.append((cs, r))
        ck.nontrivial.add("trace " + case_key(cs) + json.dumps(cs["names"]))
    doc = {"nbk": TNBK, "runs": 1, "traces": traces}
    rejected, _ = validate_traces(ck, doc, "trace_batch_%d" % sd)
    for tid, matched in sorted(rejected.items()):
        cs, r = kept[tid - 1]
        ev = r["events"]
        nxt = ev[matched + 1] if matched + 1 < len(ev) else None
        ck.violation({"kind": "I->S", "case": cs, "observed": ev, "matched_events": matched, "info": r["info"]},
                     what="%s (%s): recorded run rejected by Output after %d matched events; next event %s with directory %s queue %s loose %s" % (
                         cs["runs"][0]["prog"], cs["runs"][0]["input"], matched, _label(nxt["ev"]) if nxt else "-",
                         {k: v for k, v in (nxt or {}).get("fs", {}).items() if v != "absent"}, (nxt or {}).get("queue"), (nxt or {}).get("loose")))
    doc["accepted"] = [i for i in range(len(traces)) if (i + 1) not in rejected]
    return doc, stats


def binding_demo(ck, doc):
    """a corrupted snapshot must be rejected"""
    demos = []
    acc = [doc["traces"][i] for i in doc["accepted"]]
    good = [t for t in acc if t["events"][-1]["ev"]["kind"] == "finish" and t["events"][0]["fs"]["out"] == "old"
            and t["events"][0]["var"]["prog"] != "gen_seq"]
    crashed = [t for t in acc if t["events"][-1]["ev"]["kind"] == "crash" and t["events"][-1]["fs"] == t["events"][0]["fs"]
               and len(t["events"]) > 3]
    if (not good or not crashed) and ck.violations:
        return "skipped: violations were reported and no accepted recorded trace of the required shape is left"
    if not good or not crashed:
        raise c.MachineryError("binding demonstration: no suitable recorded trace (successful over an existing file / crashed early)")
    t1 = json.loads(json.dumps(good[0]))
    # the backup of the old file is 'forgotten' in the final snapshot
    for k, v in t1["events"][-1]["fs"].items():
        if v == "old":
            t1["events"][-1]["fs"][k] = "absent"
    demos.append(t1)
    t2 = json.loads(json.dumps(crashed[0]))
    # the output is truncated two events before the crash
    t2["events"][-3]["fs"]["out"] = "empty"
    demos.append(t2)
    t3 = json.loads(json.dumps(good[0]))
    # a stage is skipped
    del t3["events"][2]
    demos.append(t3)
    rej, res = validate_traces(ck, {"nbk": doc["nbk"], "runs": 1, "traces": demos + [good[0]]}, "binding", expect_reject=True)
    if not {1, 2, 3} <= set(rej) or (4 in rej and not ck.violations):
        raise c.MachineryError("binding demonstration failed: corrupted traces %s rejected, expected exactly 1,2,3 (4 is the uncorrupted one)\n%s" % (
            sorted(rej), res.out[-1500:]))
    return "3 corrupted traces (backup dropped from the final snapshot; output truncated before the crash; one stage event removed) rejected after %s matched events, the uncorrupted original accepted" % [rej[i] for i in (1, 2, 3)]


# ------------------------------------------------------------------ history extension (note N3)

def history(ck, wd, persist, fresh, sd, limit):
    def key(h):
        return json.dumps([[e["ev"], e["var"], e["target"]] for e in h if e["ev"]["kind"] in ("init", "nextrun", "crash", "finish")]
                          + [sorted(h[0]["fs"].items())], sort_keys=True)
    fresh_by = {key(h): h for h in fresh}
    hs = persist
    differ = [h for h in hs if _norm(h[-1])["fs"] != _norm(fresh_by[key(h)][-1])["fs"]]
    same = [h for h in hs if _norm(h[-1])["fs"] == _norm(fresh_by[key(h)][-1])["fs"]]
    rng = random.Random(sd)
    if limit:
        hs = rng.sample(differ, min(len(differ), limit)) + rng.sample(same, min(len(same), limit // 2))
    results = replay_export(ck, hs, "hist", wd, sd, hist_mode=True)
    tally = {"as_persistent_queue_model": 0, "as_fresh_process_model": 0, "both_models_agree": 0, "neither": 0, "leaks": 0, "timeouts": 0}
    example = None
    odd = []
    for cs, h, r, skip in results:
        if skip:
            tally["timeouts"] += 1
            continue
        ck.evaluations += len(r["events"])
        dp = compare(h, r["events"])
        df = compare(fresh_by[key(h)], r["events"])
        if dp is None and df is None:
            tally["both_models_agree"] += 1
        elif dp is None:
            tally["as_persistent_queue_model"] += 1
            last, f0 = _norm(r["events"][-1]), _norm(fresh_by[key(h)][-1])
            if last["fs"] != f0["fs"]:
                tally["leaks"] += 1
                if example is None or (cs["runs"][0]["crash"] == {"stage": "write", "when": "mid"} and cs["init"].get("out") == "old"
                                       and cs["runs"][1]["target"] == "out2" and cs["runs"][1]["crash"] is None and "partial" not in json.dumps(example)):
                    example = {"run1": {k: cs["runs"][0][k] for k in ("prog", "crash")}, "run2": {k: cs["runs"][1][k] for k in ("prog", "target", "crash")},
                               "initial": cs["init"], "directory_after_run2": {k: v for k, v in last["fs"].items() if v != "absent"},
                               "fresh_process_would_give": {k: v for k, v in f0["fs"].items() if v != "absent"}}
        elif df is None:
            tally["as_fresh_process_model"] += 1
        else:
            tally["neither"] += 1
            odd.append({"case": cs, "vs_persistent": dp[1], "vs_fresh": df[1]})
    return tally, example, odd


# ------------------------------------------------------------------ entry points

DEVS = [("Out_dev_plainopen.cfg", "NoEarlyEffect", "output opened with open() instead of the deferred writer: truncated when a later step fails"),
        ("Out_dev_flushearly.cfg", "NoEarlyEffect", "writer flushed before serialisation is complete"),
        ("Out_dev_bkoverwrite.cfg", "OthersKept", "backup always written to #name.1#: an existing backup is overwritten"),
        ("Out_dev_nobackup.cfg", "NoLoss", "temp file moved over the existing file: previous content lost"),
        ("Out_dev_seqopen.cfg", "NoEarlyEffect", "gen_seq opens (truncates) the output before the graph exists (mutant m40)"),
        ("Out_dev_linkdirect.cfg", "NoEarlyEffect", "an output path that is a symbolic link is written through: the link target is truncated before success (seed-C20-1)"),
        ("Out_dev_linkdirect_succ.cfg", "BackupResolves", "symbolic link written through: previous content not under a backup name after success (seed-C20-1)"),
        ("Out_dev_bkcount.cfg", "OthersKept", "backup index = count of existing backups + 1: a non-contiguous backup set gets an existing backup overwritten (seed-C20-2)"),
        ("Out_dev_inplace.cfg", "NoEarlyEffect", "output path holds an input of the run and is updated in place: truncated when serialisation fails (seed3-C20-2)"),
        ("Out_dev_inplace_succ.cfg", "SuccessState", "output path holds an input of the run and is updated in place: previous bytes not under a backup name (seed3-C20-2)"),
        ("Out_dev_moveclose_cross.cfg", "SuccessState", "gen_params flushes the writer before the handle is closed: with the temp directory on another file system the buffered tail is lost (seed5-C20-1)"),
        ("Out_dev_stagefallback_succ.cfg", "SuccessHasBackup", "staging fails and the program writes directly: it reports success without a backup of the previous file (seed7-C20-2)"),
        ("Out_dev_backupskip.cfg", "SuccessHasBackup", "the backup cannot be made (output directory takes no new entries) and the flush writes over the existing file: success without a backup"),
        ("Out_dev_routediscard.cfg", "SuccessState", "own queue entry not recognised when the output path runs through a symlinked directory: nothing is written (seed2-C20-1)")]
# the same flags against further properties (thorough tier)
DEVS_MORE = [("Out_dev_stagefallback.cfg", "NoEarlyEffect", "the output cannot be staged (staging directory gone / takes no new files) and the program 'recovers' by opening the output path directly: truncated before success (seed7-C20-2)"),
             ("Out_dev_plainopen_succ.cfg", "SuccessState", "output opened with open(): no backup of the previous file"),
             ("Out_dev_plainopen_commit.cfg", "CommitOnly", "output opened with open(): the directory changes outside the commit stage"),
             ("Out_dev_nobackup_succ.cfg", "SuccessState", "temp file moved over the existing file: no backup after success")]


def run(tier):
    ck = c.Check(PROP, tier)
    sd = c.seed()
    ck.rule = ("S->I: TLC enumerates every behaviour of Output for 6 program variants (gen_params, gen_coords, gen_seq, each without and with "
               "its optional stages) x 20 initial directories (target absent/present x every subset of backups #.1# #.2# #.3#, incl. non-contiguous ones; "
               "output path = symbolic link to a regular file with backups {}, {1}, {2}, {1,3}; plus 3 other spellings of the output path - through a symlinked "
               "directory, ./sub/../name, absolute - x fresh / existing / existing+backup; plus the output path occupied by an INPUT of the run - gen_coords -c, gen_params -f naming the output "
               "path itself, a symbolic link to it, or ./sub/../name) x every crash point "
               "(before and after every stage, in the middle of serialisation, of the flush and of gen_seq's write) or success; each is run on the "
               "real program in a fresh process and compared after every stage; distinct = (variant, initial directory, crash point). "
               "Environment faults instead of injected exceptions: 6 variants x fresh / existing / existing+backup / symbolic-link output x "
               "{staging directory removed, staging directory read-only, output directory read-only} x {at the start of the run, right before "
               "the stage that needs the resource}, the directories really removed / made read-only at that stage boundary. "
               "I->S: seeded real runs on 24 other inputs (9 of them failing by themselves), 6 backup names with gaps, other file names and "
               "sub-directories, Exception and BaseException crashes; distinct = (input, names, initial directory, crash point)")
    ck.assumptions = ["contents are compared byte for byte; 'complete new content' = what an un-instrumented successful run of the same command "
                      "(same argv, same RNG seeds) writes in a fresh directory",
                      "an exception at a stage boundary is raised from a wrapper around the stage function (no hooks in /repo); 'mid' points: third "
                      "write() call of the serialiser, before the final move of the flush, half of gen_seq's json text",
                      "one forked process per case models the fresh process of a command-line invocation; the temp directory is private per case "
                      "(tempfile.tempdir) so that the writer's temporary files can be observed",
                      "environment faults: the staging directory is the process' tempfile.tempdir (private per case), removed with rmtree or made "
                      "read-only for the running process (chmod 0555; for root the immutable flag, see readonly_directory_method); 'full' is represented "
                      "by 'takes no new files'; one fault per run, not combined with an injected exception",
                      "out of the statement's domain, checked for conformance only: crashes inside the flush / inside gen_seq's final write, and two runs in one process (N3)"]
    u.unlock_tree(c.WORK / PROP)     # left-overs of a killed earlier run (directories locked by an environment fault)
    wd = c.workdir(PROP, "runs")
    ro = u.ro_method(c.WORK / PROP)
    ck.extra["readonly_directory_method"] = ro or "none available: only the 'staging directory removed' fault is bound"
    import atexit, os, shutil
    atexit.register(shutil.rmtree, "/dev/shm/verif_c20_%d" % os.getpid(), True)
    ck.stage("TLC: model, sensitivity runs, history instances, exports (concurrently)")
    jobs = [("Output_MC", "Out_small.cfg", {"workers": 2, "coverage": True}),
            ("Output_Export", "Out_export.cfg", {"workers": 2}),
            ("Output_MC", "Out_hist_persist.cfg", {"workers": 1, "check": False}),
            ("Output_MC", "Out_hist_fresh.cfg", {"workers": 1}),
            ("Output_MC", "Out_hist_same.cfg", {"workers": 1}),
            ("Output_MC", "Out_dev_moveclose_same.cfg", {"workers": 1}),
            ("Output_Export", "Out_hist_export_persist.cfg", {"workers": 1}),
            ("Output_Export", "Out_hist_export_fresh.cfg", {"workers": 1})]
    devs = DEVS + (DEVS_MORE if tier == "thorough" else [])
    jobs += [("Output_MC", cfg, {"workers": 1, "check": False}) for cfg, _, _ in devs]
    res = c.tlc_many(jobs)
    small, export, hpers, hfresh, hsame, mcsame, xpers, xfresh = res[:8]
    ck.model_must_hold(mcsame, "flush before close with everything on ONE file system: SuccessState still holds (the deviation only shows across devices)")
    ck.model_must_hold(small, "NoEarlyEffect/SuccessState/OthersKept/OnlyBackupCreated/NoLoss/TargetWhole/TmpClean/EnvFailClean/SuccessHasBackup/CommitOnly")
    cov = small.coverage()
    for act in ("Fault", "EnvFail", "Work", "OpenDeferred", "PlainOpen", "WriteBegin", "WriteEnd", "CloseHandle", "FlushBegin", "FlushFind", "FlushBackup", "FlushMove", "AnyCrash", "Finish"):
        if not cov.get(act):
            raise c.MachineryError("action %s never taken in Out_small (vacuous)" % act)
    for (cfg, inv, what), r in zip(devs, res[8:]):
        ck.model_must_refute(r, inv, what)
    ck.model_must_hold(export, "export")
    ck.model_must_hold(hfresh, "history, second run in a fresh process: HistoryClean")
    ck.model_must_hold(hsame, "history, same process and same target: HistoryClean")
    ck.add_tlc(hpers)
    model_leak = "HistoryClean" in hpers.inv_violated
    ck.model_must_hold(xpers, "history export (persistent queue)")
    ck.model_must_hold(xfresh, "history export (fresh process)")

    # ---- S -> I
    hists = export.cases()
    if len(hists) < 7000:
        raise c.MachineryError("Output_Export produced only %d behaviours" % len(hists))
    inside = [h for h in hists if h[-1]["ev"]["when"] == "inside"]
    hists = [h for h in hists if h[-1]["ev"]["when"] != "inside"]
    ck.extra["behaviours_exported"] = len(hists) + len(inside)
    ck.extra["behaviours_inside_work_stage_not_injectable"] = len(inside)
    if tier == "quick":
        # stratified (seeded): every (variant, crash point); all 20 initial directories for success and the flush points,
        # 2 plain + 1 symlink directories for the serialisation points, 1 plain + 1 symlink for the work stages
        rng = random.Random(sd)
        groups = {}
        for h in hists:
            groups.setdefault(json.dumps([h[0]["var"]["prog"], sorted(h[0]["var"]["on"]), h[0]["var"]["route"] == "plain", h[0]["var"]["inout"] == "no", h[0]["var"]["dev"], h[0]["var"].get("env", "stable"), h[-1]["ev"]], sort_keys=True), []).append(h)
        sel = []
        for k in sorted(groups):
            g = sorted(groups[k], key=lambda h: json.dumps(h[0]["fs"], sort_keys=True))
            last = g[0][-1]["ev"]
            if g[0][0]["var"].get("env", "stable") != "stable":
                # environment faults (6 variants x 4 initial directories x fault kind x fault point, no injected exception): all
                # quick: every fault kind x fault point for the existing / symbolic-link outputs without backups, for the fresh and the
                # existing+backup directories only the fault right before the stage that needs the resource; the behaviours without
                # any fault are those of the stable variants
                for h in g:
                    f = [e["ev"] for e in h if e["ev"]["kind"] == "fault"]
                    if f and ((h[0]["fs"]["out"] != "absent" and h[0]["fs"]["b1"] == "absent") or f[0]["stage"] in ("open", "flush", "popen")):
                        sel.append(h)
                continue
            if g[0][0]["var"]["dev"] == "cross":
                # temp directory on another file system (3 initial directories): all 3 for success and the flush points, 1 from
                # open to close, none for the earlier work stages (nothing device-dependent has happened yet)
                if last["kind"] == "finish" or last["stage"] == "flush":
                    sel += g
                elif last["stage"] in ("open", "write", "close", "popen", "pwrite"):
                    sel += rng.sample(g, 1)
                continue
            if g[0][0]["var"]["inout"] != "no":
                # the output path holds an input of the run (3 ways of naming it x 3 initial directories = 9 per crash point):
                # all 9 for success and the end of the flush, 3 (one per way) around serialisation / flush, 1 for work stages
                if last["kind"] == "finish" or (last["stage"], last["when"]) == ("flush", "after"):
                    sel += g
                elif last["stage"] in ("open", "write", "flush"):
                    for k in ("same", "link", "dots"):
                        sel += rng.sample([h for h in g if h[0]["var"]["inout"] == k], 1)
                else:
                    sel += rng.sample(g, 1)
                continue
            if g[0][0]["var"]["route"] != "plain":
                # other spellings of the output path (3 routes x fresh / existing / existing + backup = 9 per crash point):
                # all 9 where the result is committed, 1 of them elsewhere
                if last["kind"] == "finish" or (last["stage"], last["when"]) in (("flush", "mid"), ("flush", "after"), ("pwrite", "mid")):
                    sel += g
                else:
                    sel += rng.sample(g, 1)
                continue
            links = [h for h in g if h[0]["fs"]["out"] == "link"]
            if last["kind"] == "finish" or (last["stage"], last["when"]) in (("flush", "mid"), ("flush", "after"), ("pwrite", "mid")):
                sel += g                                   # where the backup rule acts: all 20 initial directories
            elif last["stage"] in ("popen", "pwrite", "write", "open", "flush"):
                sel += rng.sample([h for h in g if h not in links], 2) + rng.sample(links, 1)
            else:
                sel += rng.sample([h for h in g if h not in links], 1) + rng.sample(links, 1)
        hists = sel
    if not ro:
        hists = [h for h in hists if not any(e["ev"]["kind"] == "fault" and e["ev"]["when"].endswith("_ro") for e in h)]
    ck.stage("S->I: %d behaviours on the real programs" % len(hists))
    mid = [h for h in hists if h[-1]["ev"] == {"kind": "crash", "stage": "flush", "when": "mid"} and h[0]["fs"]["out"] == "old" and h[0]["fs"]["b1"] != "absent"]
    lk = [h for h in hists if h[-1]["ev"]["kind"] == "finish" and h[0]["fs"]["out"] == "link" and h[0]["fs"]["b1"] != "absent" and h[0]["var"]["prog"] == "gen_coords"]
    if lk:
        ck.sample({"S->I behaviour (output path is a symbolic link, #.1# and #.3# exist)" if lk[0][0]["fs"]["b3"] != "absent" else "S->I behaviour (output path is a symbolic link)":
                   {k: v for k, v in lk[0][0]["fs"].items() if v != "absent"},
                   "expected final directory": {k: v for k, v in lk[0][-1]["fs"].items() if v != "absent"}})
    if mid:
        ck.sample({"S->I behaviour": "%s, initial %s" % (mid[0][0]["var"], {k: v for k, v in mid[0][0]["fs"].items() if v != "absent"}),
                   "events": [_label(e["ev"]) for e in mid[0]],
                   "expected final directory": {k: v for k, v in mid[0][-1]["fs"].items() if v != "absent"}, "loose temp files": mid[0][-1]["loose"]})
    results = replay_export(ck, hists, "s2i", wd, sd)
    judge_main(ck, results)
    ck.extra["s2i_timeouts"] = sum(1 for x in results if x[3])
    byprog = {}
    for cs, h, r, skip in results:
        byprog[cs["runs"][0]["prog"]] = byprog.get(cs["runs"][0]["prog"], 0) + 1
    ck.extra["s2i_cases_by_program"] = byprog

    # ---- I -> S
    ntr = 150 if tier == "quick" else 1200
    ck.stage("I->S: %d seeded real runs, trace validation" % ntr)
    refs_cache = {}
    doc, stats = trace_direction(ck, wd, ntr, sd, refs_cache, nslow=0 if tier == "quick" else 16)
    ck.extra["trace_runs"] = stats
    if stats["success"] == 0 or stats["injected"] == 0 or stats["self_failed"] == 0:
        raise c.MachineryError("trace direction is missing a class of runs: %s" % stats)
    tr = [t for t in doc["traces"] if t["events"][-1]["ev"]["kind"] == "finish" and t["events"][0]["fs"]["out"] == "old"
          and t["events"][0]["var"]["prog"] != "gen_seq"]
    if tr:
        ck.sample({"I->S trace": [_label(e["ev"]) for e in tr[0]["events"]], "program": tr[0]["events"][0]["var"],
                   "initial directory": {k: v for k, v in tr[0]["events"][0]["fs"].items() if v != "absent"},
                   "final directory": {k: v for k, v in tr[0]["events"][-1]["fs"].items() if v != "absent"}})
    ck.extra["binding_demo"] = binding_demo(ck, doc)

    # ---- history extension
    ck.stage("history extension (two runs in one process)")
    tally, example, odd = history(ck, wd, xpers.cases(), xfresh.cases(), sd, 40 if tier == "quick" else 0)
    ck.extra["history_extension"] = {"model_refutes_HistoryClean_with_persistent_queue": model_leak, "replayed": tally, "example": example,
                                     "unexplained": odd[:3]}
    if tally["leaks"]:
        ck.note("N3 (outside the statement: two calls in ONE process): the deferred writer is a process-wide singleton; after a run that failed "
                "inside serialisation its temp file stays queued and the next successful run's flush moves it to the first run's output path "
                "(%d of %d replayed two-run histories end with a directory a fresh process would not produce, all exactly as the persistent-queue "
                "instance of Output predicts; TLC refutes HistoryClean for that instance: %s). Same target in both runs, or a fresh process: no effect."
                % (tally["leaks"], sum(tally[k] for k in tally if k not in ("leaks", "timeouts")), model_leak))
    if odd:
        ck.note("history extension: %d two-run histories matched neither the persistent-queue nor the fresh-process instance (first: %s)" % (
            len(odd), json.dumps(odd[0])[:600]))
    ck.exhaustive = tier == "thorough"
    return ck.finish()


class _ReplayCk:
    """stands in for common.Check while one stored case is re-executed: nothing is written to evidence/ (the stored replay
    files of the last run stay in place), differences are printed"""

    def __init__(self):
        self.violations = self.replayed = self.evaluations = self.traces = 0
        self.nontrivial, self.extra = set(), {}

    def violation(self, case, sig=None, what=""):
        self.violations += 1
        print("replay: " + what[:1500])

    def add_tlc(self, res):
        return res


def replay(path):
    doc = json.loads(open(path).read())
    case = doc["case"]
    ck = _ReplayCk()
    u.ro_method(c.WORK / PROP)
    wd = c.workdir(PROP, "replay")
    if case["kind"] == "S->I":
        cs = case["case"]
        need = sorted({(r["input"], k) for k, r in enumerate(cs["runs"], 1)})
        refs = references(ck, wd, need, cs.get("seed", 0))
        (st, r), = execute([cs], wd / "case", refs)
        if st != "ok":
            print("replay: runner returned", st, r)
            return 2
        judge_main(ck, [(cs, case["expected"], r, None)])
        for e in r["events"]:
            print("%-22s dir=%s queue=%s loose=%s" % (_label(e["ev"]), {k: v for k, v in e["fs"].items() if v != "absent"}, e["queue"], e["loose"]))
        print("replayed: %s" % ("still differs from the specification" if ck.violations else "matches the specification now"))
    elif case["kind"] == "I->S":
        cs = case["case"]
        refs = references(ck, wd, [(cs["runs"][0]["input"], 1)], cs.get("seed", 0))
        (st, r), = execute([cs], wd / "case", refs)
        if st != "ok":
            print("replay: runner returned", st, r)
            return 2
        if r["info"]["unplanned"] and cs["runs"][0]["input"] in GOOD + SLOW and not cs.get("no_parent"):
            print("replayed: the program still raises by itself:", r["info"]["unplanned"][0]["exc"])
            return 1
        rej, _ = validate_traces(ck, {"nbk": cs["nbk"], "runs": 1, "traces": [{"events": r["events"]}]}, "replay_trace")
        if rej:
            ck.violations += 1
        print("replayed: %s" % ("still rejected by Output_Trace" if ck.violations else "accepted now"))
    else:
        print("replay of kind %s: re-run the check" % case["kind"])
        return 1
    return 1 if ck.violations else 0
