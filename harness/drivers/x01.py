"""X01 - the three programs compose: gen_seq | gen_params | gen_coords chained through real files (extension beyond the listed
properties; spec/Polyply.tla).

P-layer (over the user's input only): E1 the residue graph gen_coords reconstructs from the .itp is the user's graph (ids, names,
edges) when no link is missing, in general it has exactly the realised edges; E2 the .gro lists natoms x count atoms in residue
order with the sequence's residue names, all finite; E3 stages complete in order without gaps, nothing of a later stage exists
earlier, an output is complete only if every stage completed, a program without a complete input writes nothing; GateLaw; E4 the
chained run equals the run from the equivalent -seq; FinalLaw the files are the declarative composition PFiles(case).
I-layer: Begin / StageOk / StageFail(injected | natural) / End per program, memory objects, files.
S->I : every behaviour PolyplyExport prints (case x undisturbed | one injected stage failure) is executed on the REAL programs
       (in-process calls as /repo/bin/polyply makes them, fresh forked process and scratch directory per chain, files on disk);
       the event sequence and, at every program boundary, the projected memory objects and files must equal the specification's.
I->S : seeded random pipelines beyond the bound (5-10 residues, random copolymers, branched / ring / disconnected json graphs,
       library force fields, random injected failures); one event per stage with a full projection; PolyplyTrace validates the
       batches (every P-layer law is an invariant of the trace specification).
"""
import json
import random
from pathlib import Path

from .. import common as c
from .. import x01_util as u

PROP = "X01"
TIMEOUT = 150

DEVS = [("Pp_dev_itpbeforelinks.cfg", "E1", "gen_params serialises the molecule before the links are applied"),
        ("Pp_dev_groblockorder.cfg", "E2", "the .gro lists the atoms of a molecule grouped by block instead of in residue order"),
        ("Pp_dev_gateskipped.cfg", "GateLaw", "gen_coords without the connectivity gate writes coordinates for a disconnected molecule"),
        ("Pp_dev_jsonidshift.cfg", "E4", "the json reader takes the node id (from 0) as residue id: chained run differs from the -seq run"),
        ("Pp_dev_continue.cfg", "E3", "a failed stage is skipped and the program goes on")]
LAWS = "TypeOK/E1/E1Gen/E2/E3/GateLaw/FinalLaw/MissingLaw/E4"


# ------------------------------------------------------------------ running

def _job(arg):
    return u.run_chain(arg)


def execute(jobs):
    return u.fork_map(_job, jobs, timeout=TIMEOUT)


def case_label(case):
    ms = " ".join("%s:%d%s" % (m["res"], m["lv"], "" if m["bf"] == 1 else "/bf%d" % m["bf"]) for m in case["macros"])
    cn = ",".join("%d:%d:%d-%d" % tuple(x) for x in case["connects"])
    return "%s [%s]%s%s ff=%s%s x%d" % (case["mode"], ms, (" connects " + cn) if cn else "", " tag %d" % case["tag"] if case["tag"] else "",
                                        case.get("fflib") or ("blocks %s links %s" % ("".join(sorted(case["ff"]["blocks"])), "+".join(sorted(case["ff"]["links"])) or "none")),
                                        "", case["count"])


def _diff_obj(a, b, path=""):
    if isinstance(a, dict) and isinstance(b, dict):
        for k in sorted(set(a) | set(b)):
            if a.get(k) != b.get(k):
                return _diff_obj(a.get(k), b.get(k), path + "." + str(k))
    return "%s: specification %s, program %s" % (path.lstrip("."), json.dumps(a)[:260], json.dumps(b)[:260])


def compare(exp, res):
    """first difference between an exported behaviour and the recorded one, or None"""
    ee, ge = exp["evs"], res["events"]
    for k in range(max(len(ee), len(ge))):
        if k >= len(ge):
            return "the chain stopped after %d events; the specification continues with %s" % (len(ge), json.dumps(ee[k]["ev"]))
        if k >= len(ee):
            return "the specification's behaviour ends after %d events; the programs went on with %s" % (len(ee), json.dumps(ge[k]["ev"]))
        a, b = ee[k], ge[k]
        if a["ev"] != b["ev"] or a["prog"] != b["prog"]:
            extra = ""
            if res["unplanned"]:
                extra = " (%s raised %s)" % (res["unplanned"][0]["prog"], res["unplanned"][0]["exc"])
            return "event %d: specification %s %s, programs %s %s%s" % (k + 1, a["prog"], json.dumps(a["ev"]), b["prog"], json.dumps(b["ev"]), extra)
        if a["ev"]["kind"] == "end":
            if "error" in b["mem"] or not b["mem"].get("uniform", True):
                return "after %s (program %d): %s" % (a["prog"], a["ev"]["p"], b["mem"].get("error", "the molecule copies of the topology differ"))
            ma, mb = u.norm_mem(a["mem"]), u.norm_mem(b["mem"])
            if ma != mb:
                return "objects in memory at the end of %s (program %d) differ: %s" % (a["prog"], a["ev"]["p"], _diff_obj(ma, mb))
            if a["files"] != b["files"]:
                return "files after %s (program %d) differ: %s" % (a["prog"], a["ev"]["p"], _diff_obj(a["files"], b["files"]))
    if exp["nfail"] == 0 and ge and ge[-1]["files"] != exp["expect"]:
        return "final files differ from the declarative composition: %s" % _diff_obj(exp["expect"], ge[-1]["files"])
    if exp["case"]["mode"] == "both" and exp["nfail"] == 0:
        ra, rb = res["raw"].get("itp"), res["raw"].get("itp2")
        if ra != rb:
            return "E4: the .itp of the chained run and of the -seq run differ in their text (first lines %s / %s)" % (
                next((x for x, y in zip(ra or [], rb or []) if x != y), (ra or ["-"])[:1]), next((y for x, y in zip(ra or [], rb or []) if x != y), (rb or ["-"])[:1]))
    return None


def known_isolated(exp, res):
    """exact classifier of the recorded finding `isolated-residue-keyerror`: the user's residue graph has a residue without
    neighbours next to other residues, the specification lets gen_params' map stage complete, and the real gen_params raised a
    KeyError inside MapToMolecule.add_blocks in that very stage (every event before it matched)"""
    ee, ge = exp["evs"], res["events"]
    k = next((i for i in range(min(len(ee), len(ge))) if ee[i]["ev"] != ge[i]["ev"]), None)
    if k is None:
        return False
    a, b = ee[k], ge[k]
    if not (a["prog"] == b["prog"] == "gen_params" and a["ev"]["stage"] == b["ev"]["stage"] == "map" and a["ev"]["ok"] and not b["ev"]["ok"]
            and not b["ev"]["inj"]):
        return False
    chain = u.chain_of(exp["case"])
    g = exp["expect"]["json"]["g"] if chain[a["ev"]["p"] - 1]["ug"] == "seq" else None
    if not g or g["n"] < 2 or all(any(i in e for e in g["edges"]) for i in g["ids"]):
        return False
    un = [x for x in res["unplanned"] if x["p"] == a["ev"]["p"]]
    return bool(un) and un[0]["exc"].startswith("KeyError") and "add_blocks" in un[0]["where"]


def plan_of(exp):
    for e in exp["evs"]:
        if e["ev"]["kind"] == "stage" and e["ev"]["inj"]:
            return {"p": e["ev"]["p"], "stage": e["ev"]["stage"]}
    return None


def behaviour_key(exp):
    return json.dumps([exp["case"], plan_of(exp)], sort_keys=True)


# ------------------------------------------------------------------ S -> I

def replay_export(ck, exps, wd, sd):
    jobs = [{"case": x["case"], "wd": str(wd / ("c%05d" % i)), "plan": plan_of(x), "seed": sd, "light": True} for i, x in enumerate(exps)]
    res = execute(jobs)
    stats = {"timeouts": 0, "gro_written": 0, "natural_failures": 0, "injected": 0, "both_equal": 0}
    for x, job, (st, r) in zip(exps, jobs, res):
        if st == "timeout":
            stats["timeouts"] += 1
            continue
        if st != "ok":
            raise c.MachineryError("X01 chain runner failed on %s: %s" % (case_label(x["case"]), r))
        ck.replayed += 1
        ck.evaluations += len(r["events"])
        ck.nontrivial.add(behaviour_key(x))
        for e in x["evs"]:
            if e["ev"]["kind"] == "stage":
                k = "%s:%s:%s" % (e["prog"], e["ev"]["stage"], "ok" if e["ev"]["ok"] else ("injected" if e["ev"]["inj"] else "natural"))
                ck.actions[k] = ck.actions.get(k, 0) + 1
        if x["expect"]["gro"]["st"] == "full" and x["nfail"] == 0:
            stats["gro_written"] += 1
        if any(e["ev"]["kind"] == "stage" and not e["ev"]["ok"] and not e["ev"]["inj"] for e in x["evs"]):
            stats["natural_failures"] += 1
        if x["nfail"]:
            stats["injected"] += 1
        if x["case"]["mode"] == "both" and x["nfail"] == 0 and x["expect"]["gro2"]["st"] == "full":
            stats["both_equal"] += 1
        d = compare(x, r)
        if d and known_isolated(x, r):
            ck.violation({"kind": "S->I", "exp": x, "observed": r, "seed": sd}, sig="isolated-residue-keyerror",
                         what="%s: %s" % (case_label(x["case"]), d))
        elif d:
            ck.violation({"kind": "S->I", "exp": x, "observed": r, "seed": sd},
                         what="%s%s: %s" % (case_label(x["case"]), (", injected failure at program %(p)d stage %(stage)s" % job["plan"]) if job["plan"] else "", d))
    return stats


# ------------------------------------------------------------------ I -> S

LIBAB = {"A": ["BB"], "B": ["BB", "SC"]}
LIB3 = {"A": ["BB"], "B": ["BB", "SC"], "C": ["BB", "S1", "S2"]}


def _ff(rng, names):
    r = rng.random()
    links = ["gt"] if r < 0.45 else ["plus"] if r < 0.8 else ["gt", "plus"] if r < 0.93 else []
    blocks = sorted(names)
    return {"blocks": blocks, "links": links}


def random_case(rng, k):
    """beyond the exhaustive bound: 5-10 residues, three block names, trees of 2-3 levels, rings, pieces, missing blocks"""
    lib = dict(LIB3)
    names = sorted(lib)
    kind = rng.choice(["chain2", "both", "both", "chain3", "chain3", "chain3"])
    count = rng.choice([1, 1, 2, 3])
    tag = 0
    if kind in ("chain2", "both"):
        ms, total = [], 0
        target = rng.randint(5, 10)
        while total < target:
            lv = min(rng.randint(1, 4), target - total)
            ms.append({"res": rng.choice(names), "lv": lv, "bf": 1})
            total += lv
        cn = [[i, i + 1, ms[i]["lv"] - 1, 0] for i in range(len(ms) - 1)] if kind == "both" else []
        if kind == "both" and rng.random() < 0.5:
            tag = rng.randint(1, len(ms))
    else:
        ms, sizes = [], []
        while sum(sizes) < 5:
            if rng.random() < 0.5:
                bf, lv = rng.choice([(2, 2), (2, 3), (3, 2)])
            else:
                bf, lv = 1, rng.randint(1, 4)
            size = sum(bf ** i for i in range(lv)) if bf > 1 else lv
            if sum(sizes) + size > 10:
                continue
            ms.append({"res": rng.choice(names), "lv": lv, "bf": bf})
            sizes.append(size)
        cn = []
        shape = rng.random()
        for i in range(1, len(ms)):
            if shape < 0.12 and i == len(ms) - 1 and len(ms) > 1 and all(s >= 2 for s in sizes):
                break      # leave the last piece unconnected (pieces of >= 2 residues only, see the domain note)
            j = rng.randrange(0, i)
            a, b = rng.randrange(sizes[j]), rng.randrange(sizes[i])
            cn.append([j, i, a, b] if rng.random() < 0.7 else [i, j, b, a])
        if rng.random() < 0.2:      # close a ring
            i = rng.randrange(len(ms))
            if sizes[i] >= 3 and ms[i]["bf"] == 1:
                cn.append([i, i, 0, sizes[i] - 1])
        if rng.random() < 0.5:
            tag = rng.randint(1, len(ms))
    ff = _ff(rng, names)
    if rng.random() < 0.08:
        used = sorted({m["res"] for m in ms})
        ff["blocks"] = [b for b in ff["blocks"] if b != rng.choice(used)]
    return {"mode": kind, "macros": ms, "connects": cn, "tag": tag, "ff": ff, "count": count, "lib": lib, "on": [], "probe": True,
            "box": 10.0}


# (library, polymer names, sigma of the bead types in the rendered .top, molecules); chain lengths are drawn from the seed
LIBRARY = [("martini3", ["PEO"], 0.47, 1), ("martini3", ["PMMA"], 0.4, 2), ("martini3", ["PS"], 0.4, 1), ("martini3", ["PS", "PEO"], 0.4, 2),
           ("martini3", ["PVA"], 0.4, 1), ("martini3", ["P3HT"], 0.4, 1), ("martini3", ["PDMS"], 0.4, 2), ("martini3", ["DEX"], 0.4, 1),
           ("martini2", ["PEO"], 0.47, 2), ("martini2", ["PS"], 0.45, 1), ("martini2", ["PP"], 0.45, 3)]
LIBRARY_SLOW = [("oplsaaLigParGen", ["PEO"], 0.3, 1), ("gromos53A6", ["P3HT"], 0.3, 1)]


def library_specs(rng, full):
    out = []
    for lib, names, sigma, count in LIBRARY:
        out.append((lib, [(n, rng.randint(3, 6) if len(names) > 1 else rng.randint(5, 10)) for n in names], sigma, count))
    if full:
        out += [(lib, [(n, 3) for n in names], sigma, count) for lib, names, sigma, count in LIBRARY_SLOW]
    return out


def _library_header(spec):
    """abstract force field of a library: projection of the real force field onto the blocks of the sequence (forked child)"""
    import logging
    logging.disable(logging.CRITICAL)
    from polyply.src.load_library import load_ff_library
    lib, seq, sigma, count = spec
    ff = load_ff_library("x", [lib], [])
    names = [n for n, _ in seq]
    atoms = {}
    for n in names:
        if n not in ff.blocks:
            return None
        b = ff.blocks[n]
        atoms[n] = [str(b.nodes[k]["atomname"]) for k in b.nodes]
    proj = u.proj_ff(ff, atoms)
    # the abstraction has no per-name links: only sequences all of whose consecutive name pairs have a bond link are inside it
    _, pairs = u.proj_ff_pairs(ff, atoms)
    flat = [n for n, k in seq for _ in range(k)]
    if any((x, y) not in pairs for x, y in zip(flat, flat[1:])):
        return None
    return {"mode": "chain2", "macros": [{"res": n, "lv": k, "bf": 1} for n, k in seq], "connects": [], "tag": 0, "ff": proj, "count": count,
            "lib": atoms, "on": [], "probe": True, "fflib": lib, "sigma": sigma, "box": 12.0}


def library_cases(specs):
    out = []
    for spec, (st, r) in zip(specs, u.fork_map(_library_header, specs, timeout=60)):
        if st != "ok":
            raise c.MachineryError("cannot load library force field %s: %s" % (spec[0], r))
        if r is None or any(k.startswith("other") for k in r["ff"]["links"]):
            continue    # link kinds outside the abstraction: not used
        out.append(r)
    return out


def random_plan(rng, case):
    ch = u.chain_of(case)
    p = rng.randrange(len(ch)) + 1
    stages = [s for s in u.BASE[ch[p - 1]["prog"]] if s not in ("dsdna", "split", "coords", "grid", "macro_file")]
    return {"p": p, "stage": rng.choice(stages)}


CHUNK = 30


def validate(ck, traces, name, expect_reject=False):
    """batches of CHUNK traces, one TLC run each (concurrently); returns {trace number (1-based): matched events} of the rejected"""
    wd = c.workdir(PROP, name)
    parts = [traces[i:i + CHUNK] for i in range(0, len(traces), CHUNK)] or [[]]
    jobs = []
    for k, part in enumerate(parts):
        f = wd / ("traces_%d.json" % k)
        f.write_text(json.dumps(part))
        jobs.append(("PolyplyTrace", "Pp_trace.cfg", {"workers": 1, "env": {"TRACE_FILE": str(f)}, "check": False, "timeout": 3000}))
    rejected, last = {}, None
    group = max(2, c.NPROC // 2)        # at most this many JVMs at a time
    results = []
    for i in range(0, len(jobs), group):
        results += c.tlc_many(jobs[i:i + group], workers_each=1)
    for k, res in enumerate(results):
        last = res
        rej = res.tagged("REJECTED")
        if res.rc != 0 and not rej and not res.inv_violated:
            raise c.MachineryError("PolyplyTrace failed: %s" % res.out[-3000:])
        for r in rej:
            rejected.update({int(t) + k * CHUNK: int(m) for t, m in r})
        if expect_reject:
            continue
        ck.add_tlc(res)
        if res.inv_violated:
            ck.violation({"kind": "I->S invariant", "invariant": res.inv_violated, "counterexample": c.counterexample(res)[:5000]},
                         what="a P-layer law of Polyply (%s) is violated on a state a recorded real chain went through" % res.inv_violated)
            # the batch stopped at the violation: its traces give no further verdict
            for t in range(len(parts[k])):
                rejected.setdefault(t + 1 + k * CHUNK, -1)
    if not expect_reject:
        ck.traces += len(traces) - len(rejected)
    return rejected, last


def trace_direction(ck, wd, cases, sd, label):
    rng = random.Random(sd * 31 + 5)
    jobs = []
    for i, case in enumerate(cases):
        plan = random_plan(rng, case) if rng.random() < 0.3 else None
        jobs.append({"case": case, "wd": str(wd / ("%s%04d" % (label, i))), "plan": plan, "seed": sd * 100 + i, "light": False})
    res = execute(jobs)
    traces, kept = [], []
    stats = {"runs": 0, "timeouts": 0, "gro_written": 0, "natural_failures": 0, "injected": 0, "missing_links": 0, "max_residues": 0}
    for job, (st, r) in zip(jobs, res):
        if st == "timeout":
            stats["timeouts"] += 1
            continue
        if st != "ok":
            raise c.MachineryError("X01 chain runner failed on %s: %s" % (case_label(job["case"]), r))
        stats["runs"] += 1
        ck.evaluations += len(r["events"])
        evs = r["events"]
        bad = next((e for e in evs if not u.wellformed(e)), None)
        if bad is not None:
            ck.violation({"kind": "I->S", "job": job, "observed": evs[-3:], "unplanned": r["unplanned"]},
                         what="%s: the objects after %s %s cannot be projected (%s)" % (case_label(job["case"]), bad["prog"], bad["ev"]["stage"],
                                                                                        bad.get("mem", {}).get("error", "ill-typed value")))
            continue
        last = evs[-1]
        stats["gro_written"] += sum(1 for k in ("gro", "gro2") if last["files"][k]["st"] == "full")
        stats["natural_failures"] += sum(1 for e in evs if e["ev"]["kind"] == "stage" and not e["ev"]["ok"] and not e["ev"]["inj"])
        stats["injected"] += sum(1 for e in evs if e["ev"]["inj"])
        stats["missing_links"] += sum(1 for e in evs if e["ev"]["kind"] == "end" and e["mem"]["miss"])
        stats["max_residues"] = max([stats["max_residues"]] + [e["mem"]["g"]["n"] for e in evs])
        for e in evs:
            if e["ev"]["kind"] == "stage":
                k = "trace:%s:%s:%s" % (e["prog"], e["ev"]["stage"], "ok" if e["ev"]["ok"] else ("injected" if e["ev"]["inj"] else "natural"))
                ck.actions[k] = ck.actions.get(k, 0) + 1
        traces.append({"case": job["case"], "evs": evs})
        kept.append((job, r))
        ck.nontrivial.add("trace " + json.dumps([job["case"], job["plan"]], sort_keys=True))
    rejected, _ = validate(ck, traces, "trace_%s_%d" % (label, sd))
    for tid, matched in sorted(rejected.items()):
        if matched < 0:
            continue
        job, r = kept[tid - 1]
        evs = r["events"]
        nxt = evs[matched] if matched < len(evs) else None
        why = ""
        if r["unplanned"]:
            why = "; %s raised %s" % (r["unplanned"][0]["prog"], r["unplanned"][0]["exc"])
        ck.violation({"kind": "I->S", "job": job, "matched_events": matched, "next": nxt, "unplanned": r["unplanned"]},
                     what="%s%s: recorded chain rejected by Polyply after %d matched events; next event %s %s mem %s files %s%s" % (
                         case_label(job["case"]), (", injected failure at program %(p)d stage %(stage)s" % job["plan"]) if job["plan"] else "",
                         matched, nxt["prog"] if nxt else "-", json.dumps(nxt["ev"]) if nxt else "-",
                         json.dumps(nxt["mem"])[:500] if nxt else "-",
                         json.dumps({k: v for k, v in nxt["files"].items() if v["st"] != "absent"})[:600] if nxt else "-", why))
    accepted = [t for i, t in enumerate(traces) if (i + 1) not in rejected]
    return accepted, stats


def binding_demo(ck, accepted):
    """corrupted records must be rejected"""
    good = [t for t in accepted if t["evs"][-1]["files"]["gro"]["st"] == "full" and len(t["evs"][-1]["files"]["gro"]["atoms"]) >= 4
            and not any(e["ev"]["inj"] for e in t["evs"])]
    if not good:
        if ck.violations:
            return "skipped: violations were reported and no accepted trace of a complete chain is left"
        raise c.MachineryError("binding demonstration: no accepted trace of a complete chain")
    base = good[0]
    demos = []
    t1 = json.loads(json.dumps(base))       # a residue name changed in the final .gro listing
    t1["evs"][-1]["files"]["gro"]["atoms"][1][1] = "ZZ"
    demos.append(t1)
    t2 = json.loads(json.dumps(base))       # one stage event removed (the connectivity gate)
    k = next(i for i, e in enumerate(t2["evs"]) if e["ev"]["stage"] == "check")
    del t2["evs"][k]
    demos.append(t2)
    t3 = json.loads(json.dumps(base))       # residue ids seen by gen_coords shifted by one
    k = next(i for i, e in enumerate(t3["evs"]) if e["prog"] == "gen_coords" and e["ev"]["stage"] == "read_top")
    t3["evs"][k]["mem"]["g"]["ids"] = [x - 1 for x in t3["evs"][k]["mem"]["g"]["ids"]]
    demos.append(t3)
    t4 = json.loads(json.dumps(base))       # a bond between residues dropped from the .itp
    k = next(i for i, e in enumerate(t4["evs"]) if e["prog"] == "gen_params" and e["ev"]["stage"] == "flush")
    if t4["evs"][k]["files"]["itp"]["mol"]["bonds"]:
        t4["evs"][k]["files"]["itp"]["mol"]["bonds"].pop()
        demos.append(t4)
    rej, res = validate(ck, demos + [base], "binding", expect_reject=True)
    n = len(demos)
    if not set(range(1, n + 1)) <= set(rej) or (n + 1) in rej:
        raise c.MachineryError("binding demonstration failed: corrupted traces rejected %s, expected exactly 1..%d\n%s" % (sorted(rej), n, res.out[-1500:]))
    return "%d corrupted traces (residue name in the .gro; gate event removed; residue ids after re-reading the .itp; bond dropped from the .itp) rejected after %s matched events, the uncorrupted original accepted" % (n, [rej[i] for i in range(1, n + 1)])


# ------------------------------------------------------------------ entry points

def run(tier):
    ck = c.Check(PROP, tier)
    sd = c.seed()
    ck.rule = ("S->I: every behaviour of Polyply on the exhaustive instance (sequences of <= 4 residues over blocks A (1 bead) and B (2 beads); force fields "
               "with a `+` link, a `>` link, both, none, or without block B; -seq chains, gen_seq chains with their -seq twins, 10 json shapes no -seq can "
               "express (trees, star, ring, non-consecutive and backward connects, two pieces); 1-2 molecules; undisturbed or one injected stage failure in "
               "the probe cases) is run on the real programs; distinct = (case, injected failure). I->S: seeded random chains of 5-10 residues over three "
               "blocks, trees of 2-3 levels, rings, pieces, missing blocks, 1-3 molecules, library force fields, random injected failures")
    ck.assumptions = ["abstraction: a force field is (block names, kinds of two-residue bond links); `+` realises an edge between consecutive residue ids, `>` between any; "
                      "the synthetic force field is rendered accordingly, for library force fields the abstract force field is the projection of the real one",
                      "one forked process per chain, every program call followed by clearing the deferred writer's queue = one command-line invocation each",
                      "an injected failure is an exception raised on entry of the stage function (crash points inside / after stages are C20's subject)",
                      "domain: residue graphs without an isolated residue next to other residues (gen_params dies with a KeyError there, see notes/design_updates/X01.md)",
                      "coordinates are abstracted to 'finite'; geometry is the subject of C05/C06"]
    wd = c.workdir(PROP, "runs")
    full = tier == "thorough"
    ck.stage("TLC: model, 5 deviation runs, export (concurrently)")
    jobs = [("MC_Polyply", "Pp_full.cfg" if full else "Pp_small.cfg", {"workers": max(2, c.NPROC // 2)}),
            ("PolyplyExport", "Pp_export_full.cfg" if full else "Pp_export.cfg", {"workers": 1})]
    jobs += [("MC_Polyply", cfg, {"workers": 1, "check": False}) for cfg, _, _ in DEVS]
    if full:
        jobs.append(("MC_Polyply", "Pp_fail2.cfg", {"workers": max(2, c.NPROC // 2)}))
    res = c.tlc_many(jobs)
    ck.model_must_hold(res[0], LAWS)
    ck.model_must_hold(res[1], "export")
    for (cfg, inv, what), r in zip(DEVS, res[2:2 + len(DEVS)]):
        ck.model_must_refute(r, inv, what)
    if full:
        ck.model_must_hold(res[-1], LAWS + " with two injected failures per behaviour")
    exps = res[1].cases()
    if len(exps) < 300:
        raise c.MachineryError("PolyplyExport produced only %d behaviours" % len(exps))
    ck.extra["behaviours_exported"] = len(exps)

    ck.stage("S->I: %d behaviours on the real programs" % len(exps))
    ex = next((x for x in exps if x["case"]["mode"] == "chain3" and x["nfail"] == 0 and x["expect"]["gro"]["st"] == "full"
               and x["case"]["macros"][0]["bf"] == 2 and len(x["case"]["macros"]) == 2), exps[0])
    ck.sample({"S->I case": case_label(ex["case"]), "json": ex["expect"]["json"]["g"], "itp": ex["expect"]["itp"]["mol"],
               "gro": ex["expect"]["gro"]["atoms"]})
    stats = replay_export(ck, exps, wd, sd)
    ck.extra["s2i"] = stats
    ck.require(stats["timeouts"] <= 0.02 * len(exps) + 2, "%d of %d chains timed out" % (stats["timeouts"], len(exps)))
    for k in ("gro_written", "natural_failures", "injected", "both_equal"):
        ck.require(stats[k] > 0, "S->I: no behaviour of class %s (vacuous)" % k)
    for must in ("gen_coords:check:natural", "gen_params:map:natural", "gen_params:graph:natural", "gen_coords:read_top:natural",
                 "gen_seq:pwrite:injected", "gen_params:links:injected", "gen_coords:backmap:injected"):
        ck.require(ck.actions.get(must), "S->I: no behaviour with %s (vacuous)" % must)

    ck.stage("I->S: seeded random chains, trace validation")
    nrand = 90 if not full else 600
    rng = random.Random(sd * 7919 + 17)
    cases = [random_case(rng, k) for k in range(nrand)]
    accepted, tstats = trace_direction(ck, wd, cases, sd, "r")
    libs = library_cases(library_specs(random.Random(sd * 131 + 3), full))
    ck.require(len(libs) >= 4, "fewer than 4 library force fields usable (%d)" % len(libs))
    acc2, lstats = trace_direction(ck, wd, libs, sd + 1, "l")
    ck.extra["traces_random"] = tstats
    ck.extra["traces_library"] = dict(lstats, force_fields=sorted({x["fflib"] + ":" + "+".join(m["res"] for m in x["macros"]) for x in libs}))
    for k in ("gro_written", "natural_failures", "injected", "missing_links"):
        ck.require(tstats[k] > 0, "I->S: no random chain of class %s (vacuous)" % k)
    ck.require(lstats["gro_written"] >= 3, "I->S: fewer than 3 library chains wrote coordinates")
    if accepted:
        t = next((t for t in accepted if t["evs"][-1]["files"]["gro"]["st"] == "full"), accepted[0])
        ck.sample({"I->S trace": case_label(t["case"]), "events": ["%s:%s%s" % (e["prog"], e["ev"]["stage"] if e["ev"]["kind"] == "stage" else e["ev"]["kind"],
                                                                                "" if e["ev"]["ok"] else "!") for e in t["evs"]][:60],
                   "gro": t["evs"][-1]["files"]["gro"]["atoms"][:12]})
    ck.stage("binding demonstration")
    ck.extra["binding_demo"] = binding_demo(ck, accepted + acc2)
    ck.exhaustive = full
    return ck.finish()


def replay(path):
    doc = json.loads(open(path).read())
    case = doc["case"]
    wd = c.workdir(PROP, "replay")
    if case["kind"] == "S->I":
        x = case["exp"]
        (st, r), = execute([{"case": x["case"], "wd": str(wd / "case"), "plan": plan_of(x), "seed": case.get("seed", 0), "light": True, "keep": True}])
        if st != "ok":
            print("replay: runner returned", st, r)
            return 2
        d = compare(x, r)
        for e in r["events"]:
            print("%-10s %s" % (e["prog"], json.dumps(e["ev"])))
        print("replayed: %s" % (("still differs: " + d) if d else "matches the specification now"))
        return 1 if d else 0
    if case["kind"] == "I->S":
        job = dict(case["job"], wd=str(wd / "case"), keep=True)
        (st, r), = execute([job])
        if st != "ok":
            print("replay: runner returned", st, r)
            return 2
        if any(not u.wellformed(e) for e in r["events"]):
            print("replayed: the objects still cannot be projected")
            return 1

        class _Ck:
            traces = 0

            def add_tlc(self, res):
                return res

            def violation(self, *a, **k):
                print("replay:", k.get("what", ""))
        rej, res = validate(_Ck(), [{"case": job["case"], "evs": r["events"]}], "replay_trace")
        bad = bool(rej) or bool(res.inv_violated)
        print("replayed: %s" % ("still rejected by PolyplyTrace" if bad else "accepted now"))
        return 1 if bad else 0
    print("replay of kind %s: re-run the check" % case["kind"])
    return 1
