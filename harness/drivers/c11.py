"""C11 - generated .itp files are written and re-read to the same molecule.

spec/ItpRoundTrip.tla : abstract molecule, Write (line list), Read (fold), WriterCanon (Equiv), laws RoundTrip / ResGraphLaw (P-layer);
                        writer actions + the reader's director actions with deviation flags (I-layer).
S->I : TLC exports every molecule of the exhaustive instance with its projection; the harness renders it as a force field (blocks +
       one tagged link per interaction) and a residue-graph JSON, runs the real `polyply gen_params` command line, requires the file,
       reads it back with Topology.from_gmx_topfile and MetaMolecule.from_itp and compares with TLC's projection; a stratified
       subset of the files goes through gen_coords.
Histories: spec/ItpRoundTripHist.tla keeps the file system as state (fs: path -> lines); TLC exports every behaviour of gen(path, molecule) /
       read(path) operations; each is executed in ONE process in one directory (S->I) and seeded longer histories over 2-3 paths are
       recorded and validated by ItpRoundTripHistTrace.tla (I->S): a read returns Read(current content of the path), nothing else.
       The message state of the process is state too (plog: info / warning / error messages logged so far, never reset between calls):
       force fields whose applied blocks / links carry [ info ] / [ warning ] / [ error ] sections occur in every position of the
       histories; every history runs in a process of its own (forked) with the logging system switched on as the command line has it.
I->S : seeded random polymers (5-8 residues), the C02 generator's cases, the repository's own gen_params command lines (library tests,
       test inputs) and library homopolymers run through the same command line; per run one record (molecule in memory when the
       writer is called, written text as abstract lines, both read-backs, requested graph, warnings) validated by
       ItpRoundTripTrace.tla in batches.
"""
import json
import os
import random
import signal
import tempfile
import threading
from pathlib import Path

from .. import common as c
from .. import itp_util as iu

PROP = "C11"
SIG_MASS = "mass-without-charge"
SIG_EDGE = "residue-edge-without-bond"
SIG_ARZ = "angle-restraints-z-reversed"
DEVS = ["noFile", "dropSection", "guardLost", "closeLate", "parTrunc", "noResid", "swapResidResname", "readerSkip", "canonConstraints"]
STAGES = {0: "the output file was not written", 1: "the written text does not read (by the specification's Read) as the molecule that was built",
          2: "the molecule returned by Topology.from_gmx_topfile differs from what the written text says",
          3: "MetaMolecule.from_itp and Topology.from_gmx_topfile return different molecules for the same file",
          4: "no link is missing but the residue graph recovered from the file differs from the requested one"}
SLIM = ("written", "built", "lines", "read", "read2", "req", "missing", "rg", "rg2")


# ------------------------------------------------------------------ comparison of an observation with TLC's projection (S->I)

def _atoms_diff(exp, got):
    if len(exp) != len(got):
        return "%d atoms, expected %d" % (len(got), len(exp))
    for i, (e, g) in enumerate(zip(exp, got), 1):
        for f in ("name", "type", "resid", "resname", "cg", "charge", "mass"):
            ev = iu.norm_token(e[f]) if e[f] != "" else ""
            if ev != g[f]:
                return "atom %d: %s is %r, expected %r" % (i, f, g[f], ev)
    return None


def _inter_diff(exp, got):
    """multiset comparison; an observed interaction matches an expected one when its listing is one of the admissible listings (alts)"""
    left = list(got)
    for e in exp:
        par = [iu.norm_token(p) for p in e["par"]]
        for g in left:
            if g["sec"] == e["sec"] and g["par"] == par and g["gk"] == e["gk"] and g["gtag"] == e["gtag"] and g["atoms"] in e["alts"]:
                left.remove(g)
                break
        else:
            return "expected interaction absent: [ %s ] atoms %s parameters %s guard %s %s" % (e["sec"], e["alts"][0], " ".join(par), e["gk"], e["gtag"])
    if left:
        g = left[0]
        return "interaction not expected: [ %s ] atoms %s parameters %s guard %s %s" % (g["sec"], g["atoms"], " ".join(g["par"]), g["gk"], g["gtag"])
    return None


def _graph(g):
    return (sorted((iu.norm_token(n["id"]), n["name"]) for n in g["nodes"]), sorted(tuple(sorted(iu.norm_token(x) for x in e)) for e in g["edges"]))


def _mol_diff(exp, got, atoms=None):
    if got["name"] != exp["name"] or got["nrexcl"] != exp["nrexcl"]:
        return "moleculetype line is %r %r, expected %r %r" % (got["name"], got["nrexcl"], exp["name"], exp["nrexcl"])
    return _atoms_diff(atoms if atoms is not None else exp["atoms"], got["atoms"]) or _inter_diff(exp["inter"], got["inter"])


def judge(cs, rec):
    """(status, what): status in ok / violation / known:<sig> / refused"""
    if not rec["accepted"] and not (cs["law"] and cs["rglaw"]):
        # a molecule of a finding instance (the specification itself says the file format cannot carry it) that gen_params refuses
        # before it reports on the links is outside "inputs that pass mapping and link application"
        return "refused", rec["exception"]
    if rec["exception"] or not rec["written"]:
        return "violation", "gen_params did not write its output file (%s; stage reached: %s)" % (rec["exception"] or "no exception", rec["stage"])
    if rec.get("read_error"):
        return "violation", "the written file cannot be read back: %s" % rec["read_error"]
    exp = cs["exp"]
    d = None
    if rec.get("read3_error"):
        return "violation", "the written file cannot be read into a force field that already holds a molecule of that name: %s" % rec["read3_error"]
    reads = ("read", "read2") + (("read3",) if "read3" in rec else ())
    label = {"read": "Topology.from_gmx_topfile", "read2": "MetaMolecule.from_itp", "read3": "MetaMolecule.from_itp into a force field that already held another molecule of that name"}
    for which in reads:
        d = _mol_diff(exp, rec[which])
        if d:
            d = "%s: %s" % (label[which], d)
            break
    if d:
        # exact classifier of a known finding: the law fails for this molecule in the specification itself (TLC names the clause) and
        # the code returns precisely what the specification's Write/Read give (pred)
        if not cs["law"] and cs["pred"]["finding"] in (SIG_MASS, SIG_ARZ) and all(not _mol_diff(cs["pred"], rec[w]) for w in reads):
            return "known:" + cs["pred"]["finding"], d
        return "violation", d
    if not cs["missing"] and not rec["missing"]:
        rgs = ("rg", "rg2") + (("rg3",) if "rg3" in rec else ())
        for which in rgs:
            if _graph(rec[which]) != _graph(cs["rg"]):
                what = "no link is missing but the residue graph recovered from the file is %s, requested %s" % (_graph(rec[which]), _graph(cs["rg"]))
                if not cs["rglaw"] and all(_graph(rec[w]) == _graph(cs["pred"]["rg"]) for w in rgs):
                    return "known:" + SIG_EDGE, what
                return "violation", what
    return "ok", ""


def _run_case(cs, variant, wd):
    ff, seq = iu.render_case(cs["mol"], variant)
    Path(wd, "in.ff").write_text(ff)
    Path(wd, "seq.json").write_text(seq)
    return iu.observe(["polyply", "gen_params", "-f", "in.ff", "-seqf", "seq.json", "-name", cs["mol"]["name"], "-o", "out.itp"], wd)


def _replay_chunk(arg):
    """one chunk file of exported cases -> [(index, status, what, record for the trace stage | None, digest, case when it is needed)]"""
    import hashlib
    path, keep_every, nmain = arg
    import vermouth.forcefield
    items = json.loads(Path(path).read_text())
    res = []
    prev_text = None
    for idx, cs in items:
        with tempfile.TemporaryDirectory(prefix="verif_c11_", dir="/var/tmp") as wd:
            try:
                rec = _run_case(cs, idx % 2, wd)
            except ValueError as exc:     # the instance promised a molecule that links can make
                res.append((idx, "machinery", "cannot render: %s" % exc, None, "", None))
                continue
            if rec["written"] and not rec["exception"]:
                # the same file read by from_itp into a force field that already holds the previously generated molecule of the same
                # moleculetype name: what the file says must not depend on what the force field held before
                if prev_text is not None:
                    ff = vermouth.forcefield.ForceField("in use")
                    Path(wd, "previous.itp").write_text(prev_text)
                    first = iu.read_into(ff, Path(wd, "previous.itp"), rec["name"])
                    if "read_error" not in first:
                        r3 = iu.read_into(ff, rec["out"], rec["name"])
                        if "read_error" in r3:
                            rec["read3_error"] = r3["read_error"]
                        else:
                            rec["read3"], rec["rg3"] = r3["read"], r3["rg"]
                prev_text = rec["text"]
        status, what = judge(cs, rec)
        slim = None
        if status == "ok" and keep_every and idx % keep_every == 0 and idx < nmain:
            slim = {k: rec.get(k) for k in SLIM}
        digest = hashlib.md5(json.dumps(cs["mol"], sort_keys=True).encode()).hexdigest()
        unexpected = idx >= nmain and status == "ok" and (not cs["law"] or not cs["rglaw"])
        res.append((idx, "ok-unexpected" if unexpected else status, what, slim, digest, cs if status not in ("ok", "refused") else None))
    return res


# ------------------------------------------------------------------ the request is input (S->I)

def _req_one(arg):
    """one exported request: the chain molecule rendered as a force field whose links select by residue name only, asked for with the
    exported -seq block list (or a sequence file); judged like every S->I case"""
    k, rq = arg
    cs = rq["case"]
    with tempfile.TemporaryDirectory(prefix="verif_c11_", dir="/var/tmp") as wd:
        try:
            ff, seq = iu.render_chain(cs["mol"])
        except ValueError as exc:
            return k, "machinery", "cannot render: %s" % exc
        Path(wd, "in.ff").write_text(ff)
        Path(wd, "seq.json").write_text(seq)
        how = (["-seq"] + rq["words"]) if rq["kind"] == "seq" else ["-seqf", "seq.json"]
        rec = iu.observe(["polyply", "gen_params", "-f", "in.ff"] + how + ["-name", cs["mol"]["name"], "-o", "out.itp"], wd)
    if not rec["accepted"]:
        return k, "machinery", "the rendered request did not pass mapping and link application: %s" % rec["exception"]
    status, what = judge(cs, rec)
    return k, status, what


def request_replay(ck, res):
    reqs = res.tagged("REQ")
    if len(reqs) < 40 or not all(r["case"]["law"] and r["case"]["rglaw"] and not r["case"]["missing"] for r in reqs):
        raise c.MachineryError("ItpRoundTripReq exported %d requests (or one for which a law fails)" % len(reqs))
    nlong = sum(1 for r in reqs if r["kind"] == "seq" and len(r["words"]) >= 11)
    ck.extra["requests_exported"] = len(reqs)
    ck.extra["requests_with_11_or_more_seq_blocks"] = nlong
    ck.require(nlong >= 3, "no long -seq request in the export")
    for k, status, what in c.pmap(_req_one, list(enumerate(reqs))):
        rq = reqs[k]
        if status == "machinery":
            raise c.MachineryError("request %s: %s" % (rq["words"], what))
        ck.replayed += 1
        ck.count("req:%s:%s" % (rq["kind"], " ".join(rq["words"])))
        ck.actions["request:" + rq["kind"]] = ck.actions.get("request:" + rq["kind"], 0) + 1
        if status != "ok":
            ck.violation({"kind": "request", "request": rq},
                         what="request %s (%d residues): %s" % ("-seq " + " ".join(rq["words"]) if rq["kind"] == "seq" else "-seqf (chain %s)" % " ".join(rq["words"]),
                                                                len(rq["case"]["mol"]["rnodes"]), what))
    ck.sample({"request (S->I)": {"kind": "seq", "words": next(r["words"] for r in reqs if r["kind"] == "seq" and len(r["words"]) >= 11)}})


# ------------------------------------------------------------------ gen_coords consumes the file

class _Timeout(Exception):
    pass


def _alarm(signum, frame):
    raise _Timeout()


def _bonded_connected(mol):
    n = len(mol["atoms"])
    adj = {i: set() for i in range(1, n + 1)}
    for x in mol["inter"]:
        if x["sec"] in ("bonds", "constraints") and x["gk"] == "none":
            a, b = x["atoms"]
            adj[a].add(b)
            adj[b].add(a)
    seen, stack = {1}, [1]
    while stack:
        for j in adj[stack.pop()]:
            if j not in seen:
                seen.add(j)
                stack.append(j)
    return len(seen) == n


def _gc_one(arg):
    idx, cs, sd = arg
    import numpy as np
    from polyply import gen_coords
    from vermouth.file_writer import DeferredFileWriter
    signal.signal(signal.SIGALRM, _alarm)
    signal.alarm(120)
    try:
        with tempfile.TemporaryDirectory(prefix="verif_c11_", dir="/var/tmp") as wd:
            rec = _run_case(cs, idx % 2, wd)
            if not rec["written"]:
                return idx, "violation", "gen_params did not write its output file (%s)" % rec["exception"]
            types = sorted({a["type"] for a in cs["mol"]["atoms"]})
            Path(wd, "sys.top").write_text("[ defaults ]\n1 2 no 1.0 1.0\n[ atomtypes ]\n" + "".join("%s 36.0 0.0 A 0.40 2.0\n" % t for t in types)
                                           + '#include "out.itp"\n[ system ]\nc11\n[ molecules ]\n%s 2\n' % cs["mol"]["name"])
            np.random.seed(sd)
            random.seed(sd)
            try:
                gen_coords(toppath=Path(wd, "sys.top"), outpath=Path(wd, "out.gro"), name="c11", box=np.array([6.0, 6.0, 6.0]))
                DeferredFileWriter().write()
            except _Timeout:
                return idx, "noverdict", "timeout"
            except Exception as exc:
                try:
                    DeferredFileWriter().open_files.clear()
                except Exception:
                    pass
                return idx, "violation", "gen_coords cannot consume the generated file: %s: %s" % (type(exc).__name__, exc)
            lines = Path(wd, "out.gro").read_text().splitlines()
            got = [(l[0:5].strip(), l[5:10].strip(), l[10:15].strip()) for l in lines[2:2 + int(lines[1])]]
            exp = [(str(a["resid"]), a["resname"], a["name"]) for a in cs["mol"]["atoms"]] * 2
            if got != exp:
                return idx, "violation", "gen_coords lists %s, the generated molecule (two copies) has %s" % (got[:8], exp[:8])
            return idx, "ok", ""
    except _Timeout:
        return idx, "noverdict", "timeout"
    finally:
        signal.alarm(0)


def _select_gc(cases, rng, n):
    strata = {}
    for i, cs in enumerate(cases):
        if cs["law"] and cs["rglaw"] and not cs["missing"] and _bonded_connected(cs["mol"]):
            key = (tuple(sorted({x["sec"] for x in cs["mol"]["inter"]})), len(cs["mol"]["rnodes"]), any(x["gk"] != "none" for x in cs["mol"]["inter"]))
            strata.setdefault(key, []).append(i)
    pick, keys = [], sorted(strata)
    while len(pick) < n and keys:
        for key in list(keys):
            if strata[key]:
                pick.append(strata[key].pop(rng.randrange(len(strata[key]))))
            else:
                keys.remove(key)
            if len(pick) >= n:
                break
    return pick


# ------------------------------------------------------------------ I->S

def _observe_one(job):
    kind = job["kind"]
    with tempfile.TemporaryDirectory(prefix="verif_c11_", dir="/var/tmp") as wd:
        try:
            if kind == "random":
                ff, seq, desc = iu.random_polymer(random.Random(job["seed"]))
                Path(wd, "in.ff").write_text(ff)
                Path(wd, "seq.json").write_text(seq)
                argv = ["polyply", "gen_params", "-f", "in.ff", "-seqf", "seq.json", "-name", "rnd", "-o", "out.itp"]
                job = dict(job, desc=desc)
            elif kind == "c02random":
                from .. import links_util as lu
                inp = lu.random_case(random.Random(job["seed"]))
                paths = lu.write_ff(wd, inp["blocks"], inp["links"], "ff", job["seed"] % 2)
                Path(wd, "seq.json").write_text(lu.seq_json(inp))
                argv = ["polyply", "gen_params", "-f"] + [str(p) for p in paths] + ["-seqf", "seq.json", "-name", "lk", "-o", "out.itp"]
            else:
                argv = job["argv"]
            rec = iu.observe(argv, wd)
        except Exception as exc:
            import traceback
            return job, {"harness_error": "%s: %s\n%s" % (type(exc).__name__, exc, traceback.format_exc()[-1500:])}
    return job, rec


def _job_label(job):
    if job["kind"] == "cmd":
        return "%s: %s" % (job["label"], " ".join(job["argv"]))
    return "%s polymer seed %d" % (job["kind"], job["seed"])


def _validate_file(arg):
    path, = arg
    res = c.tlc("ItpRoundTripTrace", "Itp_trace.cfg", workers=1, env={"TRACE_FILE": path}, check=False, timeout=3000)
    return {"rc": res.rc, "rejected": res.tagged("REJECTED"), "known": res.tagged("KNOWN"), "summary": res.summary(), "distinct": res.distinct,
            "generated": res.generated, "tail": res.out[-1500:]}


def validate(ck, recs, name, known, expect_reject=False):
    """batch validation of records by ItpRoundTripTrace; returns {index: stage reached} of rejected records and {index: sig} of known"""
    wd = c.workdir(PROP, name)
    # batches of similar weight (the cost of a record grows with its number of interactions)
    order = sorted(range(len(recs)), key=lambda i: -len(recs[i]["built"]["inter"]))
    nb = max(1, min(c.NPROC, len(recs) // 40 + 1))
    batches = [[] for _ in range(nb)]
    weight = [0] * nb
    for i in order:
        k = weight.index(min(weight))
        batches[k].append(i)
        weight[k] += 30 + len(recs[i]["built"]["inter"])
    files = []
    for k, b in enumerate(batches):
        f = wd / ("records_%d.json" % k)
        f.write_text(json.dumps({"records": [recs[i] for i in b], "known_massonly": SIG_MASS in known, "known_unbacked": SIG_EDGE in known,
                                 "known_arz": SIG_ARZ in known}))
        files.append((str(f),))
    from concurrent.futures import ThreadPoolExecutor
    with ThreadPoolExecutor(len(files)) as ex:
        outs = list(ex.map(_validate_file, files))
    rejected, flagged = {}, {}
    for b, out in zip(batches, outs):
        if out["rc"] != 0 and not out["rejected"]:
            raise c.MachineryError("ItpRoundTripTrace failed: %s" % out["tail"])
        for r in out["rejected"]:
            for t, m in r:
                rejected[b[int(t) - 1]] = int(m)
        for r in out["known"]:
            for t, sig in r:
                flagged[b[int(t) - 1]] = sig
        if not expect_reject:
            s = out["summary"]
            ck.tlc_runs.append(s)
            ck.states += out["distinct"]
            ck.transitions += out["generated"]
    return rejected, flagged


def io_jobs(tier, sd):
    rng = random.Random(sd + 11)
    nrand, nc02 = (160, 40) if tier == "quick" else (1500, 300)
    jobs = [{"kind": "random", "seed": sd * 100000 + k} for k in range(nrand)]
    jobs += [{"kind": "c02random", "seed": sd * 100000 + 50000 + k} for k in range(nc02)]
    for label, argv, d in iu.repo_commands(tier):
        jobs.append({"kind": "cmd", "label": label, "argv": argv})
    for label, argv, d in iu.library_homopolymers(rng, 3 if tier == "quick" else 12):
        jobs.append({"kind": "cmd", "label": label, "argv": argv})
    # the same library polymers asked for with long lists of blocks (the request goes into the header of the file)
    for k in range(12 if tier == "quick" else 60):
        lib, blk, _ = LIBSEQ[k % len(LIBSEQ)]
        blocks = ["%s:%d" % (blk, rng.randint(1, 2)) for _ in range(rng.randint(10, 15))]
        jobs.append({"kind": "cmd", "label": "long -seq request", "argv": ["polyply", "gen_params", "-lib", lib, "-seq"] + blocks + ["-name", "poly", "-o", "out.itp"]})
    return jobs


def trace_stage(ck, tier, sd, known, extra_recs):
    jobs = io_jobs(tier, sd)
    outs = c.pmap(_observe_one, jobs)
    recs, meta = [], []
    nacc = {"not accepted": 0}
    for job, rec in outs:
        if "harness_error" in rec:
            raise c.MachineryError("driver failed on %s: %s" % (_job_label(job), rec["harness_error"]))
        ck.count()
        if not rec["accepted"]:
            # the input did not pass mapping / link application (or the command line was refused): outside the property's domain
            nacc["not accepted"] += 1
            ck.extra.setdefault("inputs_not_accepted", []).append("%s: %s" % (_job_label(job), rec["exception"][:160]))
            continue
        if rec["exception"] or not rec["written"]:
            ck.violation({"kind": "I->S", "job": job, "exception": rec["exception"], "stage": rec["stage"], "traceback": rec.get("traceback", "")},
                         what="%s: mapping and link application passed but gen_params did not write its output file (%s; stage reached: %s)" % (
                             _job_label(job), rec["exception"] or "no exception", rec["stage"]))
            continue
        if rec.get("read_error") or not isinstance(rec.get("built"), dict) or "error" in rec["built"]:
            ck.violation({"kind": "I->S", "job": job, "read_error": rec.get("read_error"), "built": rec.get("built"), "text": rec["text"][:4000]},
                         what="%s: the written file cannot be read back: %s" % (_job_label(job), rec.get("read_error") or rec.get("built")))
            continue
        if tier == "quick" and len(rec["built"]["inter"]) > 3000:
            ck.extra["big_records_left_to_thorough"] = ck.extra.get("big_records_left_to_thorough", 0) + 1
            continue
        recs.append({k: rec.get(k) for k in SLIM})
        meta.append(job)
    n_own = len(recs)
    recs += extra_recs
    ck.extra["records_from_runs"] = n_own
    ck.extra["records_from_replay"] = len(extra_recs)
    ck.extra["records_without_missing_link"] = sum(1 for r in recs if not r["missing"])
    ck.extra["records_with_guards"] = sum(1 for r in recs if any(x["gk"] != "none" for x in r["built"]["inter"]))
    rejected, flagged = validate(ck, recs, "traces", known)
    for i in range(len(recs)):
        job = meta[i] if i < n_own else {"kind": "replayed S->I case"}
        label = _job_label(job) if i < n_own else "replayed S->I case"
        if i in rejected:
            st = rejected[i]
            ck.violation({"kind": "I->S", "job": job, "record": recs[i], "stage": st},
                         what="%s: %s" % (label, STAGES.get(st, "stage %d" % st)))
            continue
        ck.traces += 1
        ck.nontrivial.add("trace:" + json.dumps([recs[i]["built"]["atoms"], sorted(json.dumps(x, sort_keys=True) for x in recs[i]["built"]["inter"])])[:20000])
        if i in flagged:
            ck.violation({"kind": "I->S", "job": job, "record": recs[i]}, sig=flagged[i],
                         what="%s: classified by the trace specification as the known finding %s" % (label, flagged[i]))
    if recs:
        k = next((i for i in range(n_own) if recs[i]["missing"] == [] and any(x["gk"] != "none" for x in recs[i]["built"]["inter"])), 0)
        r = recs[k]
        ck.sample({"I->S record": _job_label(meta[k]) if k < n_own else "replay", "atoms": len(r["built"]["atoms"]), "interactions": len(r["built"]["inter"]),
                   "first lines": r["lines"][:12], "first interactions in memory": r["built"]["inter"][:4], "requested graph": r["req"], "missing": r["missing"]})
    return [recs[i] for i in range(len(recs)) if i not in rejected and i not in flagged]


def binding_demo(ck, recs, known):
    """corrupted records must be rejected at the stage that owns the corrupted field"""
    good = [r for r in recs if r["built"]["inter"] and any(l["k"] in ("ifdef", "ifndef") for l in r["lines"]) and not r["missing"]][:3]
    if len(good) < 3:
        ck.require(False, "binding demonstration: no suitable accepted record")
        return
    a = json.loads(json.dumps(good[0]))
    a["read"]["inter"][0]["par"] = a["read"]["inter"][0]["par"] + ["9"]        # reader returns other parameters -> stage 3
    b = json.loads(json.dumps(good[1]))
    k = next(i for i, l in enumerate(b["lines"]) if l["k"] == "endif")
    del b["lines"][k]                                                           # an #endif lost in the text -> stage 2
    d = json.loads(json.dumps(good[2]))
    d["rg"]["edges"] = d["rg"]["edges"][:-1] if d["rg"]["edges"] else [["1", "2"]]   # recovered graph lacks an edge -> stage 5
    d["rg2"] = d["rg"]
    rejected, _ = validate(ck, [a, b, d, good[0]], "binding", known, expect_reject=True)
    if rejected != {0: 2, 1: 1, 2: 4}:
        raise c.MachineryError("binding demonstration failed: corrupted records gave %s, expected {0: 2, 1: 1, 2: 4}" % rejected)
    ck.extra["binding_demo"] = "3 corrupted records (parameter added in the read-back; #endif deleted from the text; residue edge deleted) rejected at stages 3, 2, 5; the intact record accepted"


# ------------------------------------------------------------------ in-process histories (the file system is state)

def _in_own_process(func, *args):
    """func(*args) in a forked child: a history is what ONE process does from its start (the model's process starts with an empty file
    system, a fresh force field and NO message logged); whatever the code under test keeps for the life of a process starts fresh and
    ends with the history.  The result comes back as JSON through a pipe."""
    r, w = os.pipe()
    pid = os.fork()
    if pid == 0:
        code = 1
        try:
            os.close(r)
            try:
                payload = json.dumps({"ok": func(*args)})
            except BaseException as exc:      # reported by the parent as a failure of the machinery
                import traceback
                payload = json.dumps({"error": "%s: %s\n%s" % (type(exc).__name__, exc, traceback.format_exc()[-1500:])})
            with os.fdopen(w, "w") as f:
                f.write(payload)
            code = 0
        finally:
            os._exit(code)
    os.close(w)
    with os.fdopen(r) as f:
        data = f.read()
    os.waitpid(pid, 0)
    if not data:
        raise c.MachineryError("the process of a history ended without a result")
    doc = json.loads(data)
    if "error" in doc:
        raise c.MachineryError("driver failed inside the process of a history: %s" % doc["error"])
    return doc["ok"]


def _preload():
    """modules only (no call into them): a forked history process need not import them again"""
    import numpy, networkx, scipy.spatial, vermouth, vermouth.forcefield, vermouth.gmx.itp, vermouth.file_writer     # noqa: F401
    import polyply, polyply.src.logging, polyply.src.gen_itp, polyply.src.topology, polyply.src.load_library, polyply.src.meta_molecule   # noqa: F401


def _msg_of(op):
    return {"lv": op["lv"], "on": op["on"]} if op.get("lv", "none") != "none" else None


def _said(op, rec):
    """what the force field of the run said and what the process had logged before, for the report"""
    m = _msg_of(op)
    seen = rec.get("seen") or {}
    return "the force field of this run carries %s; before this run the process had logged %d info / %d warning / %d error messages" % (
        ("an [ %s ] message on %s" % (m["lv"], "its residue blocks" if m["on"] == "block" else "an applied link")) if m else "no message section",
        seen.get("info", 0), seen.get("warning", 0), seen.get("error", 0))


def _hist_chunk(arg):
    """S->I: histories exported by ItpRoundTripHist (gen = write molecule m to path p with the real command line, read = read a topology
    that includes p); every history runs in this one process, in one directory; a read must return the molecule TLC says the path holds"""
    path, = arg
    doc = json.loads(Path(path).read_text())
    mols = doc["mols"]
    _preload()
    return [tuple(_in_own_process(_hist_one, mols, hid, hist)) for hid, hist in doc["hists"]]


def _hist_one(mols, hid, hist):
    """one exported history, executed from the start of a process; -> (hid, None | (operation, what), coverage counters)"""
    import vermouth.forcefield
    from polyply.src.load_library import load_ff_library
    os.environ.pop("GMXLIB", None)      # the process of the model starts with an empty include search path
    cov = {"gens": 0, "gens_with_message": 0, "gens_after_error_logged": 0, "gens_after_warning_logged": 0, "error_records": 0,
           "reads_with_search_path_listing_a_same_named_other_file": 0}
    libheld = {}         # what the library directory holds under each name (molecule index)
    bad = None
    shared = None        # the one force field of the process that from_itp reads into (op "readff")
    with tempfile.TemporaryDirectory(prefix="verif_c11h_", dir="/var/tmp") as wd:
        for k, op in enumerate(hist):
            if op["op"] == "init":
                shared = "lib" if op["path"] == "lib" else vermouth.forcefield.ForceField("in use")
                continue
            libdir = Path(wd) / "library"
            if op["op"] == "setenv":
                # the environment of the process: the include search path lists the library directory, or nothing
                if op["path"] == "lib":
                    libdir.mkdir(exist_ok=True)
                    os.environ["GMXLIB"] = str(libdir)
                else:
                    os.environ.pop("GMXLIB", None)
                continue
            cs = mols[op["m"] - 1]
            itp = Path(wd) / ("%s.itp" % op["path"])
            if op["op"] == "genlib":
                # the same file name in another directory: gen_params -o <library>/X.itp, run from the run directory
                libdir.mkdir(exist_ok=True)
                sub = Path(wd) / ("in_%d" % k)
                sub.mkdir()
                ff, seq = iu.render_case(cs["mol"], (hid + k) % 2)
                (sub / "in.ff").write_text(ff)
                (sub / "seq.json").write_text(seq)
                rec = iu.run_command(["polyply", "gen_params", "-f", str(sub / "in.ff"), "-seqf", str(sub / "seq.json"), "-name", cs["mol"]["name"],
                                      "-o", str(libdir / itp.name)], wd, keep_existing=True, live_log=True)
                if rec["exception"] or not rec["written"]:
                    bad = (k, "mapping and link application passed but gen_params did not write %s in the library directory (%s)" % (
                        itp.name, rec["exception"] or "the file at the path was not replaced"))
                    break
                libheld[op["path"]] = op["m"]
                continue
            if op["op"] in ("read", "readff") and os.environ.get("GMXLIB") and libheld.get(op["path"], op["m"]) != op["m"]:
                cov["reads_with_search_path_listing_a_same_named_other_file"] += 1
            if op["op"] == "gen":
                sub = Path(wd) / ("in_%d" % k)
                sub.mkdir()
                ff, seq = iu.render_case(cs["mol"], (hid + k) % 2, msg=_msg_of(op))
                (sub / "in.ff").write_text(ff)
                (sub / "seq.json").write_text(seq)
                rec = iu.run_command(["polyply", "gen_params", "-f", str(sub / "in.ff"), "-seqf", str(sub / "seq.json"), "-name", cs["mol"]["name"],
                                      "-o", itp.name], wd, keep_existing=True, live_log=True)
                cov["gens"] += 1
                cov["gens_with_message"] += 1 if _msg_of(op) else 0
                cov["gens_after_error_logged"] += 1 if rec["seen"]["error"] else 0
                cov["gens_after_warning_logged"] += 1 if rec["seen"]["warning"] else 0
                cov["error_records"] += rec["logged"]["error"]
                if not rec["accepted"]:
                    bad = (k, "machinery: the rendered input did not pass mapping and link application: %s" % rec["exception"])
                    break
                if rec["exception"] or not rec["written"]:
                    bad = (k, "mapping and link application passed but gen_params did not write %s (%s); %s" % (
                        itp.name, rec["exception"] or "the file at the path was not replaced", _said(op, rec)))
                    break
                want = (_msg_of(op) or {}).get("lv")
                if want and not rec["msgs"][want]:
                    bad = (k, "machinery: the rendered [ %s ] section did not reach the built molecule" % want)
                    break
                if shared == "lib":
                    # the force field the molecule was generated from: it holds the residue block the molecule is named after
                    shared = load_ff_library("in use", None, [sub / "in.ff"])
            elif op["op"] == "readff":
                rb = iu.read_into(shared, itp, cs["mol"]["name"])
                if rb.get("read_error"):
                    bad = (k, "the file cannot be read: %s" % rb["read_error"])
                    break
                d = _mol_diff(cs["exp"], rb["read"])
                if not d and not cs["missing"] and _graph(rb["rg"]) != _graph(cs["rg"]):
                    d = "the residue graph recovered from the file is %s, requested %s" % (_graph(rb["rg"]), _graph(cs["rg"]))
                if d:
                    bad = (k, "%s was read with MetaMolecule.from_itp into a force field in use (it already held a block named %s) after molecule %d had "
                              "been written there, but the reader returned something else: %s" % (itp.name, cs["mol"]["name"], op["m"], d))
                    break
            else:
                rb = iu.read_back(itp, cs["mol"]["name"], wd)
                if rb.get("read_error"):
                    bad = (k, "the file cannot be read back: %s" % rb["read_error"])
                    break
                d = None
                for which in ("read", "read2"):
                    d = _mol_diff(cs["exp"], rb[which])
                    if d:
                        d = "%s: %s" % ("Topology.from_gmx_topfile" if which == "read" else "MetaMolecule.from_itp", d)
                        break
                if not d and not cs["missing"]:
                    for which in ("rg", "rg2"):
                        if _graph(rb[which]) != _graph(cs["rg"]):
                            d = "the residue graph recovered from the file is %s, requested %s" % (_graph(rb[which]), _graph(cs["rg"]))
                            break
                if d:
                    bad = (k, "the topology including %s was read after molecule %d had been written there, but the reader returned something else: %s%s" % (
                        itp.name, op["m"], d, ("; GMXLIB lists a directory that holds a file of the same name with molecule %d" % libheld[op["path"]])
                        if os.environ.get("GMXLIB") and op["path"] in libheld else ""))
                    break
    return hid, bad, cov


def _reuses(hist):
    """a from_itp read into the long-lived force field while it holds a block of that name that is not the file's molecule"""
    held = None
    for op in hist:
        if op["op"] == "init":
            held = 0 if op["path"] == "lib" else None
        elif op["op"] == "readff":
            if held is not None and held != op["m"]:
                return True
            held = op["m"]
    return False


def _rewrites(hist):
    """a read of a path that was read before and rewritten with another molecule since"""
    seen = {}
    for op in hist:
        if op["op"] == "read":
            if op["path"] in seen and seen[op["path"]] != op["m"]:
                return True
            seen[op["path"]] = op["m"]
    return False


def _msg_class(hist):
    """(position among the operations, level, carrier) of the runs of a history whose force field carries a message section"""
    return tuple((k, op["lv"], op["on"]) for k, op in enumerate(hist) if op["op"] == "gen" and op.get("lv", "none") != "none")


def _select_msg(hmsg, rng, n):
    """histories of the message instance, stratified: every (position, level, carrier) of the message-carrying run in turn; within a
    class histories that run gen_params again afterwards first (the process state has to survive into a later call to matter)"""
    strata = {}
    for h in hmsg:
        strata.setdefault(_msg_class(h), []).append(h)
    for key in strata:
        rng.shuffle(strata[key])
        if key:
            strata[key].sort(key=lambda h: -sum(1 for op in h[key[0][0] + 1:] if op["op"] == "gen"))
    pick, keys = [], sorted(strata)
    while len(pick) < n and keys:
        for key in list(keys):
            if strata[key]:
                pick.append(strata[key].pop(0))
            else:
                keys.remove(key)
            if len(pick) >= n:
                break
    return pick, len(strata)


def _env_clash(hist):
    """a read while the search path lists the library directory and that directory holds another molecule under the name"""
    env, libheld = False, {}
    for op in hist:
        if op["op"] == "setenv":
            env = op["path"] == "lib"
        elif op["op"] == "genlib":
            libheld[op["path"]] = op["m"]
        elif op["op"] == "read" and env and libheld.get(op["path"], op["m"]) != op["m"]:
            return True
    return False


def history_replay(ck, res, resff, resmsg, resenv, tier, rng):
    mols = res.tagged("HMOLS")
    hists = res.tagged("HIST")
    hff = resff.tagged("HIST")
    hmsg = resmsg.tagged("HIST")
    if len(hmsg) < 500:
        raise c.MachineryError("ItpRoundTripHist (message instance) exported %d histories" % len(hmsg))
    if not mols or len(hists) < 500:
        raise c.MachineryError("ItpRoundTripHist exported %d molecule tables / %d histories" % (len(mols), len(hists)))
    mols = mols[0]
    if not all(m["law"] and m["rglaw"] for m in mols):
        raise c.MachineryError("a molecule of the history instance does not satisfy the laws")
    key = {json.dumps(h, sort_keys=True): h for h in hists}
    hists = [key[k] for k in sorted(key)]
    rew = [h for h in hists if _rewrites(h)]
    rest = [h for h in hists if not _rewrites(h)]
    ck.extra["histories_exported"] = len(hists)
    ck.extra["histories_with_reread_after_rewrite"] = len(rew)
    keyff = {json.dumps(h, sort_keys=True): h for h in hff}
    hff = [keyff[k] for k in sorted(keyff)]
    reuse = [h for h in hff if _reuses(h)]
    ffrest = [h for h in hff if not _reuses(h)]
    ck.extra["ff_histories_exported"] = len(hff)
    ck.extra["ff_histories_reading_into_a_force_field_that_holds_another_block_of_the_name"] = len(reuse)
    keymsg = {json.dumps(h, sort_keys=True): h for h in hmsg}
    hmsg = [keymsg[k] for k in sorted(keymsg)]
    ck.extra["message_histories_exported"] = len(hmsg)
    nrew, nrest, nreuse, nffrest, nmsg = (350, 150, 300, 100, 320) if tier == "quick" else (2000, 500, 1500, 300, len(hmsg))
    rest = rng.sample(rest, min(len(rest), nrest))
    rew = rng.sample(rew, min(len(rew), nrew))
    reuse = rng.sample(reuse, min(len(reuse), nreuse))
    ffrest = rng.sample(ffrest, min(len(ffrest), nffrest))
    msgsel, nclasses = _select_msg(hmsg, rng, nmsg)
    ck.extra["message_histories_replayed"] = len(msgsel)
    ck.extra["message_history_classes (position, level, carrier)"] = nclasses
    want = {(k, lv, on) for k in (1, 2, 3) for lv in iu.LEVELS for on in ("block", "link")}
    got = {cl[0] for cl in map(_msg_class, msgsel) if cl}
    if want - got and not ck.violations:
        raise c.MachineryError("the replayed message histories do not cover %s" % sorted(want - got))
    henv = resenv.tagged("HIST")
    keyenv = {json.dumps(h, sort_keys=True): h for h in henv}
    henv = [keyenv[k] for k in sorted(keyenv)]
    clash = [h for h in henv if _env_clash(h)]
    envrest = [h for h in henv if not _env_clash(h)]
    ck.extra["environment_histories_exported"] = len(henv)
    ck.extra["environment_histories_reading_while_the_search_path_lists_a_same_named_other_file"] = len(clash)
    nclash, nenvrest = (160, 60) if tier == "quick" else (len(clash), len(envrest))
    clash = rng.sample(clash, min(len(clash), nclash))
    envrest = rng.sample(envrest, min(len(envrest), nenvrest))
    if len(clash) < 50 and not ck.violations:
        raise c.MachineryError("too few environment histories with a clash of names on the search path (%d)" % len(clash))
    todo = list(enumerate(rew + rest + reuse + ffrest + msgsel + clash + envrest))
    if (len(rew) < 50 or len(reuse) < 50) and not ck.violations:
        raise c.MachineryError("too few histories read a path again after it was rewritten (%d) / read into a force field in use (%d)" % (len(rew), len(reuse)))
    wdir = c.workdir(PROP, "hist_export")
    parts = []
    for k, ch in enumerate(c.chunks(todo, c.NPROC * 3)):
        f = wdir / ("hist_%d.json" % k)
        f.write_text(json.dumps({"mols": mols, "hists": ch}))
        parts.append((str(f),))
    allh = dict(todo)
    cov = {}
    for part in c.pmap(_hist_chunk, parts):
        for hid, bad, cv in part:
            ck.replayed += 1
            h = allh[hid]
            ck.count("hist:" + json.dumps(h, sort_keys=True))
            for key, v in cv.items():
                cov[key] = cov.get(key, 0) + v
            for op in h:
                ck.actions["history:" + op["op"]] = ck.actions.get("history:" + op["op"], 0) + 1
                if op["op"] == "gen" and op.get("lv", "none") != "none":
                    ck.actions["history:gen with [ %s ] on %s" % (op["lv"], op["on"])] = ck.actions.get("history:gen with [ %s ] on %s" % (op["lv"], op["on"]), 0) + 1
            if bad:
                k, what = bad
                if what.startswith("machinery:"):
                    raise c.MachineryError("history %s, operation %d: %s" % (json.dumps(h), k, what))
                ck.violation({"kind": "history", "mols": mols, "history": h, "step": k},
                             what="in-process history %s: operation %d: %s" % (" ".join(
                                 "%s(%s,%d%s)" % (o["op"], o["path"], o["m"], (",[ %s ] on %s" % (o["lv"], o["on"])) if o.get("lv", "none") != "none" else "") for o in h), k, what))
    ck.extra["histories_replayed"] = len(todo)
    ck.extra["history_replay_process_state"] = cov
    # the binding is vacuous unless the messages really reach the logging system of the process and runs follow them in the same process
    if (cov.get("error_records", 0) < 20 or cov.get("gens_after_error_logged", 0) < 20 or cov.get("gens_after_warning_logged", 0) < 20) and not ck.violations:
        raise c.MachineryError("the replayed histories hardly ever run gen_params in a process that has logged an error / a warning before: %s" % cov)
    if cov.get("reads_with_search_path_listing_a_same_named_other_file", 0) < 50 and not ck.violations:
        raise c.MachineryError("the replayed histories hardly ever read while the search path lists a directory with another file of that name: %s" % cov)
    ck.sample({"history (S->I)": rew[0], "history with a long-lived force field (S->I)": reuse[0],
               "history with a library directory on the include search path (S->I)": clash[0],
               "history with a message-carrying force field (S->I)": next((h for h in msgsel if _msg_class(h) and _msg_class(h)[0][1] == "error"), msgsel[0]), "molecules by index": [{"atoms": len(m["mol"]["atoms"]), "residues": len(m["mol"]["rnodes"]),
                                                                   "interactions": [(x["sec"], x["gk"]) for x in m["mol"]["inter"]]} for m in mols]})


# library, residue block, an atom of the block (for a message-only link given next to the library)
LIBSEQ = [("martini3", "PEO", "EC"), ("martini3", "PS", "B"), ("martini3", "PE", "C1"), ("martini2", "PS", "B"), ("ibi_cgm3", "PTMA", "VNL"),
          ("martini3", "P3HT", "S1")]


def _hist_trace_one(seed):
    _preload()
    return _in_own_process(_hist_trace_body, seed)


def _tapped(func, *args):
    """a read operation with the logging system on: (result, records by level before, records by level of the operation)"""
    with iu.live_logging() as log:
        res = func(*args)
    return res, log.before, log.logged


def _hist_trace_body(seed):
    """I->S: one seeded history in one process of its own: 10-14 operations on 2-3 output paths, molecules = random polymers / library
    homopolymers of varying length, all written as moleculetype 'poly'; the force fields of some runs carry [ info ] / [ warning ] /
    [ error ] message sections on blocks and links (a message-only link next to a library)"""
    import vermouth.forcefield
    from polyply.src.load_library import load_ff_library
    rng = random.Random(seed)
    os.environ.pop("GMXLIB", None)
    paths = ["P1", "P2", "P3"][:rng.choice([2, 2, 3])]
    events, have = [], set()
    # every second history also has an ENVIRONMENT: a library directory that receives files of the same names, and an include
    # search path (GMXLIB) that lists it from some moment on / no longer lists it
    envhist = seed % 2 == 1
    # every third history: homopolymers named after their residue (-name PEO -seq PEO:n), read into the loaded library itself
    named = seed % 3 == 0
    # message sections: a third of the histories has none at all, the others in any run with probability pmsg; the first
    # error-level message of a history is aimed at its run number `first_error` (so that every position is taken over the seeds)
    pmsg = 0.0 if seed % 3 == 1 else 0.45
    first_error = (seed // 3) % 5 if pmsg else None
    ngen = 0
    if named:
        lib, blk, atom = rng.choice(LIBSEQ)
        name, shared = blk, load_ff_library("in use", [lib], [])
    else:
        name, shared = "poly", vermouth.forcefield.ForceField("in use")
    with tempfile.TemporaryDirectory(prefix="verif_c11h_", dir="/var/tmp") as wd:
        libdir = Path(wd) / "library"
        libdir.mkdir()
        for k in range(rng.randint(10, 14) + (4 if envhist else 0)):
            p = rng.choice(paths)
            itp = Path(wd) / ("%s.itp" % p)
            inlib = False
            if envhist and rng.random() < 0.16:
                if os.environ.get("GMXLIB"):
                    os.environ.pop("GMXLIB")
                    events.append({"op": "setenv", "path": "", "dirs": []})
                else:
                    os.environ["GMXLIB"] = str(libdir)
                    events.append({"op": "setenv", "path": "", "dirs": ["library"]})
                continue
            if envhist and p in have and rng.random() < 0.3:
                inlib = True                  # the next run parks its output under the same name in the library directory
            # while the search path lists the library directory and it holds a file of this name: read the topology more often
            clash = envhist and bool(os.environ.get("GMXLIB")) and (libdir / itp.name).exists() and p in have
            if clash and rng.random() < 0.5:
                rb, seen, logged = _tapped(iu.read_back, itp, name, wd)
                empty = {"name": "", "nrexcl": "", "atoms": [], "inter": []}
                events.append({"op": "read", "path": p, "now": iu.tokenise(itp.read_text()), "readok": "read_error" not in rb,
                               "read": rb.get("read", empty), "read2": rb.get("read2", empty), "read_error": rb.get("read_error", ""),
                               "seen": seen, "logged": logged})
            elif p not in have or inlib or rng.random() < 0.4:
                level = None
                if ngen == first_error:
                    level = "error"
                elif rng.random() < pmsg:
                    level = rng.choice(iu.LEVELS)
                ngen += 1
                sub = Path(wd) / ("in_%d" % k)
                sub.mkdir()
                said = None
                if named or rng.random() >= 0.7:
                    lib2, blk2, atom2 = (lib, blk, atom) if named else rng.choice(LIBSEQ)
                    argv = ["polyply", "gen_params", "-lib", lib2]
                    if level:
                        (sub / "msg.ff").write_text(iu.message_only_link(blk2, atom2, level))
                        argv += ["-f", str(sub / "msg.ff")]
                        said = {"level": level, "on": "message-only link"}
                    if rng.random() < 0.25:        # the same kind of polymer asked for with a long list of blocks
                        blocks = ["%s:%d" % (blk2, rng.randint(1, 2)) for _ in range(rng.randint(9, 14))]
                    else:
                        blocks = ["%s:%d" % (blk2, rng.randint(2, 6))]
                    argv += ["-seq"] + blocks + ["-name", name, "-o", str(libdir / itp.name) if inlib else itp.name]
                else:
                    ff, seq, _ = iu.random_polymer(rng, exotic=False)
                    if level:
                        ff, said = iu.add_messages(ff, rng, level)
                    (sub / "in.ff").write_text(ff)
                    (sub / "seq.json").write_text(seq)
                    argv = ["polyply", "gen_params", "-f", str(sub / "in.ff"), "-seqf", str(sub / "seq.json"), "-name", name,
                            "-o", str(libdir / itp.name) if inlib else itp.name]
                rec = iu.run_command(argv, wd, keep_existing=True, live_log=True)
                if inlib:
                    p = "L:" + p
                if not rec["accepted"]:
                    events.append({"op": "other", "path": p, "seen": rec["seen"], "logged": rec["logged"], "exception": rec["exception"]})
                    continue
                built = rec["built"] if isinstance(rec["built"], dict) and "error" not in rec["built"] else {"name": "", "nrexcl": "", "atoms": [], "inter": []}
                events.append({"op": "gen", "path": p, "written": bool(rec["written"] and not rec["exception"]), "built": built,
                               "lines": iu.tokenise(rec["text"]), "argv": argv[:2] + [a for a in argv[2:] if not a.startswith("/")], "exception": rec["exception"],
                               "msgs": rec["msgs"], "seen": rec["seen"], "logged": rec["logged"], "force field says": json.dumps(said) if said else ""})
                if rec["written"] and not inlib:
                    have.add(p)
            elif rng.random() < 0.5:
                rb, seen, logged = _tapped(iu.read_back, itp, name, wd)
                empty = {"name": "", "nrexcl": "", "atoms": [], "inter": []}
                events.append({"op": "read", "path": p, "now": iu.tokenise(itp.read_text()), "readok": "read_error" not in rb,
                               "read": rb.get("read", empty), "read2": rb.get("read2", empty), "read_error": rb.get("read_error", ""),
                               "seen": seen, "logged": logged})
            else:
                rb, seen, logged = _tapped(iu.read_into, shared, itp, name)
                empty = {"name": "", "nrexcl": "", "atoms": [], "inter": []}
                events.append({"op": "readff", "path": p, "now": iu.tokenise(itp.read_text()), "readok": "read_error" not in rb,
                               "read": rb.get("read", empty), "read2": rb.get("read", empty), "read_error": rb.get("read_error", ""),
                               "seen": seen, "logged": logged})
    return seed, events


def _validate_hist_file(arg):
    path, = arg
    res = c.tlc("ItpRoundTripHistTrace", "Itp_hist_trace.cfg", workers=1, env={"TRACE_FILE": path}, check=False, timeout=3000)
    return {"rc": res.rc, "rejected": res.tagged("REJECTED"), "summary": res.summary(), "distinct": res.distinct, "generated": res.generated, "tail": res.out[-1500:]}


def validate_histories(ck, traces, name, count=True):
    wd = c.workdir(PROP, name)
    batches = [b for b in c.chunks(list(range(len(traces))), max(1, min(c.NPROC, len(traces) // 12 + 1))) if b]
    files = []
    for k, b in enumerate(batches):
        f = wd / ("hist_traces_%d.json" % k)
        f.write_text(json.dumps({"traces": [traces[i] for i in b]}))
        files.append((str(f),))
    from concurrent.futures import ThreadPoolExecutor
    with ThreadPoolExecutor(len(files)) as ex:
        outs = list(ex.map(_validate_hist_file, files))
    rejected = {}
    for b, out in zip(batches, outs):
        if out["rc"] != 0 and not out["rejected"]:
            raise c.MachineryError("ItpRoundTripHistTrace failed: %s" % out["tail"])
        for r in out["rejected"]:
            for t, m in r:
                rejected[b[int(t) - 1]] = int(m)
        if count:
            ck.tlc_runs.append(out["summary"])
            ck.states += out["distinct"]
            ck.transitions += out["generated"]
    return rejected


def history_traces(ck, tier, sd):
    n = 90 if tier == "quick" else 400
    outs = c.pmap(_hist_trace_one, [sd * 100000 + 70000 + k for k in range(n)])
    traces = [ev for _, ev in outs if ev]
    seeds = [s for s, ev in outs if ev]
    rejected = validate_histories(ck, traces, "hist_traces")
    rereads = ffreuse = 0
    msgcov = {"gens": 0, "gens carrying an info message": 0, "gens carrying a warning message": 0, "gens carrying an error message": 0,
              "gens after the process had logged an error": 0, "gens after the process had logged a warning": 0,
              "gens over an existing file after the process had logged an error": 0, "runs refused (other)": 0}
    first_error_at = {}
    envcov = {"setenv events": 0, "gens into the library directory": 0, "reads while the search path lists a same-named other file": 0,
              "gens asked for with 9 or more -seq blocks": 0}
    for i, tr in enumerate(traces):
        gens, readat = {}, {}
        held = "library" if seeds[i] % 3 == 0 else None
        ng = 0
        tenv, text = [], {}
        for e in tr:
            if e["op"] == "setenv":
                tenv = e["dirs"]
                envcov["setenv events"] += 1
                continue
            if e["op"] == "gen":
                text[e["path"]] = json.dumps(e["lines"])
                envcov["gens into the library directory"] += 1 if e["path"].startswith("L:") else 0
                words = e["argv"][e["argv"].index("-seq") + 1:] if "-seq" in e["argv"] else []
                envcov["gens asked for with 9 or more -seq blocks"] += 1 if sum(1 for w in words if ":" in w and not w.startswith("-")) >= 9 else 0
            if e["op"] == "read" and tenv and text.get("L:" + e["path"], text.get(e["path"])) != text.get(e["path"]):
                envcov["reads while the search path lists a same-named other file"] += 1
            if e["op"] == "other":
                msgcov["runs refused (other)"] += 1
            if e["op"] == "gen":
                msgcov["gens"] += 1
                for lv, label in (("info", "gens carrying an info message"), ("warning", "gens carrying a warning message"), ("error", "gens carrying an error message")):
                    msgcov[label] += 1 if e["msgs"][lv] else 0
                if e["seen"]["error"]:
                    msgcov["gens after the process had logged an error"] += 1
                    if e["path"] in gens:
                        msgcov["gens over an existing file after the process had logged an error"] += 1
                elif e["logged"]["error"]:
                    first_error_at[ng] = first_error_at.get(ng, 0) + 1
                msgcov["gens after the process had logged a warning"] += 1 if e["seen"]["warning"] else 0
                ng += 1
            if e["op"] == "readff":
                now = json.dumps(e["now"])
                if held is not None and held != now:
                    ffreuse += 1            # the force field held the library's block / another molecule of that name
                held = now
            if e["op"] == "gen":
                gens[e["path"]] = gens.get(e["path"], 0) + 1
            elif e["op"] == "read":
                if e["path"] in readat and readat[e["path"]] != gens.get(e["path"], 0):
                    rereads += 1            # the path was read before and has been rewritten since
                readat[e["path"]] = gens.get(e["path"], 0)
        if i in rejected:
            k = rejected[i]
            e = tr[k] if k < len(tr) else {}
            ck.violation({"kind": "history trace", "seed": seeds[i], "trace": tr[:k + 1], "matched": k},
                         what="in-process history (seed %d) rejected at operation %d (%s %s): %s" % (
                             seeds[i], k + 1, e.get("op"), e.get("path"),
                             ((e.get("exception") or "the file was not (re)written, or the text does not read as the molecule built")
                              + "; the applied blocks / links carried %s messages (info/warning/error); before this run the process had logged %s" % (
                                  [e["msgs"][lv] for lv in iu.LEVELS], [e["seen"][lv] for lv in iu.LEVELS])) if e.get("op") == "gen"
                             else (e.get("read_error") or "the reader did not return what the file at the path holds at that moment")))
        else:
            ck.traces += 1
            ck.nontrivial.add("histtrace:%d" % seeds[i])
        ck.count(n=len(tr))
    ck.extra["history_traces"] = len(traces)
    ck.extra["history_trace_rereads_after_rewrite"] = rereads
    ck.extra["history_trace_reads_into_force_field_holding_another_block"] = ffreuse
    if (rereads < 20 or ffreuse < 20) and not ck.violations:
        raise c.MachineryError("the recorded histories hardly ever read a path again after rewriting it (%d) / read into a force field that holds "
                               "another block of the name (%d)" % (rereads, ffreuse))
    ck.extra["history_trace_message_state"] = msgcov
    ck.extra["history_trace_environment_and_requests"] = envcov
    if (envcov["reads while the search path lists a same-named other file"] < 15 or envcov["gens asked for with 9 or more -seq blocks"] < 15) and not ck.violations:
        raise c.MachineryError("the recorded histories hardly exercise the environment / long requests: %s" % envcov)
    ck.extra["history_trace_first_error_message_at_run_number"] = {str(k): first_error_at[k] for k in sorted(first_error_at)}
    if (min(msgcov["gens carrying an info message"], msgcov["gens carrying a warning message"], msgcov["gens carrying an error message"]) < 15
            or msgcov["gens after the process had logged an error"] < 40 or msgcov["gens over an existing file after the process had logged an error"] < 15
            or len([k for k in range(4) if first_error_at.get(k)]) < 4) and not ck.violations:
        raise c.MachineryError("the recorded histories hardly exercise the message state of the process: %s, first error at run number %s" % (msgcov, first_error_at))
    # binding demonstration: a read that returns what the path held BEFORE the last write must be rejected
    demo = None
    for i, tr in enumerate(traces):
        if i in rejected:
            continue
        last = {}
        for k, e in enumerate(tr):
            if e["op"] == "read":
                if e["path"] in last and json.dumps(last[e["path"]]["read"]) != json.dumps(e["read"]):
                    demo = json.loads(json.dumps(tr))
                    demo[k]["read"], demo[k]["read2"] = last[e["path"]]["read"], last[e["path"]]["read2"]
                    want = k
                    break
                last[e["path"]] = e
        if demo:
            break
    if demo is None:
        ck.require(False, "history binding demonstration: no trace reads a path twice with different content")
        return
    # ... and a run whose output was withheld because the process had logged an error: the path keeps what it held, no new file
    demo2 = None
    for i, tr in enumerate(traces):
        if i in rejected:
            continue
        held = {}
        for k, e in enumerate(tr):
            if e["op"] == "gen":
                if e["seen"]["error"] and not e["logged"]["error"] and e["path"] in held:
                    demo2 = json.loads(json.dumps(tr))
                    demo2[k]["written"], demo2[k]["lines"] = False, held[e["path"]]
                    want2 = k
                    break
                held[e["path"]] = e["lines"]
        if demo2:
            break
    if demo2 is None:
        ck.require(False, "history binding demonstration: no trace rewrites a path in a clean run after an error-level message was logged")
        return
    rej = validate_histories(ck, [demo, demo2], "hist_binding", count=False)
    if rej != {0: want, 1: want2}:
        raise c.MachineryError("history binding demonstration failed: a stale read / a withheld output gave %s, expected rejection at events %s" % (rej, {0: want, 1: want2}))
    ck.extra["history_binding_demo"] = ("a read event replaced by the (stale) result of the previous read of the same path was rejected at that event; a clean run after "
                                        "an error-level message of an earlier run, altered to 'not written, the path keeps its old content', was rejected at that event")
    ck.sample({"history trace (I->S)": [{"op": e["op"], "path": e["path"], "atoms": len((e.get("built") or e.get("read") or {"atoms": []})["atoms"]),
                                          "command": e.get("argv"), "messages carried": e.get("msgs"), "logged before": e.get("seen")} for e in next(
                                              (t for t in traces if any(e["op"] == "gen" and e["msgs"]["error"] for e in t)), traces[0])]})


# ------------------------------------------------------------------ entry points

def model_jobs(tier):
    # the I-layer is checked on the quick instance in both tiers (thorough: any order of sections / lines on all of it); the bigger
    # instance of the thorough tier goes through the declarative laws (export run) and the replay
    jobs = [("fixed", "Itp_Quick", "Itp_fixed.cfg", {"workers": 4, "timeout": 3000}),
            ("free", "Itp_Dev" if tier == "quick" else "Itp_Quick", "Itp_free.cfg", {"workers": 3 if tier == "quick" else 6, "timeout": 3000, "coverage": True})]
    for d in DEVS:
        jobs.append(("dev:" + d, "Itp_Dev", "Itp_dev_%s.cfg" % d, {"workers": 1, "check": False, "dfs": True}))
    jobs.append(("hist:dev:readerCaches", "ItpRoundTripHist", "Itp_hist_dev_readerCaches.cfg", {"workers": 1, "check": False}))
    jobs.append(("hist:dev:readerReusesBlock", "ItpRoundTripHist", "Itp_hist_dev_readerReusesBlock.cfg", {"workers": 1, "check": False}))
    jobs.append(("hist:dev:writerAppends", "ItpRoundTripHist", "Itp_hist_dev_writerAppends.cfg", {"workers": 1, "check": False}))
    jobs.append(("hist:dev:searchPath", "ItpRoundTripHist", "Itp_hist_dev_searchPath.cfg", {"workers": 1, "check": False}))
    jobs.append(("req:dev:headerFold", "ItpRoundTripReq", "Itp_req_dev_headerFold.cfg", {"workers": 1, "check": False}))
    jobs.append(("hist:dev:errGate", "ItpRoundTripHist", "Itp_hist_dev_errGate.cfg", {"workers": 1, "check": False}))
    jobs.append(("hist:dev:errGateRead", "ItpRoundTripHist", "Itp_hist_dev_errGateRead.cfg", {"workers": 1, "check": False}))
    jobs.append(("find:mass", "Itp_MassOnly", "Itp_find_massonly.cfg", {"workers": 1, "check": False}))
    jobs.append(("find:edge", "Itp_Unbacked", "Itp_find_unbacked.cfg", {"workers": 1, "check": False}))
    jobs.append(("find:arz", "Itp_Arz", "Itp_find_arz.cfg", {"workers": 1, "check": False}))
    return jobs


def run(tier):
    ck = c.Check(PROP, tier)
    sd = c.seed()
    rng = random.Random(sd)
    known = c.known_sigs(PROP)
    ck.rule = ("S->I: every molecule of the exhaustive instance (<= 4 atoms in <= 3 residues; every section of {bonds, angles, dihedrals, impropers, "
               "constraints, exclusions, pairs, virtual_sites2/n, position_restraints} in both listings, guards none / ifdef F / ifndef F / ifdef G, two "
               "parameter forms, pairs and triples within one section, guarded bond + other section, all requested graphs on <= 3 residues incl. "
               "missing links, three charge/mass variants) through the real command line; distinct = abstract molecule. I->S: one record per real run "
               "(random 5-8 residue polymers, C02's random cases, the repository's gen_params command lines, library homopolymers); distinct = molecule built")
    ck.assumptions = ["numeric tokens are compared as IEEE doubles, exactly (the writer formats numbers with str(), which is lossless); '0.30' and '0.3' are the same token",
                      "equality of interactions is modulo the writer's listings: bond/pair a-b = b-a, angle and dihedral reversed; impropers are dihedrals in a file; comments and 'group' are not part of the molecule",
                      "atoms are identified by their position (order of the molecule in memory = order in the file)",
                      "domain: an interaction carries at most one of ifdef/ifndef; virtual_sitesn has one parameter (the function type); bonds and constraints join only residues adjacent in the requested graph",
                      "the repository's stored residue-graph JSON files are handed over with the node-link key the installed networkx reads ('edges')"]
    # ---- 1. model checking in the background, export first
    ck.stage("TLC: models, sensitivity and finding instances in the background; export of the instance")
    jobs = model_jobs(tier)
    results, errors = {}, []

    def background():
        from ..links_util import run_jobs
        try:
            pool = []
            for name, module, cfg, kw in jobs:
                kw = dict(kw)
                pool.append((name, module, cfg, kw.pop("workers"), kw))
            results.update(run_jobs(pool, budget=max(4, c.NPROC - 4)))
        except BaseException as exc:
            errors.append(exc)
    th = threading.Thread(target=background)
    th.start()
    try:
        ex, exf, exh, exhf, exhm, exhe, exrq = c.tlc_many([("Itp_Quick" if tier == "quick" else "Itp_Full", "Itp_export.cfg", {"workers": 3, "timeout": 3000}),
                                         ("Itp_Find", "Itp_export_find.cfg", {"workers": 1}),
                                         ("ItpRoundTripHist", "Itp_hist_deep.cfg", {"workers": 3, "timeout": 3000}),
                                         ("ItpRoundTripHist", "Itp_hist_ff.cfg", {"workers": 2, "timeout": 3000}),
                                         ("ItpRoundTripHist", "Itp_hist_msg.cfg", {"workers": 2, "timeout": 3000}),
                                         ("ItpRoundTripHist", "Itp_hist_env.cfg", {"workers": 1, "timeout": 3000}),
                                         ("ItpRoundTripReq", "Itp_req.cfg", {"workers": 1, "timeout": 3000})],
                                        workers_each=None)
        ck.model_must_hold(exhe, "ReadIsCurrent / EnvLeavesRunDirectory on all histories that also write same-named files into a library directory and "
                                 "put that directory on / take it off the include search path of the environment (GMXLIB)")
        ck.model_must_hold(exrq, "WriterMeetsWriteReq / HeaderIsComment / RoundTripReq / ResGraphReq / RequestInert for chains asked for with -seq lists of 1..13 blocks "
                                 "and with a sequence file (the header made from the request is comment lines only)")
        ck.model_must_hold(exhm, "OutputIgnoresLog / GenWritesWhateverLogged / LogSurvivesCalls / OnlyRunsLog / ReadIsCurrent on all histories in which a run's force field "
                                 "carries an [ info ] / [ warning ] / [ error ] message on its blocks or on an applied link (process message state plog)")
        ck.model_must_hold(exhf, "ReadIsCurrent with reads through from_itp into one long-lived force field (fresh, or holding the generating library's block)")
        ck.model_must_hold(exh, "ReadIsCurrent / FsHoldsWrite / OnlyWritesChangeFiles on all histories of gen/read operations over two paths")
        ck.model_must_hold(ex, "RoundTrip / ResGraphLaw for the declarative Write and Read on every molecule of the instance")
        ck.add_tlc(exf)
        cases = ex.cases()
        find = exf.cases()
        ex.out = exf.out = ""
        ck.require(len(cases) > 3000 and len(find) >= 40, "too few cases exported: %d + %d" % (len(cases), len(find)))
        ck.require(all(cs["law"] and cs["rglaw"] for cs in cases), "the export contains a molecule for which the law fails")
        ck.require(any(not cs["law"] for cs in find) and any(not cs["rglaw"] for cs in find), "the finding instance holds no counterexample")
        # ---- 2. S->I
        ck.stage("S->I: %d molecules + %d molecules of the finding instances through `polyply gen_params`" % (len(cases), len(find)))
        nmain = len(cases)
        mid = cases[nmain // 2]
        ck.sample({"S->I case": {"atoms": mid["mol"]["atoms"], "interactions": mid["mol"]["inter"], "requested residue edges": mid["mol"]["redges"],
                                 "missing": mid["missing"]}, "expected interactions (admissible listings)": mid["exp"]["inter"]})
        ngc = 40 if tier == "quick" else 400
        gc_jobs = [(i, cases[i], sd * 1000 + k) for k, i in enumerate(_select_gc(cases, rng, ngc))]
        # the cases go to the workers through chunk files; the parent lets go of them before it forks (a thorough export is > 1 GB
        # of Python objects, which every forked worker would end up copying)
        wdir = c.workdir(PROP, "export")
        keep = 8 if tier == "quick" else 40
        parts = []
        for k, ch in enumerate(c.chunks(list(enumerate(cases + find)), c.NPROC * 6)):
            f = wdir / ("chunk_%d.json" % k)
            f.write_text(json.dumps(ch))
            parts.append((str(f), keep, nmain))
        del cases, find, ch
        import gc
        gc.collect()
        extra_recs = []
        nknown = {}
        for part in c.pmap(_replay_chunk, parts):
            for idx, status, what, slim, digest, cs in part:
                if status == "machinery":
                    raise c.MachineryError(what)
                ck.replayed += 1
                ck.count("mol:" + digest)
                if slim is not None:
                    extra_recs.append(slim)
                if status == "violation":
                    ck.violation({"kind": "S->I", "case": cs, "variant": idx % 2},
                                 what="molecule %s: %s" % (json.dumps({"atoms": [(a["resid"], a["resname"], a["name"], a["charge"], a["mass"]) for a in cs["mol"]["atoms"]],
                                                                          "interactions": [(x["sec"], x["atoms"], x["gk"], x["gtag"]) for x in cs["mol"]["inter"]],
                                                                          "graph": cs["mol"]["redges"]}), what))
                elif status == "refused":
                    ck.extra["finding_instance_inputs_refused"] = ck.extra.get("finding_instance_inputs_refused", 0) + 1
                elif status.startswith("known:"):
                    sig = status[6:]
                    nknown[sig] = nknown.get(sig, 0) + 1
                    ck.violation({"kind": "S->I", "case": cs, "variant": idx % 2}, sig=sig, what=what)
                elif status == "ok-unexpected":
                    # the specification predicts a failure of the law for this molecule and the code does not show it
                    ck.extra["finding_instance_cases_not_reproduced"] = ck.extra.get("finding_instance_cases_not_reproduced", 0) + 1
        ck.extra["finding_instance_cases_classified"] = nknown
        # ---- 3. gen_coords consumes the file
        ck.stage("gen_coords on a stratified subset of the generated files")
        nov = 0
        for idx, status, what in c.pmap(_gc_one, gc_jobs):
            cs = next(j[1] for j in gc_jobs if j[0] == idx)
            ck.count("gc:%d" % idx)
            if status == "noverdict":
                nov += 1
            elif status == "violation":
                ck.violation({"kind": "gen_coords", "case": cs, "variant": idx % 2}, what=what)
        pick = gc_jobs
        ck.extra["gen_coords_runs"] = len(pick) - nov
        ck.extra["gen_coords_no_verdict"] = nov
        ck.require(len(pick) >= 20 and nov <= len(pick) // 5, "gen_coords subset too small or too many runs without verdict (%d of %d)" % (nov, len(pick)))
        # ---- 3a. the request is input
        ck.stage("S->I: the same chains asked for with -seq block lists of every length and with a sequence file")
        request_replay(ck, exrq)
        exrq.out = ""
        # ---- 3b. in-process histories
        ck.stage("S->I: in-process histories (write to the same paths again and again, read in between)")
        history_replay(ck, exh, exhf, exhm, exhe, tier, rng)
        exh.out = exhf.out = exhm.out = exhe.out = ""
        ck.stage("I->S: seeded in-process histories validated by ItpRoundTripHistTrace")
        history_traces(ck, tier, sd)
        # ---- 4. I->S
        ck.stage("I->S: real runs recorded and validated by ItpRoundTripTrace")
        recs = trace_stage(ck, tier, sd, known, extra_recs)
        ck.require(ck.extra["records_without_missing_link"] >= 40 and ck.extra["records_with_guards"] >= 40,
                   "the recorded runs do not exercise the residue-graph clause / guards enough: %s" % ck.extra)
        ck.stage("binding demonstration")
        binding_demo(ck, recs, known)
    finally:
        th.join()
    # ---- 5. model results
    ck.stage("model results")
    if errors:
        raise errors[0]
    ck.model_must_hold(results["fixed"], "writer actions = Write; director = Read; RoundTripI; ResGraphI; GuardDiscipline (sections in writer order)")
    ck.model_must_hold(results["free"], "the same with any order of sections and of the lines of a group; OnlyGuardActionsTouchDepth")
    cov = results["free"].coverage()
    idle = [a for a in ("WriteHeader", "WriteAtoms", "OpenGuard", "WriteInteraction", "CloseGuard", "EndSection", "Finish", "RSection", "RPragma",
                        "RMoleculetype", "RAtom", "RInteraction", "RFinalize") if not cov.get(a)]
    if idle:
        raise c.MachineryError("actions never taken in the model (vacuous): %s" % idle)
    for d in DEVS:
        ck.model_must_refute(results["dev:" + d], "RoundTripI", "deviation %s" % d)
    ck.model_must_refute(results["hist:dev:readerCaches"], "ReadIsCurrent", "the reader caches included files by path for the life of the process")
    ck.model_must_refute(results["hist:dev:readerReusesBlock"], "ReadIsCurrent", "from_itp does not parse the file when the force field already has a block of that name")
    ck.model_must_refute(results["hist:dev:writerAppends"], "ReadIsCurrent", "the writer appends to an existing output file")
    ck.model_must_refute(results["hist:dev:errGate"], "OutputIgnoresLog", "the output is withheld when the process has logged an error-level message (in this or an earlier call)")
    ck.model_must_refute(results["hist:dev:errGateRead"], "ReadIsCurrent", "the same deviation seen by a reader: the path still holds what an earlier run wrote")
    ck.model_must_refute(results["hist:dev:searchPath"], "ReadIsCurrent", "an #include is looked up along the search path of the environment and the last hit wins")
    ck.model_must_refute(results["req:dev:headerFold"], "RoundTripReq", "a long header entry (many -seq blocks) is folded and only its first line is a comment")
    ck.model_must_refute(results["find:mass"], "LawsAtStart", "an atom with a mass but no charge (finding %s)" % SIG_MASS)
    ck.model_must_refute(results["find:edge"], "LawsAtStart", "a linked residue pair without bond or constraint (finding %s)" % SIG_EDGE)
    ck.model_must_refute(results["find:arz"], "LawsAtStart", "angle_restraints_z listed with the higher atom first (finding %s)" % SIG_ARZ)
    ck.exhaustive = True
    return ck.finish()


def replay(path):
    doc = json.loads(open(path).read())
    case = doc["case"]
    c.quiet()
    if case["kind"] == "S->I":
        with tempfile.TemporaryDirectory(prefix="verif_c11_", dir="/var/tmp") as wd:
            rec = _run_case(case["case"], case["variant"], wd)
            print(rec["text"])
        status, what = judge(case["case"], rec)
        print("replayed:", status, what)
        return 1 if status == "violation" else 0
    if case["kind"] == "request":
        k, status, what = _req_one((0, case["request"]))
        print("replayed:", status, what)
        return 1 if status == "violation" else (2 if status == "machinery" else 0)
    if case["kind"] == "history":
        f = Path(tempfile.mkdtemp(prefix="verif_c11h_", dir="/var/tmp")) / "h.json"
        f.write_text(json.dumps({"mols": case["mols"], "hists": [(0, case["history"])]}))
        (hid, bad, _), = _hist_chunk((str(f),))
        print("replayed:", "still failing at operation %d: %s" % (bad[0] + 1, bad[1]) if bad else "no violation")
        return 1 if bad else 0
    if case["kind"] == "history trace":
        seed, tr = _hist_trace_one(case["seed"])
        rej = validate_histories(c.Check(PROP, "quick"), [tr], "replay", count=False)
        print("replayed:", "still rejected at operation %d" % (rej[0] + 1) if rej else "accepted now")
        return 1 if rej else 0
    if case["kind"] == "gen_coords":
        idx, status, what = _gc_one((case["variant"], case["case"], 1))
        print("replayed:", status, what)
        return 1 if status == "violation" else 0
    job, rec = _observe_one(case["job"])
    if rec.get("harness_error"):
        print(rec["harness_error"])
        return 2
    if not rec["accepted"]:
        print("replayed: input not accepted:", rec["exception"])
        return 0
    if rec["exception"] or not rec["written"] or rec.get("read_error"):
        print("replayed: still failing:", rec["exception"] or rec.get("read_error") or "no file")
        return 1
    ck = c.Check(PROP, "quick")
    rejected, flagged = validate(ck, [{k: rec.get(k) for k in SLIM}], "replay", c.known_sigs(PROP), expect_reject=True)
    print("replayed:", ("rejected: " + STAGES.get(rejected[0], "")) if rejected else ("known finding %s" % flagged[0] if flagged else "accepted now"))
    return 1 if rejected else 0
