"""X02 - extension beyond the listed properties (DESIGN 9 item 6): library loading and definition precedence.

spec/LoadLib.tla (P-layer: effective definition = last in loading order, links accumulate, citations / templates of the last file;
I-layer: Open / New / Fin / Close / ReadBib / BldSec / BldClose), LoadLibMC (pools, every listing order), LoadLibExport, LoadLibTrace.

S->I : every configuration of the pools (user file sequences x library sequences x every os.listdir order) is rendered as real user
       files and real library directories under a temporary DATA path, loaded with the real load_ff_library / load_build_files
       (listing order scripted), the store projected after every observable loader step (parser opened / context created /
       finalize_section / parser returned) and compared with the exported history; a subset also through gen_params.
I->S : random file sets beyond the bound and the shipped libraries of polyply/data (alone, in pairs, shuffled listings, with a user
       file overriding a library block); abstract file contents of shipped files are taken from loading each file alone; the
       recorded loader events are validated by LoadLibTrace.  -list-lib / -list-blocks of the command line are compared with the
       validated stores.
Expectations TLC refutes on the loaders as they are (user definitions overridden by library ones, citations and templates of
earlier files dropped, dependence on the listing order) are reported as notes, not as violations.
"""
import json
import os
import random
import re
import subprocess
import sys
from pathlib import Path

from .. import common as c

PROP = "X02"
SIG_IDREUSE = "itp-finalize-id-reuse"
GRAPHS = {"g1": ("c1", "c2"), "g2": ("c1", "c3"), "g3": ("c1", "c4"), "g4": ("c2", "c3")}


# =========================================================================== rendering abstract files as text

def par(d):
    return "%.3f" % (d / 1000.0)


def render_file(f):
    out = []
    k = f["kind"]
    if k == "ff":
        for s in f["secs"]:
            if s["t"] == "block":
                out += ["[ moleculetype ]", "%s 1" % s["n"], "[ atoms ]", "1 T1 1 %s c1 1 0.0 10" % s["n"], "2 T2 1 %s c2 2 0.0 10" % s["n"],
                        "[ bonds ]", "c1 c2 1 %s 7" % par(s["d"])]
            elif s["t"] == "link":
                out += ["[ link ]", 'resname "%s"' % s["n"], "[ bonds ]", "c2 +c1 1 %s 7" % par(s["d"])]
            elif s["t"] == "mod":
                out += ["[ modification ]", s["n"], "[ atoms ]", 'c1 {"replace": {"atype": "Q%d"}}' % s["d"]]
            else:
                out += ["[ citations ]", "ref%d" % s["d"]]
    elif k == "itp":
        for s in f["secs"]:
            if s["t"] == "block":
                out += ["[ moleculetype ]", "%s 1" % s["n"], "[ atoms ]", "1 T1 1 %s c1 1 0.0 10" % s["n"], "2 T2 1 %s c2 2 0.0 10" % s["n"],
                        "[ bonds ]", "1 2 1 %s 7" % par(s["d"])]
                if s["dang"]:
                    out.append("2 3 1 %s 7" % par(s["d"]))
            else:
                out += ["[ citations ]", "ref%d" % s["d"]]
    elif k == "bib":
        for s in f["secs"]:
            out += ["@article{%s," % s["n"], "  title={T%d}," % s["d"], "  author={Doe, J},", "  year={2020}", "}", ""]
    elif k == "bld":
        for s in f["secs"]:
            if s["t"] == "tmpl":
                a, b = GRAPHS[s["g"]]
                out += ["[ template ]", "resname %s" % s["n"], "[ atoms ]", "%s T1 0.000 0.000 0.000" % a, "%s T1 %s 0.000 0.000" % (b, par(s["d"])),
                        "[ bonds ]", "%s %s" % (a, b)]
            else:
                out += ["[ volumes ]", "%s %s" % (s["n"], par(s["d"]))]
    else:
        out += ["not a polyply file"]
    return "\n".join(out) + "\n"


TOP = """[ defaults ]
1 1 no 1.0 1.0
[ atomtypes ]
T1 72.0 0.0 A 0.47 3.5
T2 72.0 0.0 A 0.47 3.5
[ moleculetype ]
M 1
[ atoms ]
1 T1 1 A c1 1 0.0 72
2 T2 1 A c2 1 0.0 72
3 T1 2 B c1 2 0.0 72
4 T2 2 B c3 2 0.0 72
[ bonds ]
1 2 1 0.3 100
2 3 1 0.3 100
3 4 1 0.3 100
[ system ]
x
[ molecules ]
M 2
"""


def materialise(cfg, wd):
    """write the configuration below wd: user files wd/user/<name>, libraries wd/data/L<i>/<name>.  Returns (user paths, lib names, listing)."""
    wd = Path(wd)
    (wd / "user").mkdir(parents=True, exist_ok=True)
    (wd / "data").mkdir(parents=True, exist_ok=True)
    users = []
    for f in cfg["user"]:
        p = wd / "user" / f["name"]
        p.write_text(render_file(f))
        users.append(p)
    libs, listing = [], {}
    for i, lib in enumerate(cfg["libs"]):
        name = "L%d" % (i + 1)
        d = wd / "data" / name
        d.mkdir(exist_ok=True)
        for f in lib:
            (d / f["name"]).write_text(render_file(f))
        libs.append(name)
        listing[str(d)] = [f["name"] for f in lib]
    return users, libs, listing


# =========================================================================== recorder (interposition from the harness)

class OsShim:
    """stands in for the `os` module inside polyply.src.load_library: scripts / records os.listdir"""

    def __init__(self, listing=None, log=None):
        self._listing, self._log = listing or {}, log

    def __getattr__(self, k):
        return getattr(os, k)

    def listdir(self, d):
        real = os.listdir(d)
        want = self._listing.get(str(d))
        res = real
        if want is not None:
            if sorted(want) != sorted(real):
                raise c.MachineryError("scripted listing %s does not match directory %s" % (want, real))
            res = list(want)
        if self._log is not None:
            self._log.append((str(d), list(res)))
        return res


class Recorder:
    """records the observable loader steps and projects the store after each of them"""

    def __init__(self, mode, project, data_path, listing=None, names=None):
        from polyply.src import load_library as ll
        from polyply.src.ff_parser_sub import PolyplyFFParser
        from polyply.src.polyply_parser import PolyplyParser
        self.ll, self.FF, self.ITP = ll, PolyplyFFParser, PolyplyParser
        self.mode, self.project = mode, project
        self.data_path, self.listing = data_path, listing
        self.names = names or (lambda p: Path(p).name)
        self.events = []
        self.listed = []
        self.store = None
        self.curfile = None
        self.fileidx = -1
        self.nctx = 0
        self.saved = []

    # ---- helpers
    def emit(self, op, **kw):
        ev = {"op": op, "file": self.curfile}
        ev.update(kw)
        ev["st"] = self.project(self)
        self.events.append(ev)

    def _patch(self, obj, name, new):
        self.saved.append((obj, name, obj.__dict__.get(name, None) if isinstance(obj, type) else getattr(obj, name), isinstance(obj, type) and name not in obj.__dict__))
        setattr(obj, name, new)

    def install(self):
        ll, rec = self.ll, self
        self._patch(ll, "DATA_PATH", Path(self.data_path))
        self._patch(ll, "os", OsShim(self.listing, self.listed))
        orig_get = ll.get_parser

        def get_parser(path, parsers, is_lib):
            rec.curfile = rec.names(path)
            try:
                p = orig_get(path, parsers, is_lib)
            except Exception:
                rec.emit("error")
                raise
            if not p:
                rec.fileidx += 1
                rec.emit("skip")
                return p

            def run(lines, storage):
                rec.store = storage
                rec.fileidx += 1
                rec.nctx = 0
                rec.emit("open")
                r = p(lines, storage)
                rec.emit("end")
                return r
            return run
        self._patch(ll, "get_parser", get_parser)
        for cls in (self.FF, self.ITP):
            base_fin = cls.finalize_section

            def fin(director, prev, ended, _b=base_fin, _c=cls):
                r = _b(director, prev, ended)
                if len(director.section or []) <= 1:
                    rec.emit("fin")
                return r
            self._patch(cls, "finalize_section", fin)
            for meth, attr in (("_new_block", "current_block"), ("_new_link", "current_link"), ("_new_modification", "current_modification")):
                if not hasattr(cls, meth):
                    continue
                base = getattr(cls, meth)

                def new(director, _b=base, _a=attr):
                    r = _b(director)
                    obj = getattr(director, _a)
                    rec.nctx += 1
                    try:
                        obj._x02 = (rec.fileidx, rec.nctx)
                    except Exception:
                        pass
                    rec.emit("new")
                    return r
                self._patch(cls, meth, new)
        return self

    def uninstall(self):
        for obj, name, old, absent in reversed(self.saved):
            if absent:
                delattr(obj, name)
            else:
                setattr(obj, name, old)
        self.saved = []


def _d_of_param(x):
    try:
        return int(round(float(x) * 1000))
    except Exception:
        return -1


def project_ff_synthetic(rec):
    """store -> abstract: definition ids are encoded in the parameters of the rendered definitions"""
    ff = rec.store
    if ff is None:
        return EMPTY
    blocks = []
    for name, b in ff.blocks.items():
        bonds = b.interactions.get("bonds", [])
        blocks.append({"n": str(name), "d": _d_of_param(bonds[0].parameters[1]) if bonds else -1})
    links = []
    for l in ff.links:
        bonds = l.interactions.get("bonds", [])
        links.append(_d_of_param(bonds[0].parameters[1]) if bonds else -1)
    mods = []
    for name, m in ff.modifications.items():
        try:
            mods.append({"n": str(name), "d": int(str(m.nodes["c1"]["replace"]["atype"])[1:])})
        except Exception:
            mods.append({"n": str(name), "d": -1})
    cites = []
    for key, ent in (ff.citations or {}).items():
        try:
            cites.append({"n": str(key), "d": int(str(ent.get("title", "T-1"))[1:])})
        except Exception:
            cites.append({"n": str(key), "d": -1})
    cites.sort(key=lambda e: e["d"])
    return {"blocks": blocks, "links": links, "mods": mods, "cites": cites, "volR": [], "volG": [], "tmpl": [], "err": False}


EMPTY = {"blocks": [], "links": [], "mods": [], "cites": [], "volR": [], "volG": [], "tmpl": [], "err": False}


class BldCalib:
    """graph hash <-> g and computed volume <-> template definition id, measured by loading single templates with the real parser"""

    def __init__(self, wd, tmpl_defs):
        from polyply.src.topology import Topology
        from polyply.src.build_file_parser import read_build_file
        self.top = Path(wd) / "calib.top"
        self.top.write_text(TOP)
        self.hash_of, self.g_of, self.vol_of = {}, {}, {}
        for g, d in sorted(tmpl_defs):
            t = Topology.from_gmx_topfile(name="t", path=self.top)
            t.preprocess()
            read_build_file(render_file({"kind": "bld", "secs": [{"t": "tmpl", "n": "A", "g": g, "d": d}]}).splitlines(True), t)
            (h, v), = [(k, float(v)) for k, v in t.volumes.items()]
            self.hash_of[g] = h
            self.g_of[h] = g
            self.vol_of[(g, d)] = v


def make_project_bld(calib, vol_ids):
    import numpy as np

    def project(rec):
        t = rec.store
        if t is None:
            return EMPTY
        volR, volG = [], []
        for k, v in t.volumes.items():
            if k in calib.g_of:
                g = calib.g_of[k]
                d = _d_of_param(v)
                if d in vol_ids and abs(float(v) - d / 1000.0) < 1e-12:
                    volG.append({"n": g, "d": d, "named": True})
                else:
                    cand = [dd for (gg, dd), vv in calib.vol_of.items() if gg == g and abs(vv - float(v)) < 1e-9]
                    volG.append({"n": g, "d": cand[0] if len(cand) == 1 else -1, "named": False})
            else:
                volR.append({"n": str(k), "d": _d_of_param(v)})
        tm = getattr(t.molecules[0], "templates", None) if t.molecules else None
        same = all(getattr(m, "templates", None) is tm for m in t.molecules)
        tmpl = []
        for h, coords in (tm or {}).items():
            g = calib.g_of.get(h, "?")
            a, b = GRAPHS.get(g, (None, None))
            try:
                d = int(round(abs(float(coords[b][0]) - float(coords[a][0])) * 1000))
            except Exception:
                d = -1
            tmpl.append({"n": g, "d": d if same else -2})
        return {"blocks": [], "links": [], "mods": [], "cites": [], "volR": volR, "volG": volG, "tmpl": tmpl, "err": False}
    return project


# =========================================================================== running one configuration

def run_config(cfg, wd, calib=None, vol_ids=frozenset()):
    """returns (events, exception text or None)"""
    from polyply.src import load_library as ll
    users, libs, listing = materialise(cfg, wd)
    if cfg["mode"] == "ff":
        rec = Recorder("ff", project_ff_synthetic, Path(wd) / "data", listing).install()
        try:
            try:
                ll.load_ff_library("x", [Path(n) for n in libs], users)
                exc = None
            except c.MachineryError:
                raise
            except Exception as e:
                exc = "%s: %s" % (type(e).__name__, e)
        finally:
            rec.uninstall()
    else:
        from polyply.src.topology import Topology
        top = Path(wd) / "sys.top"
        top.write_text(TOP)
        t = Topology.from_gmx_topfile(name="t", path=top)
        t.preprocess()
        rec = Recorder("bld", make_project_bld(calib, vol_ids), Path(wd) / "data", listing)
        rec.store = t
        rec.install()
        try:
            try:
                ll.load_build_files(t, Path(libs[0]) if libs else None, users)
                exc = None
            except c.MachineryError:
                raise
            except Exception as e:
                exc = "%s: %s" % (type(e).__name__, e)
        finally:
            rec.uninstall()
    return rec.events, exc


SILENT = {"new_other", "bldsec"}


def expected_events(hist):
    out = []
    for h in hist:
        if h["op"] in SILENT:
            continue
        op = "fin" if h["op"] == "finempty" else h["op"]
        st = dict(h["st"])
        out.append({"op": op, "file": h["file"], "st": st})
    return out


def _norm_store(st, mode):
    st = dict(st)
    if mode == "bld":
        # dict order of volumes is not part of the claim
        st["volR"] = sorted(st["volR"], key=lambda e: e["n"])
        st["volG"] = sorted(st["volG"], key=lambda e: e["n"])
        st["tmpl"] = sorted(st["tmpl"], key=lambda e: e["n"])
    return st


def compare_case(case, events, exc):
    mode = case["cfg"]["mode"]
    exp = expected_events(case["hist"])
    for k, e in enumerate(exp):
        if k >= len(events):
            return k, "loader stopped after %d observable steps, specification continues with %s %s" % (len(events), e["op"], e["file"])
        g = events[k]
        if (g["op"], g["file"]) != (e["op"], e["file"]):
            return k, "step %d is %s %s, specification: %s %s" % (k, g["op"], g["file"], e["op"], e["file"])
        if e["op"] == "error":
            continue
        a, b = _norm_store(g["st"], mode), _norm_store(e["st"], mode)
        if mode == "bld" and e["op"] != "end":
            continue            # build files are compared at file ends (sections are internal steps of the model)
        if a != b:
            diff = [key for key in b if a.get(key) != b.get(key)]
            return k, "after %s %s the store differs in %s: observed %s, specification %s" % (
                e["op"], e["file"], diff, {key: a.get(key) for key in diff}, {key: b.get(key) for key in diff})
    if len(events) > len(exp):
        return len(exp), "loader continued with %s %s after the specification's last step" % (events[len(exp)]["op"], events[len(exp)]["file"])
    if bool(exc) != bool(case["exp"]["err"]):
        return len(exp), "loader %s, specification: %s" % ("raised " + exc if exc else "returned", "error" if case["exp"]["err"] else "no error")
    return None


def _replay_chunk(arg):
    wd, items, tmpl_defs, vol_ids = arg
    bad = []
    calib = None
    for ci, case in items:
        d = Path(wd) / ("c%d" % ci)
        try:
            if case["cfg"]["mode"] == "bld" and calib is None:
                calib = BldCalib(wd, tmpl_defs)
            events, exc = run_config(case["cfg"], d, calib, frozenset(vol_ids))
        except c.MachineryError:
            raise
        except Exception as e:          # the harness's own projection must not hide a misbehaving loader
            bad.append((ci, 0, "harness could not observe the run: %s: %s" % (type(e).__name__, e), None, None))
            continue
        r = compare_case(case, events, exc)
        if r:
            bad.append((ci, r[0], r[1], events[:r[0] + 1][-3:], to_trace(case["cfg"], events, exc)))
    return bad


def describe(cfg):
    return {"mode": cfg["mode"], "user": [f["name"] for f in cfg["user"]], "libs": [[f["name"] for f in lib] for lib in cfg["libs"]]}


def replay_cases(ck, cases, label):
    tmpl_defs = sorted({(s["g"], s["d"]) for k in cases for f in k["cfg"]["user"] + [x for lib in k["cfg"]["libs"] for x in lib]
                        for s in f["secs"] if s["t"] == "tmpl"})
    vol_ids = sorted({s["d"] for k in cases for f in k["cfg"]["user"] + [x for lib in k["cfg"]["libs"] for x in lib] for s in f["secs"] if s["t"] == "vol"})
    wd = c.workdir(PROP, "replay_" + label)
    parts = []
    for i, ch in enumerate(c.chunks(list(enumerate(cases)), c.NPROC * 3)):
        d = wd / str(i)
        d.mkdir(exist_ok=True)
        parts.append((str(d), ch, tmpl_defs, vol_ids))
    nbad = 0
    allbad = [b for bad in c.pmap(_replay_chunk, parts) for b in bad]
    # a diverging run may be the recorded finding itp-finalize-id-reuse: exact classification by the trace specification with the deviation
    cand = [b for b in allbad if b[4] is not None and cases[b[0]].get("idrisk")]
    known = set()
    if cand and SIG_IDREUSE in ck._known:
        res2, rej2 = _tlc_traces([b[4] for b in cand], "replay_classify_" + label, True)
        ck.add_tlc(res2)
        known = {b[0] for k, b in enumerate(cand, 1) if k not in rej2}
    for bad in [allbad]:
        for ci, k, why, tail, _tr in bad:
            if ci in known:
                ck.violation({"kind": "S->I replay", "cfg": cases[ci]["cfg"]}, sig=SIG_IDREUSE,
                             what="%s: a dangling .itp block was passed over by finalize" % json.dumps(describe(cases[ci]["cfg"])))
                continue
            nbad += 1
            ck.violation({"kind": "S->I replay", "cfg": cases[ci]["cfg"], "hist": cases[ci]["hist"], "exp": cases[ci]["exp"], "step": k, "observed_tail": tail},
                         what="%s %s: %s" % (label, json.dumps(describe(cases[ci]["cfg"])), why))
    ck.replayed += len(cases)
    for k in cases:
        ck.evaluations += len(k["hist"])
        ck.nontrivial.add(json.dumps(describe(k["cfg"]), sort_keys=True))
        for h in k["hist"]:
            ck.actions[h["op"]] = ck.actions.get(h["op"], 0) + 1
    return nbad


# --------------------------------------------------------------------------- gen_params on a subset

def _genparams_chunk(arg):
    wd, items = arg
    from polyply.src.gen_itp import gen_params
    from polyply.src import load_library as ll
    from vermouth.file_writer import DeferredFileWriter
    bad = []
    for ci, case in items:
        d = Path(wd) / ("g%d" % ci)
        users, libs, listing = materialise(case["cfg"], d)
        saved = (ll.DATA_PATH, ll.os)
        ll.DATA_PATH, ll.os = d / "data", OsShim(listing)
        out = d / "out.itp"
        try:
            gen_params(name="p", outpath=out, inpath=users, lib=[Path(n) for n in libs], seq=["A:2"])
            text = out.read_text()
        except Exception as e:
            bad.append((ci, "gen_params raised %s: %s" % (type(e).__name__, e)))
            try:
                DeferredFileWriter().close()
            except Exception:
                pass
            continue
        finally:
            ll.DATA_PATH, ll.os = saved
        m = re.search(r"\[ bonds \](.*?)(\n\[|\Z)", text, re.S)
        bonds = {}
        for line in (m.group(1) if m else "").splitlines():
            tok = line.split(";")[0].split()
            if len(tok) >= 4 and tok[0].isdigit():
                bonds[tuple(sorted((int(tok[0]), int(tok[1]))))] = _d_of_param(tok[3])
        want = {(1, 2): case["exp"]["effblock"]["A"], (3, 4): case["exp"]["effblock"]["A"]}
        if case["exp"]["lastlink"]["A"]:
            want[(2, 3)] = case["exp"]["lastlink"]["A"]
        if bonds != want:
            bad.append((ci, "bonds of A:2 carry definition ids %s, specification %s (block = last definition of A, link = last link for A)" % (
                {"%d-%d" % k: v for k, v in sorted(bonds.items())}, {"%d-%d" % k: v for k, v in sorted(want.items())})))
    return bad


def genparams_subset(ck, cases, n, sd):
    # force fields without modifications: gen_params looks up the modifications N-ter / C-ter in any force field that has
    # modifications (KeyError otherwise, whatever the residue names; side observation in notes/findings_proposed/X02-*.md)
    pool = [k for k in cases if k["cfg"]["mode"] == "ff" and not k["exp"]["err"] and k["exp"]["effblock"]["A"] > 0 and not k["hist"][-1]["st"]["mods"]
            and not (k.get("idrisk") and SIG_IDREUSE in ck._known)]
    rng = random.Random(sd)
    pick = rng.sample(pool, min(n, len(pool)))
    wd = c.workdir(PROP, "genparams")
    parts = []
    for i, ch in enumerate(c.chunks(list(enumerate(pick)), c.NPROC * 2)):
        d = wd / str(i)
        d.mkdir(exist_ok=True)
        parts.append((str(d), ch))
    for bad in c.pmap(_genparams_chunk, parts):
        for ci, why in bad:
            ck.violation({"kind": "gen_params", "cfg": pick[ci]["cfg"], "exp": pick[ci]["exp"]},
                         what="gen_params -lib/-f %s: %s" % (json.dumps(describe(pick[ci]["cfg"])), why))
    ck.replayed += len(pick)
    ck.evaluations += len(pick)
    with_link = sum(1 for k in pick if k["exp"]["lastlink"]["A"])
    ck.extra["gen_params_cases"] = {"run": len(pick), "with_link_for_A": with_link}
    return len(pick)


# =========================================================================== I -> S: random file sets

def random_config(rng):
    """beyond the exhaustive bound: up to 3 libraries x 4 files, up to 4 user files, names A-D, up to 5 sections per file"""
    counter = [100]

    def nd():
        counter[0] += 1
        return counter[0]
    names = ["A", "B", "C", "D"]
    mode = "ff" if rng.random() < 0.7 else "bld"

    def sec(t, n, dang=False, g=""):
        return {"t": t, "n": n, "d": nd(), "dang": dang, "g": g}

    def mkfile(name, user):
        r = rng.random()
        if mode == "ff":
            kind = "ff" if r < 0.45 else "itp" if r < 0.75 else "bib" if r < 0.9 else rng.choice(["txt", "bld"])
        else:
            kind = "bld" if r < 0.8 else rng.choice(["ff", "txt"])
        if user and kind in ("txt",) and rng.random() < 0.7:
            kind = "ff" if mode == "ff" else "bld"
        secs = []
        ns = rng.randint(0, 5)
        if kind == "ff":
            for _ in range(ns):
                t = rng.choice(["block", "block", "link", "link", "mod", "other"])
                secs.append(sec(t, rng.choice(["X", "Y"]) if t == "mod" else "citations" if t == "other" else rng.choice(names)))
        elif kind == "itp":
            for _ in range(ns):
                secs.append(sec("block", rng.choice(names), dang=rng.random() < 0.5))
        elif kind == "bib":
            keys = rng.sample(["k1", "k2", "k3", "k4"], rng.randint(0, 3))
            secs = [sec("cite", k) for k in keys]
        elif kind == "bld":
            for _ in range(ns):
                if rng.random() < 0.5:
                    secs.append(sec("tmpl", rng.choice(["A", "B"]), g=rng.choice(sorted(GRAPHS))))
                else:
                    secs.append(sec("vol", rng.choice(["A", "B"])))
        return {"name": "%s.%s" % (name, kind), "kind": kind, "user": user, "secs": secs}
    user = [mkfile("u%d" % i, True) for i in range(rng.randint(0, 4))]
    nlib = rng.randint(0, 3) if mode == "ff" else rng.randint(0, 1)
    libs = []
    for li in range(nlib):
        fs = [mkfile("l%d_%d" % (li, i), False) for i in range(rng.randint(1, 4))]
        rng.shuffle(fs)
        libs.append(fs)
    return {"mode": mode, "user": user, "libs": libs}


def stress_config(rng, k):
    """regression scenario for the repaired finding itp-finalize-id-reuse (F34): a second .itp file replaces every block of the
    first one and defines many new dangling blocks in between, so that freed block objects are very likely to be re-allocated"""
    d = [100]

    def sec(n, dang):
        d[0] += 1
        return {"t": "block", "n": n, "d": d[0], "dang": dang, "g": ""}
    old = ["O%d" % i for i in range(rng.randint(2, 4))]
    f1 = {"name": "s1.itp", "kind": "itp", "user": True, "secs": [sec(n, rng.random() < 0.5) for n in old]}
    secs = []
    for i, n in enumerate(old):
        secs.append(sec(n, rng.random() < 0.5))
        for j in range(rng.randint(3, 8)):
            secs.append(sec("N%d_%d_%d" % (k % 7, i, j), True))
    f2 = {"name": "s2.itp", "kind": "itp", "user": rng.random() < 0.5, "secs": secs}
    if f2["user"]:
        return {"mode": "ff", "user": [f1, f2], "libs": []}
    return {"mode": "ff", "user": [f1], "libs": [[f2]]}


def _random_chunk(arg):
    wd, items = arg
    out = []
    calibs = {}
    for i, cfg in items:
        allf = cfg["user"] + [f for lib in cfg["libs"] for f in lib]
        calib, vol_ids = None, frozenset(s["d"] for f in allf for s in f["secs"] if s["t"] == "vol")
        try:
            if cfg["mode"] == "bld":
                calib = BldCalib(wd, sorted({(s["g"], s["d"]) for f in allf for s in f["secs"] if s["t"] == "tmpl"}))
            events, exc = run_config(cfg, Path(wd) / ("r%d" % i), calib, vol_ids)
        except c.MachineryError:
            raise
        except Exception as e:
            events, exc = [{"op": "error", "file": "?", "st": EMPTY}], "harness could not observe the run: %s: %s" % (type(e).__name__, e)
        out.append((i, events, exc))
    return out


def to_trace(cfg, events, exc, full=True):
    evs = []
    for e in events:
        st = _norm_trace_store(e["st"], cfg["mode"])
        evs.append({"op": e["op"], "file": e["file"], "full": bool(e.get("full", full)), "st": st,
                    "sum": {"nb": len(st["blocks"]), "nl": len(st["links"]), "nm": len(st["mods"])}})
    return {"cfg": cfg, "events": evs, "raised": bool(exc)}


def _norm_trace_store(st, mode):
    return st


# =========================================================================== I -> S: the shipped libraries

def data_dir():
    import polyply
    return Path(polyply.__file__).resolve().parent / "data"


def repo_root():
    import polyply
    return Path(polyply.__file__).resolve().parents[1]


def _fp_tag(obj, default=-1):
    t = getattr(obj, "_x02", None)
    return t


class RealIds:
    """definition ids of shipped files: (file name, k-th context created while parsing it) -> d"""

    def __init__(self):
        self.ids = {}
        self.next = 1

    def get(self, key):
        if key not in self.ids:
            self.ids[key] = self.next
            self.next += 1
        return self.ids[key]


def solo_abstract(path, ids, user=False):
    """load one shipped file alone with the real parser and read off its abstract content (sequence of top-level sections)"""
    import vermouth
    from polyply.src import load_library as ll
    kind = path.suffix[1:]
    name = "%s/%s" % (path.parent.name, path.name)
    if kind not in ("ff", "itp", "bib"):
        return {"name": name, "kind": kind if kind in ("bld",) else "txt", "user": user, "secs": []}
    stream = []

    def project(rec):
        return EMPTY
    rec = Recorder("ff", project, data_dir()).install()
    orig_emit = rec.emit

    def emit(op, **kw):
        stream.append((op, rec.nctx))
    rec.emit = emit
    try:
        ff = ll.load_ff_library("solo", None, [path])
    finally:
        rec.uninstall()
    if kind == "bib":
        return {"name": name, "kind": "bib", "user": user,
                "secs": [{"t": "cite", "n": str(k), "d": ids.get((name, "cite", str(k))), "dang": False, "g": ""} for k in ff.citations]}
    # objects by creation index
    by_idx = {}
    for b in ff.blocks.values():
        if getattr(b, "_x02", None):
            by_idx[b._x02[1]] = ("block", str(b.name))
    for l in ff.links:
        if getattr(l, "_x02", None):
            by_idx[l._x02[1]] = ("link", "")
    for m in ff.modifications.values():
        if getattr(m, "_x02", None):
            by_idx[m._x02[1]] = ("mod", str(m.name))
    gen = {str(l.name) for l in ff.links if not getattr(l, "_x02", None)}
    secs, pending = [], None
    for op, nctx in stream:
        if op == "new":
            pending = nctx
        elif op == "fin":
            if pending is None:
                secs.append({"t": "other", "n": "other", "d": ids.get((name, "other", len(secs))), "dang": False, "g": ""})
            else:
                t, n = by_idx.get(pending, ("block", "?overwritten%d" % pending))
                secs.append({"t": t, "n": n, "d": ids.get((name, pending)), "dang": False, "g": ""})
            pending = None
    # a block that was replaced by a later block of the same name in the same file is not in the store any more: its name is that of
    # the later one only if the parser says so; recover names of overwritten blocks from the text order of [ moleculetype ] names
    if any(s["n"].startswith("?overwritten") for s in secs):
        names = re.findall(r"^\s*\[\s*moleculetype\s*\]\s*\n(?:\s*;.*\n)*\s*(\S+)", path.read_text(), re.M)
        bl = [s for s in secs if s["t"] == "block"]
        if len(names) == len(bl):
            for s, n in zip(bl, names):
                s["n"] = n
    if kind == "itp":
        last = {}
        for s in secs:
            if s["t"] == "block":
                last[s["n"]] = s
        for n in gen:
            if n in last:
                last[n]["dang"] = True
    return {"name": name, "kind": kind, "user": user, "secs": secs}


def project_ff_real(ids, namer):
    def project(rec):
        ff = rec.store
        if ff is None:
            return EMPTY
        files = rec.filenames

        def d_of(obj):
            t = getattr(obj, "_x02", None)
            if not t:
                return None
            return ids.get((files[t[0]], t[1]))
        blocks = [{"n": str(n), "d": d_of(b) or -1} for n, b in ff.blocks.items()]
        links = []
        bd = {str(n): d_of(b) or -1 for n, b in ff.blocks.items()}
        for l in ff.links:
            d = d_of(l)
            if d is None:
                # generated from the dangling interactions of the block of this name: the block's id at the time it was generated
                g = getattr(l, "_x02gen", None)
                if g is None:
                    g = bd.get(str(l.name), -1)
                    try:
                        l._x02gen = g
                    except Exception:
                        pass
                if links and links[-1] == g:
                    continue        # several dangling interactions of one block: one abstract link
                links.append(g)
            else:
                links.append(d)
        mods = [{"n": str(n), "d": d_of(m) or -1} for n, m in ff.modifications.items()]
        cites = sorted(({"n": str(k), "d": ids.get((rec.bibfile.get(id(ff.citations), "?"), "cite", str(k)))} for k in (ff.citations or {})), key=lambda e: e["d"])
        return {"blocks": blocks, "links": links, "mods": mods, "cites": cites, "volR": [], "volG": [], "tmpl": [], "err": False}
    return project


def run_real(libs, users, listing, ids, namer):
    """combined load of shipped libraries (+ user files) with the recorder; full store at file ends, counts at section steps"""
    from polyply.src import load_library as ll
    rec = Recorder("ff", None, data_dir(), listing, names=namer)
    rec.filenames = {}
    rec.bibfile = {}
    proj = project_ff_real(ids, namer)
    cache = {"st": EMPTY}

    def project(r):
        return cache["st"]
    rec.project = project
    orig_emit = rec.emit

    def emit(op, **kw):
        if op in ("open", "skip"):
            rec.filenames[rec.fileidx] = rec.curfile
        if op == "end" and rec.store is not None and rec.curfile.endswith(".bib"):
            rec.bibfile[id(rec.store.citations)] = rec.curfile
        full = op in ("open", "end", "skip", "error")
        if full:
            cache["st"] = proj(rec)
            orig_emit(op, full=True)
        else:
            ff = rec.store
            st = {"blocks": [], "links": [], "mods": [], "cites": [], "volR": [], "volG": [], "tmpl": [], "err": False}
            cache["st"] = st
            orig_emit(op, full=False)
            # counts of the real store (duplicates of generated links cannot occur before the end of an .itp file)
            rec.events[-1]["sum"] = {"nb": len(ff.blocks), "nl": None, "nm": len(ff.modifications)}
    rec.emit = emit
    rec.install()
    try:
        try:
            ff = ll.load_ff_library("real", [Path(n) for n in libs], users)
            exc = None
        except c.MachineryError:
            raise
        except Exception as e:
            ff, exc = None, "%s: %s" % (type(e).__name__, e)
    finally:
        rec.uninstall()
    return rec, ff, exc


# =========================================================================== trace validation

def _tlc_traces(traces, name, idreuse):
    wd = c.workdir(PROP, name)
    f = wd / "traces.json"
    f.write_text(json.dumps({"idreuse": bool(idreuse), "traces": traces}))
    res = c.tlc("LoadLibTrace", "Ll_trace_dev.cfg" if idreuse else "Ll_trace.cfg", workers=1, env={"TRACE_FILE": str(f)}, check=False, timeout=1200)
    rej = res.tagged("REJECTED")
    if res.rc != 0 and not rej:
        raise c.MachineryError("LoadLibTrace failed: %s" % res.out[-3000:])
    rejected = {}
    for r in rej:
        rejected.update({int(t): int(m) for t, m in r})
    return res, rejected


def validate(ck, traces, name, expect_reject=False, info=None):
    """pass 1: the loaders as intended.  Traces rejected there are validated again against the I-layer with the deviation of the
    recorded finding itp-finalize-id-reuse (while it is listed as known): accepted there = exactly that finding."""
    res, rejected = _tlc_traces(traces, name, False)
    if expect_reject:
        return rejected
    ck.add_tlc(res)
    if rejected and SIG_IDREUSE in ck._known:
        tids = sorted(rejected)
        res2, rej2 = _tlc_traces([traces[t - 1] for t in tids], name + "_dev", True)
        ck.add_tlc(res2)
        for k, t in enumerate(tids, 1):
            if k not in rej2:
                del rejected[t]
                tr = traces[t - 1]
                ck.violation({"kind": "I->S trace", "cfg": tr["cfg"]}, sig=SIG_IDREUSE,
                             what="load %s: a dangling .itp block was passed over by finalize (accepted only with DevIdReuse)" % json.dumps(describe(tr["cfg"]))[:300])
    ck.traces += len(traces) - len(rejected)
    for tid, matched in sorted(rejected.items()):
        tr = traces[tid - 1]
        nxt = tr["events"][matched] if matched < len(tr["events"]) else None
        ck.violation({"kind": "I->S trace", "what": (info or {}).get(tid - 1, ""), "cfg": tr["cfg"], "events": tr["events"][:matched + 1], "matched_events": matched},
                     what="recorded load %s %s rejected by LoadLib after %d matched steps; next step %s" % (
                         (info or {}).get(tid - 1, ""), json.dumps(describe(tr["cfg"]))[:300], matched,
                         json.dumps({k: nxt[k] for k in ("op", "file", "sum")} if nxt else None)[:300]))
    return rejected


# =========================================================================== entry points

def cli(args):
    exe = repo_root() / "bin" / "polyply"
    env = dict(os.environ)
    env["PYTHONPATH"] = str(repo_root()) + os.pathsep + env.get("PYTHONPATH", "")
    p = subprocess.run([sys.executable, str(exe)] + args, capture_output=True, text=True, env=env, timeout=300)
    return p.returncode, p.stdout, p.stderr


def shipped(ck, sd, quick):
    """the libraries of polyply/data: every one loads, the validated stores explain -list-lib / -list-blocks"""
    from polyply.src import load_library as ll
    dd = data_dir()
    ids = RealIds()
    namer = lambda p: "%s/%s" % (Path(p).parent.name, Path(p).name)
    libs = sorted(x for x in os.listdir(dd) if not x.startswith("__") and (dd / x).is_dir())
    abstract = {}
    problems = []
    for lib in libs:
        for fn in sorted(os.listdir(dd / lib)):
            try:
                abstract[(lib, fn)] = solo_abstract(dd / lib / fn, ids)
            except c.MachineryError:
                raise
            except Exception as e:
                problems.append((lib, fn, "%s: %s" % (type(e).__name__, e)))
                ck.violation({"kind": "shipped file", "lib": lib, "file": fn, "error": str(e)},
                             what="shipped library file %s/%s does not load on its own: %s: %s" % (lib, fn, type(e).__name__, e))
    if problems:
        return
    rng = random.Random(sd)
    # a user file that redefines one block of a library (rendered from the abstract form; the block name is a real one)
    plans = []
    for lib in libs:
        plans.append(([lib], [], None))
    for lib in libs[: (3 if quick else len(libs))]:
        order = sorted(os.listdir(dd / lib))
        rng.shuffle(order)
        plans.append(([lib], [], {str(dd / lib): order}))
    pairs = [(a, b) for a in libs for b in libs if a != b]
    for a, b in rng.sample(pairs, 3 if quick else 12):
        plans.append(([a, b], [], None))
    wd = c.workdir(PROP, "shipped")
    for lib in (["martini3", "2016H66"] if quick else libs):
        if lib not in libs:
            continue
        names = [s["n"] for (l, fn), f in sorted(abstract.items()) if l == lib for s in f["secs"] if s["t"] == "block"]
        if not names:
            continue
        n = rng.choice(names)
        uf = {"name": "user/over_%s.ff" % lib, "kind": "ff", "user": True,
              "secs": [{"t": "block", "n": n, "d": ids.get(("user/over_%s.ff" % lib, 1)), "dang": False, "g": ""},
                       {"t": "link", "n": "", "d": ids.get(("user/over_%s.ff" % lib, 2)), "dang": False, "g": ""}]}
        p = wd / "user" / ("over_%s.ff" % lib)
        p.parent.mkdir(parents=True, exist_ok=True)
        p.write_text(render_file({"kind": "ff", "secs": [dict(uf["secs"][0]), dict(uf["secs"][1], n=n)]}))
        abstract[("user", "over_%s.ff" % lib)] = uf
        plans.append(([lib], [p], None))
    traces, info, stores = [], {}, {}
    nblocks = 0
    for libsel, users, listing in plans:
        rec, ff, exc = run_real(libsel, users, listing, ids, namer)
        if exc:
            ck.violation({"kind": "shipped load", "libs": libsel, "error": exc}, what="loading the shipped libraries %s raised %s" % (libsel, exc))
            continue
        listed = dict(rec.listed)
        cfg = {"mode": "ff", "user": [abstract[("user", Path(u).name)] for u in users],
               "libs": [[abstract[(lib, fn)] for fn in listed[str(dd / lib)]] for lib in libsel]}
        evs = []
        for e in rec.events:
            st = e["st"]
            evs.append({"op": e["op"], "file": e["file"], "full": bool(e.get("full", True)), "st": st,
                        "sum": {"nb": e.get("sum", {}).get("nb", len(st["blocks"])), "nl": 0, "nm": e.get("sum", {}).get("nm", len(st["mods"]))}})
        info[len(traces)] = "libraries %s%s%s" % (libsel, " + user file" if users else "", " (shuffled listing)" if listing else "")
        traces.append({"cfg": cfg, "events": evs, "raised": False})
        if not users and not listing and len(libsel) == 1:
            stores[libsel[0]] = [str(n) for n in ff.blocks]
        nblocks += len(ff.blocks)
        ck.nontrivial.add("shipped:%s:%s:%s" % (libsel, bool(users), bool(listing)))
    ck.evaluations += sum(len(t["events"]) for t in traces)
    ck.stage("shipped libraries: validate %d loads (%d steps)" % (len(traces), sum(len(t["events"]) for t in traces)))
    validate(ck, traces, "shipped_traces", info=info)
    # which libraries define a name in two files (then the listing order of the operating system decides)
    amb = {}
    for lib in libs:
        seen = {}
        for (l, fn), f in sorted(abstract.items()):
            if l != lib:
                continue
            for s in f["secs"]:
                if s["t"] in ("block", "mod"):
                    seen.setdefault((s["t"], s["n"]), set()).add(fn)
        dup = {"%s %s" % k: sorted(v) for k, v in seen.items() if len(v) > 1}
        nbib = sum(1 for (l, fn) in abstract if l == lib and fn.endswith(".bib"))
        if dup or nbib > 1:
            amb[lib] = {"names_in_two_files": dup, "bib_files": nbib}
    ck.extra["shipped"] = {"libraries": libs, "files": len([k for k in abstract if k[0] != "user"]), "loads_validated": len(traces),
                           "blocks_in_stores": nblocks, "listing_order_dependent": amb}
    if amb:
        ck.note("X02: shipped libraries whose result depends on the os.listdir order (a name defined in two files of one library): %s" % json.dumps(amb)[:400])
    # command line
    rc, out, err = cli(["-list-lib"])
    listed = re.findall(r"^\s*\d+\.\s+(\S+)\s*$", out, re.M)
    if rc != 0 or sorted(listed) != libs:
        ck.violation({"kind": "cli", "args": ["-list-lib"], "stdout": out, "stderr": err[-500:], "expected": libs},
                     what="-list-lib prints %s, the data directory holds the libraries %s" % (sorted(listed), libs))
    ck.evaluations += 1
    for lib in (libs[:3] if quick else libs):
        rc, out, err = cli(["-list-blocks", lib])
        got = [l.strip() for l in out.splitlines() if l.strip() and not l.startswith("INFO") and not l.startswith("The following")]
        ck.evaluations += 1
        if rc != 0 or got != stores.get(lib):
            ck.violation({"kind": "cli", "args": ["-list-blocks", lib], "stdout": out[-2000:], "stderr": err[-500:], "expected": stores.get(lib)},
                         what="-list-blocks %s prints %d names, the validated store of that library has %d (%s)" % (
                             lib, len(got), len(stores.get(lib) or []), [x for x in got if x not in (stores.get(lib) or [])][:5]))
    ck.extra["cli"] = {"list_lib": listed, "list_blocks_checked": (libs[:3] if quick else libs)}


def run(tier):
    ck = c.Check(PROP, tier)
    quick = tier == "quick"
    sd = c.seed()
    ck.rule = ("S->I: every configuration of LoadLibMC (force-field mode: user file sequences of length <= 2 over 8 files x {no library, library A, "
               "library B, A+B, B+A} x every listing order; build mode: <= 2 of 6 user files x {no library, library C in every listing order}), "
               "one case per configuration, compared after every observable loader step; distinct = configuration. I->S: random configurations "
               "(<= 4 user files, <= 3 libraries x <= 4 files, names A-D, <= 5 sections per file) and loads of the shipped libraries (alone, "
               "shuffled listing, pairs, with an overriding user file)")
    ck.assumptions = ["os.listdir order is an input (scripted in S->I, recorded in I->S); definitions are identified by ids encoded in a parameter "
                      "of the rendered definition (synthetic files) or by the order in which the parser creates them (shipped files)",
                      "abstract content of a shipped file = the sections the real parser reports when the file is loaded alone; X02 is about "
                      "precedence and accumulation across files and sections, not about the syntax of one definition",
                      "build-file volumes computed from a template are identified by calibration (the same template loaded alone)"]
    ck.stage("TLC: model, expectations, sensitivity, export (concurrently)")
    jobs = [
        ("LoadLibMC", "Ll_small.cfg" if quick else "Ll_full.cfg", {"workers": 3, "coverage": True, "timeout": 3000}),
        ("LoadLibExport", "Ll_export.cfg" if quick else "Ll_export_full.cfg", {"workers": 1, "timeout": 3000}),
        ("LoadLibMC", "Ll_listing_ok.cfg", {"workers": 1}),
        ("LoadLibMC", "Ll_listing_okA.cfg", {"workers": 1}),
        ("LoadLibMC", "Ll_exp_listing.cfg", {"workers": 1, "check": False}),
        ("LoadLibMC", "Ll_exp_listing_bld.cfg", {"workers": 1, "check": False}),
        ("LoadLibMC", "Ll_exp_userwins.cfg", {"workers": 1, "check": False}),
        ("LoadLibMC", "Ll_exp_cites.cfg", {"workers": 1, "check": False}),
        ("LoadLibMC", "Ll_exp_tmpl.cfg", {"workers": 1, "check": False}),
        ("LoadLibMC", "Ll_dev_userlast.cfg", {"workers": 1, "check": False}),
        ("LoadLibMC", "Ll_dev_firstwins.cfg", {"workers": 1, "check": False}),
        ("LoadLibMC", "Ll_dev_bibmerge.cfg", {"workers": 1, "check": False}),
        ("LoadLibMC", "Ll_dev_splitall.cfg", {"workers": 1, "check": False}),
        ("LoadLibMC", "Ll_dev_tmplmerge.cfg", {"workers": 1, "check": False}),
        ("LoadLibMC", "Ll_dev_skipuser.cfg", {"workers": 1, "check": False}),
        ("LoadLibMC", "Ll_dev_idreuse.cfg", {"workers": 1, "check": False}),
    ]
    res = []
    res = c.tlc_many(jobs, workers_each=1)
    small, ex, lok, lokA, e_list, e_listb, e_user, e_cite, e_tmpl, d_ul, d_fw, d_bm, d_sa, d_tm, d_su, d_id = res
    ck.model_must_hold(small, "StoreIsDeclarative / ErrorRule (I-layer = P-layer after every file)")
    cov = small.coverage()
    for act in ("Open", "New", "Fin", "Close", "ReadBib", "BldSec", "BldClose"):
        ck.require(cov.get(act, 0) > 0, "LoadLib action %s never taken (vacuous model)" % act)
    ck.model_must_hold(lok, "listing order irrelevant for a library without repeated names")
    ck.model_must_hold(lokA, "listing order irrelevant when restricted to unambiguous libraries")
    for r, inv, what in ((d_ul, "StoreIsDeclarative", "library files before user files"), (d_fw, "StoreIsDeclarative", "first definition kept"),
                         (d_bm, "StoreIsDeclarative", ".bib entries merged"), (d_sa, "StoreIsDeclarative", "dangling links split again by later .itp files"),
                         (d_tm, "StoreIsDeclarative", "templates accumulate"), (d_su, "ErrorRule", "unknown user file skipped"),
                         (d_id, "StoreIsDeclarative", "finding itp-finalize-id-reuse: dangling block passed over")):
        ck.model_must_refute(r, inv, what)
    for r, inv, what in ((e_list, "ListingOrderIrrelevant", "library A defines block A in two files"), (e_listb, "ListingOrderIrrelevant", "library C: two .bld files"),
                         (e_user, "UserDefinitionWins", "library read after the user files"), (e_cite, "CitationsAccumulate", "read_bib replaces the table"),
                         (e_tmpl, "TemplatesAccumulate", "molecule.templates replaced per build file")):
        ck.model_must_refute(r, inv, "expectation: " + what)
    ck.note("X02 expectations refuted by TLC on the loaders as they are (notes, no listed property is concerned; see notes/findings_proposed/X02-loading-precedence.md): "
            "(1) UserDefinitionWins - user files are read BEFORE the library files, so a library definition replaces the user's definition of the same name; "
            "(2) CitationsAccumulate - read_bib assigns force_field.citations, only the last .bib file read is kept (two libraries: the first library's citations are dropped from the itp header); "
            "(3) TemplatesAccumulate - every build file replaces molecule.templates, templates of earlier -b files (and user templates when the library has a .bld file) are dropped; "
            "(4) ListingOrderIrrelevant - files of a library are read in os.listdir order (not sorted): a name defined in two files of one library resolves differently on different file systems")
    # ---- S->I
    ck.model_must_hold(ex, "LoadLib export")
    cases = ex.cases()
    if len(cases) < 1000:
        raise c.MachineryError("LoadLibExport produced %d cases" % len(cases))
    mid = next(k for k in cases if len(k["cfg"]["libs"]) == 2 and k["cfg"]["user"])
    ck.sample({"S->I configuration": describe(mid["cfg"]), "steps": [[h["op"], h["file"]] for h in mid["hist"]], "final store": mid["hist"][-1]["st"], "P-layer": mid["exp"]})
    ck.extra["configurations_exposed_to_id_reuse"] = sum(1 for k in cases if k.get("idrisk"))
    ck.extra["configurations_exported"] = len(cases)
    if quick:
        # every build-mode and two-library configuration, every configuration exposed to id reuse, a seeded sample of the others
        rq = random.Random(sd)
        keep = [k for k in cases if k["cfg"]["mode"] == "bld" or len(k["cfg"]["libs"]) == 2 or k.get("idrisk")]
        rest = [k for k in cases if not (k["cfg"]["mode"] == "bld" or len(k["cfg"]["libs"]) == 2 or k.get("idrisk"))]
        cases_run = keep + rq.sample(rest, min(len(rest), 500))
    else:
        cases_run = cases
    ck.stage("replay %d of %d configurations" % (len(cases_run), len(cases)))
    replay_cases(ck, cases_run, "export")
    ck.stage("gen_params on a subset")
    genparams_subset(ck, cases, 150 if quick else 1500, sd)
    # ---- I->S random
    ck.stage("random file sets")
    rng = random.Random(sd + 17)
    cfgs = [random_config(rng) for _ in range(150 if quick else 1500)]
    wd = c.workdir(PROP, "random")
    parts = []
    for i, ch in enumerate(c.chunks(list(enumerate(cfgs)), c.NPROC * 2)):
        d = wd / str(i)
        d.mkdir(exist_ok=True)
        parts.append((str(d), ch))
    traces = [None] * len(cfgs)
    for part in c.pmap(_random_chunk, parts):
        for i, events, exc in part:
            traces[i] = to_trace(cfgs[i], events, exc)
    ck.evaluations += sum(len(t["events"]) for t in traces)
    for t in traces:
        ck.nontrivial.add(json.dumps(describe(t["cfg"]), sort_keys=True))
    # regression scenario of the repaired finding F34 (id reuse in PolyplyParser.finalize)
    scfgs = [stress_config(rng, k) for k in range(600 if quick else 3000)]
    sparts = []
    for i, ch in enumerate(c.chunks(list(enumerate(scfgs)), c.NPROC * 2)):
        d = wd / ("s%d" % i)
        d.mkdir(exist_ok=True)
        sparts.append((str(d), ch))
    straces = [None] * len(scfgs)
    for part in c.pmap(_random_chunk, sparts):
        for i, events, exc in part:
            straces[i] = to_trace(scfgs[i], events, exc)
    ck.extra["id_reuse_regression_loads"] = len(straces)
    ck.evaluations += sum(len(t["events"]) for t in straces)
    traces = traces + straces
    big = max(traces[:len(cfgs)], key=lambda t: len(t["events"]))
    ck.sample({"I->S random configuration": describe(big["cfg"]), "steps": [[e["op"], e["file"]] for e in big["events"]][:30]})
    validate(ck, traces, "random_traces")
    # binding demonstration
    demo = None
    for t in traces:
        idx = [i for i, e in enumerate(t["events"]) if e["op"] == "end" and len(e["st"]["blocks"]) >= 1 and t["cfg"]["mode"] == "ff"]
        if idx:
            demo = json.loads(json.dumps(t))
            demo["events"][idx[-1]]["st"]["blocks"][0]["d"] += 1
            break
    if ck.require(demo is not None, "no trace to corrupt"):
        rej = validate(ck, [demo], "corrupt", expect_reject=True)
        if ck.require(1 in rej, "binding demonstration failed: a trace with a corrupted effective block definition was accepted"):
            ck.extra["binding_demo"] = "trace with one corrupted block definition id rejected after %d matched steps" % rej[1]
    # ---- I->S shipped
    ck.stage("shipped libraries")
    shipped(ck, sd, quick)
    ck.exhaustive = True
    return ck.finish()


def replay(path):
    doc = json.loads(open(path).read())
    case = doc["case"]
    ck = c.Check(PROP, "quick")
    kind = case.get("kind")
    if kind == "S->I replay":
        replay_cases(ck, [{"cfg": case["cfg"], "hist": case["hist"], "exp": case["exp"]}], "replay")
    elif kind == "gen_params":
        wd = c.workdir(PROP, "replay_gp")
        for ci, why in _genparams_chunk((str(wd), [(0, {"cfg": case["cfg"], "exp": case["exp"]})])):
            print(why)
            ck.violations += 1
    elif kind == "I->S trace" and not str(case.get("what", "")).startswith("libraries"):
        wd = c.workdir(PROP, "replay_rand")
        (i, events, exc), = _random_chunk((str(wd), [(0, case["cfg"])]))
        validate(ck, [to_trace(case["cfg"], events, exc)], "replay_traces")
    else:
        shipped(ck, doc.get("seed", 0), True)
    print("replayed: %s" % ("still fails" if ck.violations else "passes now"))
    return 1 if ck.violations else 0
