"""C02 - links are applied exactly where their definition matches.

spec/Links.tla     P-layer (ResMatch, OrderOK, AtomsOK, NonEdgeOK, PatternOK, PFold, PInts, ...), I-layer (BeginLink, TryMatch, EndLink,
                   WriteBack, FindMissing), dangling .itp interactions as links (ItpLinksOf, Windows)
spec/MC_Links.tla  link catalogue, residue graphs, case families A-F, R, W, export, small instances, sensitivity instances
spec/LinksTrace.tla  validation of records taken from the real code
S->I : TLC enumerates every case of the families (all connected residue graphs on <= 4 residues x residue names x link catalogue,
       features, edge labels, residue labels, dangling .itp interactions on chains of 1..5) and prints input + expected molecule +
       expected attempts; each case is rendered as real force-field text (.ff in two layouts, blocks as polyply .itp + links as .ff,
       monomer .itp with dangling interactions), run through MapToMolecule + ApplyLinks (a subset through gen_params and the written
       .itp) and compared.
I->S : seeded random cases beyond the bound (5-7 residues, 3 links, three block types, labels, edge labels) and force fields of the
       repository run through the real code under wrappers; TLC evaluates the P-layer on every recorded input (LinksTrace).
"""
import json
import random
import re

from .. import common as c
from .. import links_util as lu

PROP = "C02"
FAMS = ["A", "B", "C", "D", "E", "F", "R", "W"]
DEVS = [("Mono", "FinalIsExpected", "monomorphism instead of induced residue match (m04)"),
        ("NoOrder", "FinalIsExpected", "relative order check dropped (m05)"),
        ("NoLinktype", "FinalIsExpected", "edge labels ignored (m06)"),
        ("FirstWins", "FinalIsExpected", "first definition wins (m07)"),
        ("Ambig", "FinalIsExpected", "ambiguous atom selection accepted (m08)"),
        ("NoNonEdge", "FinalIsExpected", "non-edge veto removed (m09)"),
        ("NoPattern", "FinalIsExpected", "pattern veto removed"),
        ("KeepRemoved", "FinalIsExpected", "interactions of removed atoms written (m03)"),
        ("F13", "FinalIsExpected", "finding F13 (repaired): residue attributes missing on the first residue"),
        ("VerKey", "FinalIsExpected", "finding F17 (repaired): version numbers tested against removed node keys"),
        ("DangEnd", "Export", "dangling interaction expected beyond the chain end"),
        ("NoAtomResname", "FinalIsExpected", "independent seed C02-2: residue name not compared at the atom level"),
        ("LastOfName", "FinalIsExpected", "independent seed4-C02-1: name -> atom table keeps only the last atom of a repeated name"),
        ("RepBeforePattern", "FinalIsExpected", "independent seed2-C02-1: replace and removal carried out before the pattern veto"),
        ("NonEdgeNoWide", "FinalIsExpected", "independent seed6-C02-2: the partner atom of a [ non-edges ] entry is described without the link-wide attribute lines"),
        ("NonEdgeNoResname", "FinalIsExpected", "residue name of the partner atom of a [ non-edges ] entry not compared")]
# finding F17 (removed-node-key-equals-version) is REPAIRED: behaviour that equals the DevVerKey deviation is a VIOLATION again; the match is
# only mentioned in the report text so that a returning defect is recognised at once
F17_NOTE = " [observed interactions equal Links.tla with deviation DevVerKey: repaired finding F17 is back]"
SYNTAXES = [("ff", 0), ("ff", 1), ("mixed", 0)]


# ------------------------------------------------------------------ S -> I

def _syntax_for(fam, idx, both=False, ff=None):
    if fam == "E":
        return [("itp", 0)]
    if ff is not None and lu.repeated_names(ff["blocks"]):
        # a repeated atom name can only be written in a polyply .itp block (keyed by index): dangling form, or .itp blocks + .ff links
        return [("itp", 0)] if any(b.get("dang") for b in ff["blocks"].values()) else [("mixed", idx % 2)]
    if both:
        return [SYNTAXES[idx % 3], SYNTAXES[(idx + 1) % 3]]
    return [SYNTAXES[idx % 3]]


def _only_ints_differ(exp, obs, inp):
    """recogniser of the repaired finding F17: everything equals the expectation except that the interactions are those TLC computed
    for the write-back that confuses version numbers with node keys"""
    if "exception" in obs or not exp.get("verkeydiffers"):
        return False
    alt = dict(exp)
    alt["ints"] = exp["verkey"]
    return not lu.compare(alt, obs, None, inp)


def _replay_chunk(arg):
    fam, items, ffs, wdname, both = arg
    c.quiet()
    wd = c.workdir(PROP, "replay_%s" % wdname)
    bad = []
    stats = {"runs": 0, "applied": 0, "rejected": 0, "known": 0}
    for idx, case in items:
        inp, exp = case["input"], case["expected"]
        ff = ffs[inp["ff"] - 1]
        for syntax, variant in _syntax_for(fam, idx, both, ff):
            paths = lu.write_ff(wd, ff["blocks"], ff["links"], syntax, variant)
            obs = lu.run_processors(inp, ff["blocks"], ff["links"], paths)
            stats["runs"] += 1
            diffs = lu.compare(exp, obs, ff["blocks"], inp)
            if diffs:
                known = _only_ints_differ(exp, obs, inp)
                stats["known"] += 1 if known else 0
                bad.append((idx, syntax, variant, diffs[:6], known, {k: obs.get(k) for k in ("ints", "edges", "removed", "calls", "missing", "exception")}))
        stats["applied"] += sum(1 for x in exp["calls"] if x["out"] == "applied")
        stats["rejected"] += sum(1 for x in exp["calls"] if x["out"] != "applied")
    return bad, stats


def _raw_cases(res):
    return [m.group(1) for m in re.finditer(r'<<\s*"CASE",\s*("(?:[^"\\]|\\.)*")\s*>>', res.out, re.S)]


def _decode(raw):
    v = json.loads(raw.replace("\n", " "))
    return json.loads(v) if isinstance(v, str) else v


def _stratified(raws, per_stratum, rng):
    """sample per (force field, number of residues): every link of the catalogue meets every graph size"""
    strata = {}
    for i, r in enumerate(raws):
        m = re.search(r'\\"n\\":(\d+)', r)
        f = re.search(r'\\"ff\\":(\d+)', r)
        strata.setdefault((f.group(1) if f else "", m.group(1) if m else ""), []).append(i)
    pick = []
    for key in sorted(strata):
        lst = strata[key]
        pick += lst if len(lst) <= per_stratum else rng.sample(lst, per_stratum)
    return sorted(pick)


def prepare_family(ck, fam, res, tier, rng):
    """decode the exported cases of one family (quick: a stratified sample) and cut them into replay jobs"""
    ffs = lu.parse_export(_Header(res))[0]
    raws = _raw_cases(res)
    if not raws:
        raise c.MachineryError("family %s: TLC exported no case" % fam)
    ck.extra.setdefault("exported_cases", {})[fam] = len(raws)
    if tier == "quick":
        per = {"A": 4, "B": 8, "C": 30, "D": 50, "E": 40, "F": 25, "R": 1000, "W": 1000}[fam]
        pick = _stratified(raws, per, rng)
    else:
        pick = list(range(len(raws)))
    items = [(i, _decode(raws[i])) for i in pick]
    nparts = c.NPROC * 3 if fam == "A" else max(2, c.NPROC // 2)
    # family W is replayed in two layouts in both tiers: residue names in braces on every atom / link-wide lines
    parts = [(fam, ch, ffs, "%s_%d" % (fam, k), (tier == "thorough" and fam != "A") or fam == "W") for k, ch in enumerate(c.chunks(items, nparts))]
    return items, ffs, parts


def report_family(ck, fam, items, ffs, results):
    byidx = dict(items)
    for bad, stats in results:
        ck.evaluations += stats["runs"]
        ck.actions["replay_attempt_applied"] = ck.actions.get("replay_attempt_applied", 0) + stats["applied"]
        ck.actions["replay_attempt_rejected"] = ck.actions.get("replay_attempt_rejected", 0) + stats["rejected"]
        for idx, syntax, variant, diffs, known, obs in bad:
            case = byidx[idx]
            ff = ffs[case["input"]["ff"] - 1]
            ck.violation({"kind": "S->I replay", "family": fam, "syntax": syntax, "variant": variant, "input": case["input"], "ff": ff,
                          "expected": case["expected"], "observed": obs, "differences": diffs},
                         what="family %s case %d (%s): generated molecule differs from Links.tla: %s%s" % (fam, idx, syntax, "; ".join(diffs[:3]), F17_NOTE if known else ""))
    ck.replayed += len(items)
    for idx, case in items:
        if any(x["out"] == "applied" for x in case["expected"]["calls"]) or case["expected"]["removed"]:
            ck.nontrivial.add("%s:%d" % (fam, idx))
    if fam in ("B", "E") and items:
        mid = items[len(items) // 2][1]
        ck.sample({"S->I case (family %s)" % fam: {"input": mid["input"], "links": ffs[mid["input"]["ff"] - 1]["links"][:1],
                                                   "expected_ints": mid["expected"]["ints"][:4], "expected_calls": mid["expected"]["calls"][:4]}})


class _Header:
    """view of a TLCResult that only exposes the FFS header (parse_export without decoding every case)"""

    def __init__(self, res):
        self.res = res

    def tagged(self, tag):
        return self.res.tagged(tag)

    def cases(self):
        return []


# ------------------------------------------------------------------ gen_params entry point

def _read_itp(path):
    """sections of a written .itp: atoms table and interaction lines"""
    atoms, inters, sec = [], [], None
    for line in open(path):
        line = line.split(";")[0].strip()
        if not line:
            continue
        if line.startswith("["):
            sec = line.strip("[] ").strip()
            continue
        if line.startswith("#"):
            continue
        tok = line.split()
        if sec == "atoms":
            atoms.append({"nr": int(tok[0]), "atype": tok[1], "resid": int(tok[2]), "resname": tok[3], "atomname": tok[4]})
        elif sec in lu.KINDS_PARAMS:
            n = {"bonds": 2, "angles": 3, "dihedrals": 4, "constraints": 2, "pairs": 2, "exclusions": 2}[sec]
            inters.append({"kind": sec, "atoms": [int(t) for t in tok[:n]], "par": tok[n + 1] if len(tok) > n + 1 else ""})
    return atoms, inters


def _gen_params_chunk(arg):
    fam, items, ffs, wdname = arg
    c.quiet()
    from polyply.src.gen_itp import gen_params
    wd = c.workdir(PROP, "genparams_%s" % wdname)
    bad = []
    for idx, case in items:
        inp, exp = case["input"], case["expected"]
        ff = ffs[inp["ff"] - 1]
        syntax = "itp" if fam == "E" else ("ff", "mixed")[idx % 2]
        paths = lu.write_ff(wd, ff["blocks"], ff["links"], syntax, idx % 2)
        (wd / "seq.json").write_text(lu.seq_json(inp))
        out = wd / "out.itp"
        if out.exists():
            out.unlink()
        try:
            gen_params(name="t", outpath=out, inpath=paths, lib=None, seq=None, seq_file=wd / "seq.json")
            atoms, inters = _read_itp(out)
        except Exception as exc:
            bad.append((idx, ["gen_params raised %s: %s" % (type(exc).__name__, exc)], False))
            continue
        res_of = {rid: r + 1 for r, rid in enumerate(inp["resid"])}
        pos = {}
        for r in range(inp["n"]):
            for i, a in enumerate(ff["blocks"][inp["rattr"][r]["resname"]]["atoms"]):
                pos[(r + 1, a["atomname"])] = i + 1
        at = {a["nr"]: (res_of.get(a["resid"], 0), pos.get((res_of.get(a["resid"], 0), a["atomname"]), 0)) for a in atoms}
        def canon(t):
            # the .itp writer lists an interaction in one of its two equivalent atom orders
            return min(t, t[::-1])
        got = sorted((x["kind"], canon(tuple(at.get(j, (0, 0)) for j in x["atoms"])), x["par"]) for x in inters)
        diffs = []

        def want(ints):
            return sorted((x["kind"], canon(tuple(tuple(a) for a in x["atoms"])), x["par"]) for x in ints)
        if got != want(exp["ints"]):
            known = bool(exp.get("verkeydiffers")) and got == want(exp["verkey"])
            diffs.append("interactions of the written .itp differ: expected %s, got %s" % (want(exp["ints"])[:8], got[:8]))
        else:
            known = False
        types = {at[a["nr"]]: a["atype"] for a in atoms}
        for rec in exp["attr"]:
            if types.get(tuple(rec["at"])) != rec["attrs"]["atype"]:
                diffs.append("atom %s has type %r in the written .itp, expected %r" % (rec["at"], types.get(tuple(rec["at"])), rec["attrs"]["atype"]))
        if sorted(types) != sorted(tuple(rec["at"]) for rec in exp["attr"]):
            diffs.append("atoms of the written .itp %s differ from the expected atoms" % sorted(types))
        if diffs:
            bad.append((idx, diffs[:5], known and len(diffs) == 1))
    return bad, len(items)


def gen_params_subsets(ck, kept, plan, rng):
    parts, where = [], []
    for fam, n in plan:
        items, ffs = kept[fam]
        pick = items if len(items) <= n else rng.sample(items, n)
        for k, ch in enumerate(c.chunks(pick, max(2, c.NPROC // 2) if len(pick) < 400 else c.NPROC * 2)):
            parts.append((fam, ch, ffs, "%s_%d" % (fam, k)))
            where.append(fam)
    for fam, (bad, cnt) in zip(where, c.pmap(_gen_params_chunk, parts)):
        items, ffs = kept[fam]
        byidx = dict(items)
        ck.evaluations += cnt
        ck.extra["gen_params_runs"] = ck.extra.get("gen_params_runs", 0) + cnt
        for idx, diffs, known in bad:
            case = byidx[idx]
            ck.violation({"kind": "gen_params", "family": fam, "input": case["input"], "ff": ffs[case["input"]["ff"] - 1], "expected": case["expected"],
                          "differences": diffs},
                         what="family %s case %d through gen_params: %s%s" % (fam, idx, "; ".join(diffs[:2]), F17_NOTE if known else ""))


# ------------------------------------------------------------------ I -> S

def record_one(inp, paths=None, wd=None, tag="r", layout=0):
    """run the real code on an abstract input (blocks and links inside inp) and return the record LinksTrace validates.
    layout 1: a residue name shared by the atoms (and non-edge partners) of a link is written as a link-wide line"""
    if paths is None:
        paths = lu.write_ff(wd, inp["blocks"], inp["links"], "mixed" if lu.repeated_names(inp["blocks"]) else "ff", layout, tag=tag)
    obs = lu.run_processors(inp, inp["blocks"], inp["links"], paths)
    if "exception" in obs:
        o = {"exception": obs["exception"], "ints": [], "edges": [], "removed": [], "calls": [], "attr": [], "missing": []}
    else:
        o = {"exception": "", "ints": obs["ints"], "edges": obs["edges"], "removed": obs["removed"], "calls": obs["calls"], "missing": obs["missing"],
             "missing0": obs["missing0"],
             "attr": [{"at": [int(x) for x in k.split(",")], "attrs": {kk: vv for kk, vv in v.items() if kk != "resid"}} for k, v in sorted(obs["attr"].items())]}
    return {"input": inp, "obs": o, "layout": layout}


def _record_chunk(arg):
    seeds, wdname = arg
    c.quiet()
    wd = c.workdir(PROP, "record_%s" % wdname)
    out = []
    for sd in seeds:
        inp = lu.random_case(random.Random(sd), repeat_names=True)
        out.append(record_one(inp, wd=wd, layout=sd % 2))
    return out


def _validate_file(arg):
    path, = arg
    return c.tlc("LinksTrace", "Lk_trace.cfg", workers=1, env={"TRACE_FILE": path}, check=False)


def validate_records(ck, recs, name, expect_reject=False, per_file=60):
    """batches of records -> TLC (LinksTrace); returns {index: reason} of rejected records and the set of skipped ones"""
    wd = c.workdir(PROP, name)
    files = []
    for k, ch in enumerate(c.chunks(recs, max(1, (len(recs) + per_file - 1) // per_file))):
        f = wd / ("traces_%d.json" % k)
        f.write_text(json.dumps({"traces": ch}))
        files.append((str(f), len(ch)))
    from concurrent.futures import ThreadPoolExecutor
    with ThreadPoolExecutor(max(1, min(c.NPROC, len(files)))) as ex:
        results = list(ex.map(lambda fl: c.tlc("LinksTrace", "Lk_trace.cfg", workers=1, env={"TRACE_FILE": fl[0], "JAVA_TOOL_OPTIONS": "-Xss64m -XX:ParallelGCThreads=2"}, check=False), files))
    rejected, skipped, off = {}, set(), 0
    for (path, n), res in zip(files, results):
        rej = res.tagged("REJECTED")
        skp = res.tagged("SKIPPED")
        if (res.rc != 0 and not rej) or not skp or res.distinct != n:
            # records made by misbehaving code can be unreadable for the trace specification: exit 2 only on a run without violations
            if ck.require(False, "LinksTrace failed on %s: %s" % (path, res.out[-1500:])) is False:
                for k in range(n):
                    skipped.add(off + k)
                off += n
                continue
        for r in rej:
            for tid, why in r:
                rejected[off + int(tid) - 1] = why
        for s in skp:
            skipped.update(off + int(t) - 1 for t in s)
        if not expect_reject:
            ck.add_tlc(res)
        off += n
    return rejected, skipped


def trace_stage(ck, recs, name, describe):
    rejected, skipped = validate_records(ck, recs, name)
    ck.traces += len(recs) - len(rejected) - len(skipped)
    ck.extra.setdefault("records_out_of_domain_skipped", {})[name] = len(skipped)
    for i, why in sorted(rejected.items()):
        rec = recs[i]
        ck.violation({"kind": "I->S record", "stage": name, "record": rec, "failing_component": why},
                     what="%s: record %d rejected by Links.tla, first differing component: %s (%s)%s" % (
                         name, i, "interactions" if why == "known-verkey" else why, describe(rec), F17_NOTE if why == "known-verkey" else ""))
    for i, rec in enumerate(recs):
        if i not in rejected and i not in skipped and any(x["out"] == "applied" for x in rec["obs"]["calls"]):
            ck.nontrivial.add("%s:%d" % (name, i))
    return rejected, skipped


def binding_demo(ck, recs):
    """one corrupted field in an accepted record must be rejected"""
    good = [r for r in recs if any(x["out"] == "applied" for x in r["obs"]["calls"]) and r["obs"]["ints"]]
    if not ck.require(bool(good), "binding demonstration: no record with an applied link"):
        return None
    rec = None
    for cand in good[:5]:    # the first record the specification accepts as it is
        ok_rej, ok_skip = validate_records(ck, [cand], "binding_ok", expect_reject=True)
        if not ok_rej and not ok_skip:
            rec = json.loads(json.dumps(cand))
            break
    if not ck.require(rec is not None, "binding demonstration: none of the first records with an applied link is accepted"):
        return None
    victim = [x for x in rec["obs"]["ints"] if len({tuple(a)[0] for a in x["atoms"]}) > 1] or rec["obs"]["ints"]
    rec["obs"]["ints"].remove(victim[0])
    rej, _ = validate_records(ck, [rec], "binding_corrupt", expect_reject=True)
    if 0 not in rej:
        raise c.MachineryError("binding demonstration failed: a record with one link interaction deleted was accepted")
    rec2 = json.loads(json.dumps(cand))
    app = [x for x in rec2["obs"]["calls"] if x["out"] == "applied"][0]
    app["out"] = "atoms"
    rej2, _ = validate_records(ck, [rec2], "binding_corrupt2", expect_reject=True)
    if 0 not in rej2:
        raise c.MachineryError("binding demonstration failed: a record with a falsified attempt outcome was accepted")
    return "record with one link interaction deleted rejected (%s); record with a falsified attempt outcome rejected (%s)" % (rej[0], rej2[0])


def _library_chunk(arg):
    specs, wdname = arg
    c.quiet()
    out = []
    for spec in specs:
        try:
            out.append(lu.library_record(spec))
        except Exception as exc:   # projection problems are not verdicts
            out.append({"skip": "%s: %s" % (type(exc).__name__, exc), "spec": spec})
    return out


# ------------------------------------------------------------------ entry points

def tlc_jobs(tier):
    jobs = []
    for fam in FAMS:
        jobs.append(("export_" + fam, "MC_Links", "Lk_export_%s.cfg" % fam, {"A": 8, "B": 3, "C": 1, "D": 1, "E": 2, "F": 2, "R": 1, "W": 1}[fam], {}))
    if tier == "quick":
        jobs.append(("model", "MC_Links", "Lk_tiny.cfg", 4, {}))
    else:
        jobs.append(("model", "MC_Links", "Lk_small.cfg", 8, {}))
        jobs.append(("model4", "MC_Links", "Lk_small4.cfg", 3, {}))
    jobs.append(("modelE", "MC_Links", "Lk_small_E.cfg", 2, {}))
    jobs.append(("modelF", "MC_Links", "Lk_small_F.cfg", 2, {}))
    jobs.append(("modelR", "MC_Links", "Lk_small_R.cfg", 2, {}))
    jobs.append(("modelW", "MC_Links", "Lk_small_W.cfg", 2, {}))
    jobs.append(("devfams", "MC_Links", "Lk_devfams.cfg", 1, {"coverage": True}))
    for name, inv, what in DEVS:
        jobs.append(("dev_" + name, "MC_Links", "Lk_dev_%s.cfg" % name, 1, {"check": False}))
    return jobs


def run(tier):
    ck = c.Check(PROP, tier)
    ck.rule = ("S->I: every case of families A (all connected residue graphs on 1-4 residues x names {A,B}^n x 106 single-link force fields: orders "
               "+ ++ - > >> < * **, names A, B, A|B, path / star / triangle patterns of 2-4 residues), B (38 force fields with extra attributes, "
               "replace, replace null, [edges], [non-edges], [patterns], two and three links overriding / different version, graphs on <= 3 residues "
               "and all-A graphs on 4), C (edge labels), D (residue labels), E (20 monomer .itp files with dangling interactions on chains of 1-5 "
               "and mixed chains), F (links that name the residue on a subset of the atoms of an order, residues A and C with identical atom names, "
               "node keys any permutation of the residue ids), R (blocks D, E that repeat an atom name - two s of different / of equal type - with links "
               "selecting s by name only, by name and type, by a choice of names, and dangling .itp interactions on them), W (10 force fields whose links carry "
               "link-wide attribute lines - resname, resname + atype - and [ non-edges ] whose partner atom is completed by them or overrides them, and the same "
               "conditions with the name written on every atom, over residues A and C with identical atom names: all connected graphs on 1-3 residues and chains "
               "of 4 x names {A,C}^n, every case replayed in two layouts); a case is non-trivial if at least one link applies or an atom is removed. I->S: seeded random cases with 5-7 "
               "residues, 3 block types, 3 links and force fields of the repository; distinct = record with at least one applied link")
    ck.assumptions = ["domain: every link names a residue on at least one atom; no two definitions of one (atoms, version) at the same definition index; "
                      "no link whose own edges/replacements change the outcome of its own vetoes (TLC checks these on every exported case and "
                      "skips recorded cases outside)",
                      "atoms are identified by (residue id, atom name); where a block repeats an atom name, by residue id and node order of the freshly mapped molecule",
                      "interaction parameters are compared as the text token written in the force field"]
    sd = c.seed()
    rng = random.Random(sd)
    ck.stage("TLC: models, sensitivity runs, exports")
    jobs = tlc_jobs(tier)
    results = lu.run_jobs(jobs)
    # 1. design level: I-layer |= P-layer
    ck.model_must_hold(results["model"], "FinalIsExpected/CallsSound/MissingIsExpected/BondXorMissing")
    if "model4" in results:
        ck.model_must_hold(results["model4"], "FinalIsExpected on four residues")
    ck.model_must_hold(results["modelE"], "FinalIsExpected on dangling .itp links")
    ck.model_must_hold(results["modelR"], "FinalIsExpected on blocks that repeat an atom name")
    ck.model_must_hold(results["modelW"], "FinalIsExpected on links with link-wide attribute lines and [ non-edges ] over residues that share atom names")
    ck.model_must_hold(results["modelF"], "FinalIsExpected on links naming the residue on a subset of their atoms, permuted residue ids")
    ck.model_must_hold(results["devfams"], "sensitivity families without deviation / OrderSymmetric")
    cov = results["devfams"].coverage()
    for act in ("BeginLink", "TryAny", "EndLink", "WriteBack", "FindMissing"):
        if not cov.get(act):
            raise c.MachineryError("action %s never taken in the model (vacuous): %s" % (act, cov))
    for name, inv, what in DEVS:
        ck.model_must_refute(results["dev_" + name], inv, what)
    # 2. S->I
    kept, jobs_of, allparts = {}, {}, []
    ck.stage("decode exports")
    for fam in FAMS:
        res = results["export_" + fam]
        ck.model_must_hold(res, "export %s: domain (no ties, stable), dangling theorem" % fam)
        items, ffs, parts = prepare_family(ck, fam, res, tier, rng)
        kept[fam] = (items, ffs)
        jobs_of[fam] = (len(allparts), len(allparts) + len(parts))
        allparts += parts
        res.out = ""
    ck.stage("replay families %s (%d cases)" % (" ".join(FAMS), sum(len(v[0]) for v in kept.values())))
    out = c.pmap(_replay_chunk, allparts)
    for fam in FAMS:
        lo, hi = jobs_of[fam]
        report_family(ck, fam, kept[fam][0], kept[fam][1], out[lo:hi])
    del out, allparts
    ck.stage("gen_params entry point")
    gen_params_subsets(ck, kept, (("B", 60), ("C", 20), ("D", 20), ("E", 40), ("F", 40), ("W", 40)) if tier == "quick" else (("A", 1500), ("B", 1000), ("C", 252), ("D", 144), ("E", 680), ("F", 600), ("W", 540)), rng)
    kept.clear()
    # 3. I->S
    ck.stage("I->S: random cases")
    nrec = 160 if tier == "quick" else 1600
    seeds = [sd * 100003 + k for k in range(nrec)]
    recs = []
    for part in c.pmap(_record_chunk, [(ch, str(k)) for k, ch in enumerate(c.chunks(seeds, c.NPROC * 2))]):
        recs += part
    trace_stage(ck, recs, "random", lambda r: "%d residues, %d links" % (r["input"]["n"], len(r["input"]["links"])))
    ck.sample({"I->S record": {"residues": recs[0]["input"]["rattr"], "edges": recs[0]["input"]["edges"], "calls": recs[0]["obs"]["calls"][:6]}})
    ck.stage("I->S: force fields of the repository")
    specs = lu.library_specs(tier, rng)
    lrecs, lskip = [], []
    for part in c.pmap(_library_chunk, [(ch, str(k)) for k, ch in enumerate(c.chunks(specs, c.NPROC))]):
        for r in part:
            (lskip if "skip" in r else lrecs).append(r)
    ck.extra["library_inputs"] = {"recorded": len(lrecs), "not_projectable": len(lskip), "reasons": sorted({r["skip"][:80] for r in lskip})[:8]}
    if lrecs:
        trace_stage(ck, [{"input": r["input"], "obs": r["obs"]} for r in lrecs], "library", lambda r: "library input")
    ck.stage("binding demonstration")
    demo = binding_demo(ck, recs)
    if demo:
        ck.extra["binding_demo"] = demo
    ck.exhaustive = True
    return ck.finish()


def replay(path):
    doc = json.loads(open(path).read())
    case = doc["case"]
    ck = c.Check(PROP, "quick")
    c.quiet()
    if case["kind"] == "S->I replay":
        wd = c.workdir(PROP, "replay_one")
        ff = case["ff"]
        paths = lu.write_ff(wd, ff["blocks"], ff["links"], case["syntax"], case["variant"])
        obs = lu.run_processors(case["input"], ff["blocks"], ff["links"], paths)
        diffs = lu.compare(case["expected"], obs, ff["blocks"], case["input"])
        print("force field files:", [str(p) for p in paths])
        print("\n".join(diffs) if diffs else "matches the expectation now")
        return 1 if diffs else 0
    if case["kind"] == "gen_params":
        bad, _ = _gen_params_chunk((case["family"], [(0, {"input": dict(case["input"], ff=1), "expected": case["expected"]})], [case["ff"]], "one"))
        print("\n".join(bad[0][1]) if bad else "matches the expectation now")
        return 1 if bad else 0
    rec = case["record"]
    new = record_one(rec["input"], wd=c.workdir(PROP, "replay_rec"), layout=rec.get("layout", 0)) if "blocks" in rec["input"] and not case.get("stage") == "library" else rec
    rejected, skipped = validate_records(ck, [new], "replay_rec_tlc", expect_reject=True)
    print("record re-run: %s" % ("still rejected (%s)" % rejected[0] if rejected else "accepted now"))
    return 1 if rejected else 0
