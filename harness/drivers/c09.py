"""C09 - parameters are resolved as GROMACS preprocessing would resolve them.

spec/TypeResolve.tla    bonded part: P-layer Expected (cpp meaning of the #define / #ifdef / #ifndef / #else / #endif lines, then
                        exact / reversed key, least-wildcarded dihedral entry in either listing direction, all terms in every
                        instance, macros), I-layer = the code's steps (reader line by line, then preprocess), TLC checks I = P
spec/TypeResolveNB.tla  non-bonded part: which entry a pair's parameters come from, C6/C12 -> sigma^6/eps as decimal rationals
S->I : TypeResolveExport / TypeResolveNBExport cases rendered as real .top files (+ included .itp), read with
       Topology.from_gmx_topfile, preprocess(), projected and compared with the P-layer result printed by TLC.
I->S : seeded random topologies beyond the exhaustive bound and the repository's own test topologies run through the real
       code; (abstract input, observed result) records validated in batches by TypeResolveTrace.

Python only renders, runs, projects, compares; the one numeric monitor is sigma**6 / eps against the rationals (1e-9).
"""
import hashlib
import json
import os
import random
import shutil
from collections import Counter
from pathlib import Path

from .. import common as c

PROP = "C09"
KINDS = ["bonds", "angles", "constraints", "dihedrals", "pairs"]
SECTION = {"bonds": "bondtypes", "angles": "angletypes", "constraints": "constrainttypes", "dihedrals": "dihedraltypes",
           "pairs": "pairtypes"}
RTOL = 1e-9
NOTYPE_MSG = "corresponding bonded type"


# ------------------------------------------------------------------ rendering: abstract input -> real files

def q2tok(q):
    """decimal rational [n, d, e] (d = 1) of the specification -> a token of the topology file"""
    if q["d"] != 1:
        raise c.MachineryError("input value with denominator %r" % (q,))
    return "%de-%d" % (q["n"], q["e"]) if q["e"] else "%d.0" % q["n"]


def qval(q):
    return q["n"] / q["d"] * 10.0 ** (-q["e"])


def canon(tok):
    """canonical string of the double a token is read as (the abstract value of the trace records)"""
    return repr(float(tok))


def default_nb(top):
    """non-bonded part for a case of the bonded families: every atom type used, arbitrary positive values"""
    names = []
    for mol in top["mols"]:
        for t in mol["atypes"]:
            if t not in names:
                names.append(t)
    for e in top["btype"]:
        if e["t"] not in names:
            names.append(e["t"])
    return {"atypes": [{"name": n, "v1": "0.%d" % (11 + i), "v2": "0.%d" % (21 + i)} for i, n in enumerate(names)],
            "expl": [], "gen": False, "comb": 2}


def default_top(nb):
    """bonded part for a case of the non-bonded family: one molecule made of the first atom type"""
    t = nb["atypes"][0]["name"]
    return {"opls": False, "btype": [], "defs": [], "tables": {k: [] for k in KINDS},
            "mols": [{"name": "S", "atypes": [t, t], "inter": dict({k: [] for k in KINDS}, bonds=[{"atoms": [1, 2], "par": ["1", "0.1", "100"]}])}],
            "molecules": [{"name": "S", "n": 1}]}


PP_TEXT = {"ifdef": "#ifdef %s", "ifndef": "#ifndef %s", "else": "#else", "endif": "#endif"}
LAYOUTS = (0, 1, 2, 3)


def pp_line(d):
    """one preprocessor line of the abstract input (top["defs"]) as text"""
    if d["op"] == "define":
        return ("#define %s %s" % (d["name"], " ".join(d["toks"]))).rstrip()
    t = PP_TEXT[d["op"]]
    return t % d["name"] if "%s" in t else t


def pp_features(lines):
    """what a sequence of preprocessor lines contains (only for the non-vacuity requirements and the evidence counts)"""
    feats, blk = set(), None
    for d in lines:
        if d["op"] in ("ifdef", "ifndef"):
            blk = {"tag": d["name"], "op": d["op"], "else": False, "own": False}
            feats.add("block")
        elif d["op"] == "else":
            blk["else"] = True
        elif d["op"] == "endif":
            blk = None
        elif blk is not None:
            if d["name"] == blk["tag"]:
                blk["own"] = True
            elif d["name"].startswith("_FF_OPLS"):
                feats.add("opls_in_block")
            elif d["toks"]:
                feats.add("macro_in_else" if blk["else"] else "macro_in_block")
                if blk["own"] and blk["op"] == "ifndef" and not blk["else"]:
                    feats.add("guard_then_macro")
    return feats


def render(top, nb, wd, layout=0, wrapok=False):
    """write the topology; returns the path of the main file.
    layout 0: one file; 1: force field and every molecule type in included files, the preprocessor lines in the main file;
    2: as 1, the preprocessor lines at the top of the included force-field file; 3: as 2 and - when the lines end with the
    #endif of a selected branch (wrapok, decided by the specification / known by construction) - that #endif closes the block
    at the end of the force-field file instead (the include-guard layout: every directive of the file inside the block)"""
    wd = Path(wd)
    wd.mkdir(parents=True, exist_ok=True)
    bt = {e["t"]: e["b"] for e in top["btype"]}
    head = ["; C09 case (layout %d)" % layout]
    pp = []
    if top["opls"]:
        pp.append("#define _FF_OPLS" if layout == 0 else "#define _FF_OPLS_AA")
    for d in top["defs"]:
        pp.append(pp_line(d))
    closing = []
    if layout == 3 and wrapok and pp and pp[-1] == "#endif":
        closing = [pp.pop()]
    if layout < 2:
        head += pp
    ff = ["[ defaults ]", "; nbfunc comb-rule gen-pairs fudgeLJ fudgeQQ",
          "1 %d %s 1.0 1.0" % (nb["comb"], "yes" if nb["gen"] else "no"), "[ atomtypes ]"]
    if layout >= 2:
        ff = pp + ff
    for i, a in enumerate(nb["atypes"]):
        if bt:
            ff.append("%s %s 6 12.011 0.000 A %s %s" % (a["name"], bt.get(a["name"], a["name"]), a["v1"], a["v2"]))
        elif (i + layout) % 2:
            ff.append("%s 6 12.011 0.000 A %s %s" % (a["name"], a["v1"], a["v2"]))
        else:
            ff.append("%s 12.011 0.000 A %s %s ; no atomic number" % (a["name"], a["v1"], a["v2"]))
    if nb["expl"]:
        ff.append("[ nonbond_params ]")
        for e in nb["expl"]:
            ff.append("%s %s 1 %s %s" % (e["a"], e["b"], e["v1"], e["v2"]))
    for kind in KINDS:
        if top["tables"][kind]:
            ff.append("[ %s ]" % SECTION[kind])
            for e in top["tables"][kind]:
                ff.append("%s %s" % ("  ".join(e["key"]), " ".join(e["par"])))
    mols = []
    for mol in top["mols"]:
        m = ["[ moleculetype ]", "%s 3" % mol["name"], "[ atoms ]"]
        for i, t in enumerate(mol["atypes"]):
            m.append("%d %s 1 R a%d %d 0.0 12.011" % (i + 1, t, i + 1, i + 1))
        order = KINDS if layout == 0 else KINDS[::-1]
        for kind in order:
            if mol["inter"][kind]:
                m.append("[ %s ]" % kind)
                for it in mol["inter"][kind]:
                    m.append("%s %s" % (" ".join(str(a) for a in it["atoms"]), " ".join(it["par"])))
        mols.append((mol["name"], m))
    tail = ["[ system ]", "C09 case", "[ molecules ]"] + ["%s %d" % (e["name"], e["n"]) for e in top["molecules"]]
    main = wd / "topol.top"
    if layout == 0:
        lines = head + ff
        for _, m in mols:
            lines += m
        lines += tail
    else:
        (wd / "ff").mkdir(exist_ok=True)
        (wd / "ff" / "ffparams.itp").write_text("\n".join(ff + closing) + "\n")
        lines = head + ['#include "ff/ffparams.itp"']
        for name, m in mols:
            (wd / ("mol_%s.itp" % name)).write_text("\n".join(m) + "\n")
            lines.append('#include "mol_%s.itp"' % name)
        lines += tail
    main.write_text("\n".join(lines) + "\n")
    return main


# ------------------------------------------------------------------ running the real code, projection

_WRAPPED = {}


def _install():
    """wrap Topology.gen_pairs (public) so that the table after gen_pairs, before the conversion, is observable"""
    from polyply.src import topology as tp
    if _WRAPPED.get("cls") is tp.Topology:
        return
    if not hasattr(tp.Topology, "gen_pairs") or not hasattr(tp.Topology, "preprocess"):
        raise c.MachineryError("Topology.gen_pairs / preprocess not found")
    orig = tp.Topology.gen_pairs

    def gen_pairs(self, *a, **k):
        r = orig(self, *a, **k)
        self._c09_pre = {key: (v["nb1"], v["nb2"]) for key, v in self.nonbond_params.items()}
        return r
    tp.Topology.gen_pairs = gen_pairs
    _WRAPPED["cls"] = tp.Topology


def project_bonded(t):
    inst = []
    for mm in t.molecules:
        inter = {}
        for kind in KINDS:
            inter[kind] = [{"atoms": [int(a) + 1 for a in it.atoms], "par": [str(p) for p in it.parameters]}
                           for it in mm.molecule.interactions.get(kind, [])]
        inst.append({"name": mm.mol_name, "inter": inter})
    return {"err": False, "inst": inst}


def _pair(key):
    k = sorted(key)
    return [k[0], k[-1]]


def project_nb(t):
    pre = getattr(t, "_c09_pre", None)
    if pre is None:
        raise c.MachineryError("gen_pairs wrapper did not run")
    post = {key: (v["nb1"], v["nb2"]) for key, v in t.nonbond_params.items()}
    return pre, post


def run_real(path):
    """returns (status, topology or message): ok | notype (the code reported a missing bonded type) | exception"""
    _install()
    from polyply.src.topology import Topology
    try:
        t = Topology.from_gmx_topfile(str(path), "c09")
    except Exception as exc:
        return "exception", "reading the topology: %s: %s" % (type(exc).__name__, exc)
    try:
        t.preprocess()
    except OSError as exc:
        if NOTYPE_MSG in str(exc):
            return "notype", t
        return "exception", "preprocess: %s: %s" % (type(exc).__name__, exc)
    except Exception as exc:
        return "exception", "preprocess: %s: %s" % (type(exc).__name__, exc)
    return "ok", t


def bag(lst):
    return Counter(json.dumps(x, sort_keys=True) for x in lst)


def same_result(a, b):
    if bool(a["err"]) != bool(b["err"]) or len(a["inst"]) != len(b["inst"]):
        return False
    for x, y in zip(a["inst"], b["inst"]):
        if x["name"] != y["name"]:
            return False
        for kind in KINDS:
            if bag(x["inter"][kind]) != bag(y["inter"][kind]):
                return False
    return True


def first_diff(obs, exp):
    if obs["err"] != exp["err"]:
        return "code %s, specification %s" % ("reports a missing bonded type" if obs["err"] else "resolves every interaction",
                                              "expects a missing bonded type" if exp["err"] else "expects every interaction resolved")
    if len(obs["inst"]) != len(exp["inst"]):
        return "%d molecule instances, expected %d" % (len(obs["inst"]), len(exp["inst"]))
    for j, (x, y) in enumerate(zip(obs["inst"], exp["inst"])):
        for kind in KINDS:
            bx, by = bag(x["inter"][kind]), bag(y["inter"][kind])
            if bx != by:
                return "instance %d (%s) %s: code has %s, specification expects %s" % (
                    j + 1, y["name"], kind, sorted((bx - by).elements()) or "nothing extra", sorted((by - bx).elements()) or "nothing more")
    return "names differ"


def norm_result(r):
    """P-layer result as printed by TLC -> the shape of project_bonded"""
    return {"err": bool(r["err"]), "inst": [{"name": i["name"], "inter": {k: [{"atoms": list(x["atoms"]), "par": list(x["par"])} for x in i["inter"][k]]
                                                                            for k in KINDS}} for i in r["inst"]]}


def close(a, b):
    return abs(a - b) <= RTOL * max(abs(a), abs(b))


def reproduces(pre, post):
    """numeric monitor: sigma, eps reproduce C6, C12:  4 eps sigma^6 = C6,  4 eps sigma^12 = C12"""
    c6, c12 = pre
    sig, eps = post
    try:
        s6 = float(sig) ** 6
        return bool(close(4.0 * eps * s6, c6) and close(4.0 * eps * s6 * s6, c12))
    except Exception:
        return False


# ------------------------------------------------------------------ S -> I

def _case_dir(tag, n):
    return c.WORK / PROP / "replay" / ("%s_%d_%d" % (tag, os.getpid(), n))


def check_bonded_case(case, wd, layout):
    """returns None | (what, sig, detail)"""
    top = case["top"]
    path = render(top, default_nb(top), wd, layout, bool(case.get("wrapok")))
    status, t = run_real(path)
    if status == "exception":
        return ("the code raised on an in-domain topology (%s)" % t, None, {"exception": t})
    obs = {"err": True, "inst": []} if status == "notype" else project_bonded(t)
    exp = norm_result(case["exp"])
    if same_result(obs, exp):
        return None
    for alt in case["alt"]:   # diagnostic hint only: names a repaired defect whose old behaviour this is; still a violation
        if same_result(obs, norm_result(alt["res"])):
            return ("%s [the behaviour of the repaired defect %s]" % (first_diff(obs, exp), alt["sig"]), None, {"observed": obs})
    return (first_diff(obs, exp), None, {"observed": obs})


def check_nb_case(case, wd, layout):
    nbq = case["nb"]
    nb = {"atypes": [{"name": a["name"], "v1": q2tok(a["v1"]), "v2": q2tok(a["v2"])} for a in nbq["atypes"]],
          "expl": [{"a": e["a"], "b": e["b"], "v1": q2tok(e["v1"]), "v2": q2tok(e["v2"])} for e in nbq["expl"]],
          "gen": nbq["gen"], "comb": nbq["comb"]}
    path = render(default_top(nb), nb, wd, layout)
    status, t = run_real(path)
    if status != "ok":
        return ("the code raised on an in-domain topology (%s)" % (t if status == "exception" else "missing bonded type"), None, {})
    pre, post = project_nb(t)
    exp = {frozenset(e["k"]): e for e in case["exp"]}
    det = {"pre": {"/".join(_pair(k)): v for k, v in pre.items()}, "post": {"/".join(_pair(k)): v for k, v in post.items()}}
    if set(post) != set(exp) or set(pre) != set(exp):
        return ("pairs with parameters: code %s, specification %s" % (sorted("/".join(_pair(k)) for k in post),
                                                                       sorted("/".join(_pair(k)) for k in exp)), None, det)
    for k, e in exp.items():
        name = "/".join(_pair(k))
        if e["src"] != "generated":
            raw = (float(q2tok(e["raw"][0])), float(q2tok(e["raw"][1])))
            if tuple(pre[k]) != raw:
                return ("pair %s (%s): after gen_pairs %s, specification %s" % (name, e["src"], tuple(pre[k]), raw), None, det)
            if nbq["comb"] == 1:
                s6, eps = qval(e["fin"][0]), qval(e["fin"][1])
                try:
                    ok = close(float(post[k][0]) ** 6, s6) and close(float(post[k][1]), eps)
                except Exception:
                    ok = False
                if not ok:
                    return ("pair %s (%s, C6=%s C12=%s): code sigma=%r (sigma^6=%r) eps=%r, specification sigma^6=%r eps=%r" % (
                        name, e["src"], raw[0], raw[1], post[k][0], float(post[k][0]) ** 6 if isinstance(post[k][0], float) else None,
                        post[k][1], s6, eps), None, det)
            elif tuple(post[k]) != raw:
                return ("pair %s (%s): %s, specification %s (no conversion under comb-rule %d)" % (name, e["src"], tuple(post[k]), raw, nbq["comb"]), None, det)
        else:
            if nbq["comb"] == 1 and not reproduces(pre[k], post[k]):
                return ("generated pair %s: sigma/eps %s do not reproduce C6/C12 %s" % (name, tuple(post[k]), tuple(pre[k])), None, det)
            if nbq["comb"] != 1 and tuple(post[k]) != tuple(pre[k]):
                return ("generated pair %s changed without conversion" % name, None, det)
    return None


def _replay_chunk(arg):
    tag, items = arg
    out = []
    wd = _case_dir(tag, 0)
    for idx, layout, case in items:
        try:
            r = check_bonded_case(case, wd, layout) if tag != "nb" else check_nb_case(case, wd, layout)
        except c.MachineryError:
            raise
        except Exception as exc:  # projection failed on a misbehaving tree: report, do not crash
            r = ("projection failed: %s: %s" % (type(exc).__name__, exc), None, {})
        if r:
            out.append((idx, layout, r))
    shutil.rmtree(wd, ignore_errors=True)
    return out, len(items)


def layout_of(i):
    """layout of case i when every case is replayed once: even cases one file, odd cases the three include layouts in turn"""
    return 0 if i % 2 == 0 else 1 + (i // 2) % 3


def replay_cases(ck, cases, tag, cycle=False, all_layouts=False):
    """replay every case on the real code under layout_of(index); cycle: the four layouts in turn; all_layouts: every case
    under each of the four layouts"""
    lays = (lambda i: LAYOUTS) if all_layouts else (lambda i: (LAYOUTS[i % 4],)) if cycle else (lambda i: (layout_of(i),))
    idx = [(i, lay, cs) for i, cs in enumerate(cases) for lay in lays(i)]
    nbad = 0
    for bad, n in c.pmap(_replay_chunk, [(tag, ch) for ch in c.chunks(idx, c.NPROC * 3)]):
        ck.evaluations += n
        for i, lay, (what, sig, detail) in bad:
            nbad += 1
            ck.violation({"kind": "S->I " + tag, "case": cases[i], "layout": lay, "detail": detail},
                         what="%s case %d (layout %d): %s" % (tag, i, lay, what))
    ck.replayed += len(idx)
    for cs in cases:
        ck.nontrivial.add(hashlib.sha1(json.dumps(cs.get("top", cs.get("nb")), sort_keys=True).encode()).hexdigest())
    return nbad


# ------------------------------------------------------------------ I -> S: seeded random topologies, repository topologies

TYPE_POOL = ["CT", "CA", "N3", "OW", "HC", "S2", "P5", "C1", "Qd", "Na"]
BTYPE_POOL = ["C", "N", "O", "H", "S"]


def _num(rng, lo=0.05, hi=900.0):
    v = rng.uniform(lo, hi)
    return rng.choice(["%.3f", "%.5e", "%.1f"]) % v


def gen_pp(rng, defs, opls, hints=None):
    """the preprocessor lines of a random input: the macro definitions (and, sometimes, the OPLS tag as a line of its own),
    half of the time with a run of them inside one #ifdef / #ifndef block; some blocks also carry #define lines (other
    values of the same macros) in the branch that is not selected: they must have no effect.  Returns (lines, opls flag left
    for the unconditional first line, wrapok: the lines end with the #endif of a selected branch)"""
    lines = [{"op": "define", "name": d["name"], "toks": list(d["toks"])} for d in defs]
    if opls and rng.random() < 0.5:
        lines.insert(rng.randint(0, len(lines)), {"op": "define", "name": rng.choice(["_FF_OPLS", "_FF_OPLS_AA"]), "toks": []})
        opls = False
    if rng.random() < 0.5:
        return lines, opls, False
    i = rng.randint(0, len(lines))
    j = len(lines) if rng.random() < 0.5 else rng.randint(i, len(lines))
    pre, inside, post = lines[:i], lines[i:j], lines[j:]
    tag = "C09_TAG_%d" % rng.randint(1, 9)
    deftag = {"op": "define", "name": tag, "toks": []}
    pl = lambda op, name="": {"op": op, "name": name, "toks": []}
    form = rng.choice(["guard"] * 4 + ["ifdef", "else-ifdef", "else-ifndef", "ifndef-late", "flex", "flex", "default", "dead"])
    empty_else = rng.random() < 0.3
    other = [dict(d, toks=[_num(rng) for _ in d["toks"]]) for d in inside if d["toks"]]   # the same macros with other values
    if form == "guard":          # #ifndef TAG / #define TAG / macros / #endif
        k = rng.choice([0, 0, len(inside)])
        body = inside[:k] + [deftag] + inside[k:]
        out = pre + [pl("ifndef", tag)] + body + ([pl("else")] if empty_else else []) + [pl("endif")] + post
        last_selected = not empty_else
    elif form == "ifdef":        # #define TAG ... #ifdef TAG / macros / #endif
        out = [deftag] + pre + [pl("ifdef", tag)] + inside + ([pl("else")] if empty_else else []) + [pl("endif")] + post
        last_selected = not empty_else
    elif form == "else-ifdef":   # #ifdef TAG (not defined) / #else / macros / #endif, the tag possibly defined later
        late = [deftag] if rng.random() < 0.5 else []
        k = rng.choice([0, len(inside)])
        out = pre + [pl("ifdef", tag), pl("else")] + inside[:k] + late + inside[k:] + [pl("endif")] + post
        last_selected = True
    elif form == "else-ifndef":  # #define TAG ... #ifndef TAG / #else / macros / #endif
        out = [deftag] + pre + [pl("ifndef", tag), pl("else")] + inside + [pl("endif")] + post
        last_selected = True
    elif form == "ifndef-late":  # #ifndef TAG / macros / #endif ... #define TAG
        out = pre + [pl("ifndef", tag)] + inside + ([pl("else")] if empty_else else []) + [pl("endif"), deftag] + post
        last_selected = not empty_else
    elif form == "flex":         # [#define TAG] #ifdef TAG / macros / #else / the same macros, other values / #endif
        defined = rng.random() < 0.5
        first, second = (inside, other) if defined else (other, inside)
        out = ([deftag] if defined else []) + pre + [pl("ifdef", tag)] + first + [pl("else")] + second + [pl("endif")] + post
        last_selected = not defined
    elif form == "default":      # macros ... #ifndef <macro> / #define <macro> default / #endif: the default must not win
        out = pre + inside
        for d in other[:2]:
            out = out + [pl("ifndef", d["name"]), d, pl("endif")]
        out = out + post
        last_selected = False
    else:                        # macros ... #ifdef TAG (not defined) / the same macros, other values / #endif
        out = pre + inside + [pl("ifdef", tag)] + other + [pl("endif")] + post
        last_selected = False
    if hints is not None:
        hints["unselected"] = form in ("flex", "default", "dead") and bool(other)
    return out, opls, bool(last_selected and out[-1]["op"] == "endif")


def gen_topology(rng, big=False, hints=None):
    """one random abstract input (top, nb) beyond the exhaustive bound; hints (a dict) receives rendering hints"""
    ntypes = rng.randint(4, 9 if big else 7)
    types = rng.sample(TYPE_POOL, ntypes)
    opls = rng.random() < 0.3
    bmap = {t: rng.choice(BTYPE_POOL) for t in types}
    btype = [{"t": t, "b": bmap[t]} for t in types] if opls else []
    look = (lambda t: bmap[t]) if opls else (lambda t: t)
    defs = []
    for i in range(rng.randint(0, 4)):
        defs.append({"name": "g%s_%d" % (rng.choice("bad"), i + 1), "toks": [_num(rng) for _ in range(rng.randint(1, 3))]})
    func = {"bonds": rng.choice(["1", "2"]), "angles": rng.choice(["1", "2", "5"]), "constraints": "1",
            "dihedrals": rng.choice(["9", "9", "1", "2", "4"]), "pairs": "1"}
    npar = {"bonds": 2, "angles": 2, "constraints": 1, "dihedrals": 3, "pairs": 2}
    use_pairs = rng.random() < 0.3
    tbl_macro = bool(defs) and rng.random() < 0.15
    miss = rng.random() < 0.06

    def literal(kind):
        return [func[kind]] + [_num(rng) for _ in range(npar[kind])]

    def written(kind):
        r = rng.random()
        if r < 0.6:
            return [func[kind]]
        if r < 0.8 or not defs:
            return literal(kind)
        k = rng.randint(1, 2)
        return [func[kind]] + [rng.choice(defs)["name"] for _ in range(k)]

    mols = []
    for mi in range(rng.randint(1, 4 if big else 3)):
        n = rng.randint(3, 9 if big else 7)
        at = [rng.choice(types) for _ in range(n)]
        inter = {k: [] for k in KINDS}
        for a in range(1, n):
            atoms = [a, a + 1] if rng.random() < 0.5 else [a + 1, a]
            kind = "constraints" if rng.random() < 0.2 else "bonds"
            inter[kind].append({"atoms": atoms, "par": written(kind)})
        for a in range(1, n - 1):
            if rng.random() < 0.8:
                atoms = [a, a + 1, a + 2]
                inter["angles"].append({"atoms": atoms if rng.random() < 0.5 else atoms[::-1], "par": written("angles")})
        for a in range(1, n - 2):
            if rng.random() < 0.8:
                atoms = [a, a + 1, a + 2, a + 3]
                inter["dihedrals"].append({"atoms": atoms if rng.random() < 0.5 else atoms[::-1], "par": written("dihedrals")})
                if use_pairs or rng.random() < 0.3:
                    inter["pairs"].append({"atoms": [a, a + 3] if rng.random() < 0.5 else [a + 3, a],
                                           "par": [func["pairs"]] if use_pairs and rng.random() < 0.7 else literal("pairs")})
        mols.append({"name": "M%d" % mi, "atypes": at, "inter": inter})
    # type tables: one entry (or, for dihedrals, a wildcard pattern with 1-3 terms and possibly a competitor) per
    # parameterless interaction; plus unrelated entries
    tables = {k: [] for k in KINDS}
    seen = {k: set() for k in KINDS}

    def entry_par(kind):
        if tbl_macro and rng.random() < 0.3:
            return [func[kind], rng.choice(defs)["name"]]
        return literal(kind)

    def add(kind, key, nterms=1):
        key = tuple(key)
        if key in seen[kind] or key[::-1] in seen[kind]:
            return
        seen[kind].add(key)
        for _ in range(nterms):
            tables[kind].append({"key": list(key), "par": entry_par(kind)})

    defnames = {d["name"] for d in defs}
    # the parameterless dihedrals, as type sequences: used only to keep the generator inside the stated domain (no two
    # different keys of equal wildcard count matching one dihedral); whether a record is in the domain is decided by TLC
    dih_seqs = []
    for mol in mols:
        for it in mol["inter"]["dihedrals"]:
            if len(it["par"]) == 1:
                dih_seqs.append([look(mol["atypes"][a - 1]) for a in it["atoms"]])

    def _covers(key, ts):
        return any(all(k == "X" or k == t for k, t in zip(key, seq)) for seq in (ts, ts[::-1]))

    def ties(key):
        wc = key.count("X")
        for ts in dih_seqs:
            if _covers(key, ts):
                for e in tables["dihedrals"]:
                    if e["key"] != list(key) and e["key"].count("X") == wc and _covers(e["key"], ts):
                        return True
        return False

    for mol in mols:
        for kind in KINDS:
            for it in mol["inter"][kind]:
                if len(it["par"]) != 1 or it["par"][0] in defnames:
                    continue
                ts = [look(mol["atypes"][a - 1]) for a in it["atoms"]]
                if miss and rng.random() < 0.1 and kind != "pairs":
                    continue
                if kind == "dihedrals":
                    for _ in range(rng.randint(1, 2)):
                        mask = [rng.random() < 0.35 for _ in range(4)]
                        key = ["X" if w else t for w, t in zip(mask, ts)]
                        if rng.random() < 0.5:
                            key = key[::-1]
                        if not ties(key):
                            add(kind, key, rng.randint(1, 3) if func[kind] == "9" else 1)
                else:
                    add(kind, ts if rng.random() < 0.5 else ts[::-1])
    for kind in KINDS:
        for _ in range(rng.randint(0, 3)):
            ar = {"angles": 3, "dihedrals": 4}.get(kind, 2)
            key = [look(rng.choice(types)) for _ in range(ar)]
            if kind == "dihedrals" and rng.random() < 0.5:
                key[rng.randrange(4)] = "X"
            if kind != "dihedrals" or not ties(key):
                add(kind, key)
        rng.shuffle(tables[kind]) if kind != "dihedrals" else None
    if rng.random() < 0.5:
        # dihedral table: shuffle the keys, keep the terms of one key together and in order
        groups = []
        for e in tables["dihedrals"]:
            if groups and groups[-1][0]["key"] == e["key"]:
                groups[-1].append(e)
            else:
                groups.append([e])
        rng.shuffle(groups)
        tables["dihedrals"] = [e for g in groups for e in g]
    molecules = []
    for _ in range(rng.randint(1, 6)):
        molecules.append({"name": rng.choice(mols)["name"], "n": rng.randint(1, 40 if big else 8)})
    pp, opls_first, wrapok = gen_pp(rng, defs, opls, hints)
    if hints is not None:
        hints["wrapok"] = wrapok
    top = {"opls": opls_first, "btype": btype, "defs": pp, "tables": tables, "mols": mols, "molecules": molecules}
    # non-bonded part
    comb = rng.choice([1, 1, 2, 3])
    at = []
    for t in types:
        at.append({"name": t, "v1": "%.6e" % rng.uniform(1e-4, 5e-2) if comb == 1 else "%.4f" % rng.uniform(0.2, 0.6),
                   "v2": "%.6e" % rng.uniform(1e-8, 5e-4) if comb == 1 else "%.4f" % rng.uniform(0.05, 4.0)})
    expl = []
    pairs = [(a, b) for i, a in enumerate(types) for b in types[i:]]
    for a, b in rng.sample(pairs, rng.randint(0, len(pairs))):
        if rng.random() < 0.5:
            a, b = b, a
        expl.append({"a": a, "b": b, "v1": "%.6e" % rng.uniform(1e-4, 5e-2) if comb == 1 else "%.4f" % rng.uniform(0.2, 0.6),
                     "v2": "%.6e" % rng.uniform(1e-8, 5e-4) if comb == 1 else "%.4f" % rng.uniform(0.05, 4.0)})
    nb = {"atypes": at, "expl": expl, "gen": rng.random() < 0.5, "comb": comb}
    return top, nb


def nb_abstract(nb):
    """tokens -> canonical float strings"""
    return {"atypes": [{"name": a["name"], "v1": canon(a["v1"]), "v2": canon(a["v2"])} for a in nb["atypes"]],
            "expl": [{"a": e["a"], "b": e["b"], "v1": canon(e["v1"]), "v2": canon(e["v2"])} for e in nb["expl"]],
            "gen": bool(nb["gen"]), "comb": int(nb["comb"])}


def observe(t, status, comb):
    """observed part of a record from the preprocessed topology"""
    obs = {"err": True, "inst": []} if status == "notype" else project_bonded(t)
    pre, post = project_nb(t) if status == "ok" else (getattr(t, "_c09_pre", {}), {})
    if status == "notype":
        # preprocess stopped before the conversion: the non-bonded part of this record is not observed
        return obs, None
    nbobs = {"pre": [dict(zip(("a", "b"), _pair(k)), v1=repr(float(v[0])), v2=repr(float(v[1]))) for k, v in pre.items()],
             "post": [dict(zip(("a", "b"), _pair(k)), v1=repr(float(v[0])), v2=repr(float(v[1]))) for k, v in post.items()],
             "conv": [dict(zip(("a", "b"), _pair(k)), ok=(reproduces(pre[k], post[k]) if k in pre else False),
                           c6=pre.get(k, (None, None))[0], c12=pre.get(k, (None, None))[1], sigma=post[k][0], eps=post[k][1])
                      for k in post] if comb == 1 else []}
    return obs, nbobs


def _record_chunk(arg):
    seeds, big = arg
    out = []
    wd = _case_dir("rec", 0)
    for sd in seeds:
        rng = random.Random(sd)
        hints = {}
        top, nb = gen_topology(rng, big, hints)
        lay = LAYOUTS[sd % 4]
        path = render(top, nb, wd, lay, hints["wrapok"])
        status, t = run_real(path)
        if status == "exception":
            out.append({"seed": sd, "top": top, "nbtok": nb, "layout": lay, "wrapok": hints["wrapok"], "exception": t})
            continue
        try:
            obs, nbobs = observe(t, status, nb["comb"])
        except c.MachineryError:
            raise
        except Exception as exc:
            out.append({"seed": sd, "top": top, "nbtok": nb, "layout": lay, "wrapok": hints["wrapok"],
                        "exception": "projection failed: %s: %s" % (type(exc).__name__, exc)})
            continue
        out.append({"seed": sd, "top": top, "nbtok": nb, "layout": lay, "wrapok": hints["wrapok"], "unselected": bool(hints.get("unselected")),
                    "nb": nb_abstract(nb), "obs": obs, "nbobs": nbobs})
    shutil.rmtree(wd, ignore_errors=True)
    return out


def record_random(n, sd, big=False):
    seeds = [sd * 1000003 + i for i in range(n)]
    recs = []
    for part in c.pmap(_record_chunk, [(ch, big) for ch in c.chunks(seeds, c.NPROC * 2)]):
        recs += part
    return recs


def abstract_from_topology(t):
    """abstract input of an already parsed (not yet preprocessed) Topology: used for the repository's own topologies"""
    opls = "_FF_OPLS" in t.defines or "_FF_OPLS_AA" in t.defines
    btype = [{"t": n, "b": str(a.get("bond_type"))} for n, a in t.atom_types.items()] if opls else []
    defs = [{"op": "define", "name": n, "toks": [str(x) for x in v]} for n, v in t.defines.items() if isinstance(v, (list, tuple))]
    tables = {k: [] for k in KINDS}
    for kind in KINDS:
        for key, terms in t.types.get(kind, {}).items():
            for par, _meta in terms:
                tables[kind].append({"key": [str(x) for x in key], "par": [str(x) for x in par]})
    mols = []
    for name, block in t.force_field.blocks.items():
        nodes = sorted(block.nodes)
        if nodes != list(range(len(nodes))):
            raise c.MachineryError("block %s: node keys are not 0..n-1" % name)
        inter = {k: [{"atoms": [int(a) + 1 for a in it.atoms], "par": [str(p) for p in it.parameters]} for it in block.interactions.get(k, [])]
                 for k in KINDS}
        mols.append({"name": name, "atypes": [str(block.nodes[n]["atype"]) for n in nodes], "inter": inter})
    molecules = []
    for mm in t.molecules:
        if molecules and molecules[-1]["name"] == mm.mol_name:
            molecules[-1]["n"] += 1
        else:
            molecules.append({"name": mm.mol_name, "n": 1})
    top = {"opls": opls, "btype": btype, "defs": defs, "tables": tables, "mols": mols, "molecules": molecules}
    expl = []
    for key, v in t.nonbond_params.items():
        a, b = _pair(key)
        expl.append({"a": a, "b": b, "v1": repr(float(v["nb1"])), "v2": repr(float(v["nb2"]))})
    nb = {"atypes": [{"name": n, "v1": repr(float(a["nb1"])), "v2": repr(float(a["nb2"]))} for n, a in t.atom_types.items()],
          "expl": expl, "gen": t.defaults.get("gen-pairs") == "yes", "comb": int(t.defaults["comb-rule"])}
    return top, nb


def repo_topologies():
    import polyply
    root = Path(polyply.__file__).resolve().parent / "tests" / "test_data"
    return sorted(root.rglob("*.top"))


def record_repo(ck):
    """the repository's own test topologies through the real code"""
    _install()
    from polyply.src.topology import Topology
    recs = []
    for path in repo_topologies():
        try:
            t = Topology.from_gmx_topfile(str(path), "c09")
        except Exception as exc:
            ck.note("repository topology %s not readable (%s): no verdict" % (path.name, type(exc).__name__))
            continue
        if "comb-rule" not in t.defaults:
            ck.note("repository topology %s/%s has no [ defaults ]: outside the domain, no verdict" % (path.parent.name, path.name))
            continue
        top, nb = abstract_from_topology(t)
        try:
            t.preprocess()
            status = "ok"
        except OSError as exc:
            status = "notype" if NOTYPE_MSG in str(exc) else "exception"
            msg = str(exc)
        except Exception as exc:
            status, msg = "exception", "%s: %s" % (type(exc).__name__, exc)
        if status == "exception":
            recs.append({"seed": str(path), "top": top, "nb": nb, "exception": "preprocess: " + msg})
            continue
        obs, nbobs = observe(t, status, nb["comb"])
        recs.append({"seed": "%s/%s" % (path.parent.name, path.name), "top": top, "nb": nb, "obs": obs, "nbobs": nbobs})
    return recs


EMPTY_NB = {"atypes": [], "expl": [], "gen": False, "comb": 2}
EMPTY_NBOBS = {"pre": [], "post": [], "conv": []}


def validate_batches(ck, batches, expect_reject=False, accepted=None):
    """batch validation by TypeResolveTrace, the batches concurrently.  batches: list of (name, records).
    Records whose run raised are violations right away.  Returns {name: (rejected tids, verdicts)}."""
    jobs, goods = [], {}
    for name, recs in batches:
        good = []
        for r in recs:
            if "exception" in r:
                if not expect_reject:
                    ck.violation({"kind": "I->S record", "record": r}, what="the code raised on an in-domain topology (seed %s): %s" % (r["seed"], r["exception"]))
                continue
            good.append(r)
        goods[name] = good
        if not good:
            continue
        wd = c.workdir(PROP, name)
        doc = []
        for r in good:
            nbobs = r["nbobs"]
            doc.append({"top": r["top"], "obs": r["obs"], "nb": r["nb"] if nbobs is not None else EMPTY_NB,
                        "nbobs": nbobs if nbobs is not None else EMPTY_NBOBS})
        f = wd / "records.json"
        f.write_text(json.dumps(doc))
        jobs.append((name, ("TypeResolveTrace", "TR_trace.cfg", {"workers": 1, "env": {"TRACE_FILE": str(f)}, "check": False, "timeout": 1500})))
    out = {name: (set(), {}) for name, _ in batches}
    for (name, _), res in zip(jobs, c.tlc_many([j for _, j in jobs]) if jobs else []):
        good = goods[name]
        rej = res.tagged("REJECTED")
        if (res.rc != 0 and not rej) or not res.finished:
            raise c.MachineryError("TypeResolveTrace failed on %s: %s" % (name, res.out[-2500:]))
        rejected = set()
        for r in rej:
            rejected.update(int(x) for x in r)
        verdicts = {int(v[0]): (v[1], v[2]) for v in res.tagged("VERDICT")}
        out[name] = (rejected, verdicts)
        if expect_reject:
            continue
        ck.add_tlc(res)
        nskip = 0
        for tid, r in enumerate(good, 1):
            b, n = verdicts.get(tid, ("ok", "ok"))
            if tid in rejected:
                which = "bonded" if b == "reject" else "non-bonded"
                ck.violation({"kind": "I->S record", "record": r, "verdict": [b, n]},
                             what="record of seed %s rejected by the %s P-layer" % (r["seed"], which))
                continue
            if b == "skip" or n == "skip":
                nskip += 1
                continue
            ck.traces += 1
            if accepted is not None and b == "ok" and n == "ok":
                accepted.append(r)
            ck.nontrivial.add(hashlib.sha1(json.dumps([r["top"], r["nb"]], sort_keys=True).encode()).hexdigest())
        ck.extra["records_outside_domain_skipped"] = ck.extra.get("records_outside_domain_skipped", 0) + nskip
    return out


def validate_records(ck, recs, name, expect_reject=False):
    return validate_batches(ck, [(name, recs)], expect_reject)[name]


def binding_demo(ck, recs):
    """corrupt one recorded field each in three accepted records; all three must be rejected, the untouched one accepted"""
    cands = [r for r in recs if "exception" not in r and r["nbobs"] is not None and not r["obs"]["err"]]
    pick = []
    for r in cands:
        has_typed = any(len(it["par"]) > 1 for i in r["obs"]["inst"] for it in i["inter"]["bonds"])
        if has_typed and r["nb"]["comb"] == 1 and r["nbobs"]["conv"]:
            pick.append(r)
        if len(pick) == 4:
            break
    if len(pick) < 4:
        if ck.violations:
            # the code under test misbehaves on so many records that no accepted baseline is left; the demonstration
            # needs accepted records and says nothing about the code, so it is skipped (the check already exits 1)
            ck.note("binding demonstration skipped: fewer than 4 accepted records to corrupt")
            return
        raise c.MachineryError("binding demonstration: not enough suitable records")
    docs = [json.loads(json.dumps(r)) for r in pick]
    # 1: one resolved parameter of one bond of the last instance altered
    inst = docs[0]["obs"]["inst"][-1]
    [it for it in inst["inter"]["bonds"] if len(it["par"]) > 1][0]["par"][-1] += "9"
    # 2: the monitor's verdict of one converted pair negated
    docs[1]["nbobs"]["conv"][0]["ok"] = False
    # 3: one pair dropped from the table
    docs[2]["nbobs"]["post"].pop()
    docs[2]["nbobs"]["pre"].pop()
    docs[2]["nbobs"]["conv"].pop()
    rejected, verdicts = validate_records(ck, docs, "binding", expect_reject=True)
    if rejected != {1, 2, 3}:
        raise c.MachineryError("binding demonstration failed: corrupted records 1-3 must be rejected and the untouched record 4 accepted; rejected = %s" % sorted(rejected))
    ck.extra["binding_demo"] = "3 records with one corrupted field each (a resolved bond parameter, a conversion verdict, a dropped pair) rejected; the untouched record accepted"


# ------------------------------------------------------------------ entry points

SENS = [("TypeResolveExport", "TR_dev_onedir.cfg", "Conforms", "F4 (repaired): patterns tried on the listed direction only, three masks missing"),
        ("TypeResolveExport", "TR_dev_norev.cfg", "Conforms", "reversed key lookup dropped"),
        ("TypeResolveExport", "TR_dev_firstinst.cfg", "Conforms", "expanded terms only in the first instance"),
        ("TypeResolveExport", "TR_dev_specorder.cfg", "LookupAgrees", "pattern list not ordered by specificity"),
        ("TypeResolveExport", "TR_dev_definefirst.cfg", "Conforms", "macros substituted in the first interaction only"),
        ("TypeResolveExport", "TR_dev_pairs.cfg", "Conforms", "F20 (repaired): pairs never looked up in pairtypes"),
        ("TypeResolveExport", "TR_dev_tblmacro.cfg", "Conforms", "F19 (repaired): macros in type-table entries kept"),
        ("TypeResolveExport", "TR_dev_lazycond.cfg", "Conforms", "a #define inside a block recorded only if the block's condition still holds at that line "
                                                                 "(include guard: everything after the guard's own #define dropped)"),
        ("TypeResolveExport", "TR_dev_blockdropped.cfg", "Conforms", "a #define inside any #ifdef / #ifndef block ignored"),
        ("TypeResolveExport", "TR_find_inactive.cfg", "Conforms", "F37 (repaired): a #define of a branch that is not selected recorded"),
        ("TypeResolveNBExport", "TR_nb_dev_override.cfg", "NConforms", "generated pairs overwrite nonbond_params"),
        ("TypeResolveNBExport", "TR_nb_dev_eps.cfg", "NConforms", "eps = C6^2/(2 C12)"),
        ("TypeResolveNBExport", "TR_nb_dev_sigma.cfg", "NConforms", "sigma^6 = C6/C12"),
        ("TypeResolveNBExport", "TR_nb_dev_self.cfg", "NConforms", "self terms taken from the first atom type")]
HOLD = [("TypeResolveExport", "TR_devhold_pairs.cfg", "I-layer with DevPairsUntyped = P-layer with the pairs deviation"),
        ("TypeResolveExport", "TR_devhold_tblmacro.cfg", "I-layer with DevTableMacrosKept = P-layer with the table-macro deviation"),
        ("TypeResolveExport", "TR_devhold_inactivekept.cfg", "I-layer with DevDefineInactiveKept = P-layer with every #define line counted")]


ACTIONS = ["PragmaIf", "PragmaElse", "PragmaEndif", "PragmaDefine", "ReplaceDefines", "SkipItem", "NextKind", "BeginLookup", "LookupExact", "LookupReversed", "PatternTry", "ApplyTerms", "EndBlock",
           "Propagate", "NextBlock", "GenPair", "GenDone", "SelfTerm", "SelfDone", "Convert", "ConvertDone"]


def run(tier):
    ck = c.Check(PROP, tier)
    ck.rule = ("S->I: every case of four families enumerated by TLC - dihedral grid (16 wildcard masks x entry forward/reversed x interaction "
               "listed forward/reversed x no competitor or a competitor of every mask with a different wildcard count, before or after the entry, "
               "x entry spoiled by a foreign type x 1-3 terms x 1-3 instances x literal / macro parameters), plain kinds (bonds, angles, "
               "constraints, pairs x key forward/reversed x listed forward/reversed x atom types / OPLS bond types x entry present / absent x "
               "macro in the entry), macro styles (5 styles^3 bonds x angle styles x instances, two molecule types), preprocessor lines (one "
               "#ifdef / #ifndef block, tag defined before it or not, with / without #else, a macro used by an interaction, a macro used by the "
               "type-table entries and the OPLS tag each before / in the first branch / in the #else branch / after the block, the block's own "
               "tag defined first or last in a branch or after the block; I = P is checked on every combination, #define lines in "
               "branches that are not selected included, and every combination is replayed, the four file layouts in turn - quick: the OPLS tag moved only while the two "
               "macros sit together - or each under all four layouts), non-bonded (1-3 atom types "
               "x every subset of the unordered pairs in nonbond_params x name order x gen-pairs x comb-rule 1-3, and a 6x6 grid of C6/C12); a "
               "case is distinct by its abstract input. I->S: one record per seeded random topology (4-9 atom types, 1-4 molecule types with "
               "mixed interaction kinds, up to 6 [ molecules ] lines with up to 40 instances each, random nonbond_params, the macro definitions and the OPLS tag half of the time inside an "
               "#ifdef / #ifndef block: include guard, tag defined before, #else branch, tag defined later, other values of the same macros in the "
               "branch that is not selected, default-value blocks) or repository topology")
    ck.assumptions = [
        "no ties: two different keys of equal wildcard count matching one interaction, a key and its reverse both listed, a repeated key outside "
        "dihedraltypes, a pair listed twice in nonbond_params (TLC decides membership; such records are skipped and counted)",
        "the combination rule is not asserted (DESIGN N1): a generated mixed pair must exist and, under comb-rule 1, its sigma/eps must reproduce "
        "what gen_pairs produced",
        "one function type per type table; macros defined before use, macro bodies free of macro names, a tag (macro without value) never used "
        "as a parameter; #ifdef / #ifndef blocks around #define lines are balanced and not nested and contain no #include (a #define in a branch "
        "that is not selected is in the domain and must have no effect: F37, repaired)",
        "bond types are used only when _FF_OPLS / _FF_OPLS_AA is defined (DESIGN 4.9); [ impropers ] has no types directive and is not generated",
        "a [ pairs ] entry without parameters is in the domain only when a matching [ pairtypes ] entry exists (the generation of 1-4 parameters "
        "from atom types is not claimed)",
        "float sigma, eps are compared with the specification's rationals (sigma^6 = C12/C6, eps = C6^2/(4 C12)) by a numeric monitor at 1e-9 relative"]
    sd = c.seed()
    ck.stage("TLC: I = P on the case families, exports, sensitivity runs (concurrently)")
    dih_cfg = "TR_dih_quick.cfg" if tier == "quick" else "TR_dih_full.cfg"
    jobs = [("TypeResolveExport", dih_cfg, {"workers": max(2, c.NPROC // 2), "timeout": 3000, "coverage": True}),
            ("TypeResolveExport", "TR_plain.cfg", {"workers": 2, "coverage": True}),
            ("TypeResolveNBExport", "TR_nb.cfg", {"workers": 2, "coverage": True}),
            ("TypeResolveExport", "TR_cond.cfg" if tier == "quick" else "TR_cond_full.cfg", {"workers": 2, "coverage": True})]
    jobs += [(m, cfg, {"workers": 1, "check": False}) for m, cfg, _, _ in SENS]
    # the two runs that back the diagnostic hint for the repaired F19 / F20 are not needed for a verdict: thorough tier only
    hold = HOLD if tier != "quick" else []
    jobs += [(m, cfg, {"workers": 1}) for m, cfg, _ in hold]
    res = c.tlc_many(jobs)
    NMAIN = 4
    dih, plain, nbx, cond = res[:NMAIN]
    for r, what in zip(res[:NMAIN], ("dihedral family", "plain/macro families", "non-bonded family", "preprocessor-line family: every combination, #define lines in branches not "
                                                   "selected included, intended reader")):
        ck.model_must_hold(r, "I = P (%s)" % what)
    idle = [a for a in ACTIONS if not ck.actions.get(a)]
    if idle:
        raise c.MachineryError("I-layer actions never taken in the exhaustive instance (vacuous): %s" % idle)
    for r, (_, _, inv, what) in zip(res[NMAIN:NMAIN + len(SENS)], SENS):
        ck.model_must_refute(r, inv, what)
    for r, (_, _, what) in zip(res[NMAIN + len(SENS):], hold):
        ck.model_must_hold(r, what)
    cases_d, cases_p, cases_n, cases_c = dih.cases(), plain.cases(), nbx.cases(), cond.cases()
    if not cases_d or not cases_p or not cases_n or not cases_c:
        raise c.MachineryError("an export produced no cases: %d %d %d %d" % (len(cases_d), len(cases_p), len(cases_n), len(cases_c)))
    # non-vacuity of the preprocessor-line family: the include-guard idiom with macros after the guard's own #define, a macro
    # in an #else branch, the OPLS tag inside a block, a block closed at the end of the file
    feats = [pp_features(cs["top"]["defs"]) for cs in cases_c]
    nguard, nelse, noplsin = (sum(1 for f in feats if k in f) for k in ("guard_then_macro", "macro_in_else", "opls_in_block"))
    nwrap = sum(1 for cs in cases_c if cs.get("wrapok"))
    if not (nguard and nelse and noplsin and nwrap):
        raise c.MachineryError("preprocessor-line family is vacuous: include guard %d, macro in #else %d, OPLS tag in a block %d, closable %d" % (
            nguard, nelse, noplsin, nwrap))
    # non-vacuity of the export: the interesting classes must be present
    nmulti = sum(1 for cs in cases_d if not cs["exp"]["err"] and len(cs["exp"]["inst"]) > 1 and len(cs["exp"]["inst"][-1]["inter"]["dihedrals"]) > 1)
    nerr = sum(1 for cs in cases_d + cases_p if cs["exp"]["err"])
    if not nmulti or not nerr:
        raise c.MachineryError("export is vacuous: multi-term multi-instance cases %d, unmatched cases %d" % (nmulti, nerr))
    nlay = 1 if tier == "quick" else len(LAYOUTS)
    ck.extra["cases"] = {"dihedral": len(cases_d), "plain_macro": len(cases_p), "nonbonded": len(cases_n),
                         "preprocessor_lines": len(cases_c), "preprocessor_lines_replays": len(cases_c) * nlay,
                         "include_guard_then_macro": nguard, "macro_in_else_branch": nelse, "opls_tag_in_block": noplsin,
                         "block_closable_at_end_of_file": nwrap,
                         "multi_term_in_later_instance": nmulti, "nothing_matches": nerr}
    ck.sample({"S->I dihedral case": {"table": cases_d[len(cases_d) // 2]["top"]["tables"]["dihedrals"],
                                      "dihedral": cases_d[len(cases_d) // 2]["top"]["mols"][0]["inter"]["dihedrals"],
                                      "molecules": cases_d[len(cases_d) // 2]["top"]["molecules"],
                                      "expected": cases_d[len(cases_d) // 2]["exp"]}})
    ck.sample({"S->I non-bonded case": cases_n[len(cases_n) // 3]})
    ck.sample({"S->I preprocessor-line case": {"lines": [pp_line(d) for d in cases_c[len(cases_c) // 2]["top"]["defs"]],
                                               "bonds expected": cases_c[len(cases_c) // 2]["exp"]["inst"][0]["inter"]["bonds"]}})
    ck.stage("replay %d + %d + %d + %d x %d cases on the real code" % (len(cases_d), len(cases_p), len(cases_n), len(cases_c), nlay))
    replay_cases(ck, cases_d, "dihedral")
    replay_cases(ck, cases_p, "plain")
    replay_cases(ck, cases_n, "nb")
    replay_cases(ck, cases_c, "cond", cycle=True, all_layouts=(tier != "quick"))
    ck.stage("I->S: record seeded random topologies and repository topologies")
    nrec = 240 if tier == "quick" else 3000
    recs = record_random(nrec, sd)
    big = record_random(40 if tier == "quick" else 500, sd + 1, big=True)
    repo = record_repo(ck)
    ck.extra["records"] = {"random": len(recs), "random_large": len(big), "repository": len(repo),
                           "with_conditional_block": sum(1 for r in recs + big if "block" in pp_features(r["top"]["defs"])),
                           "with_include_guard": sum(1 for r in recs + big if "guard_then_macro" in pp_features(r["top"]["defs"])),
                           "with_define_in_unselected_branch": sum(1 for r in recs + big if r.get("unselected"))}
    if not ck.extra["records"]["with_define_in_unselected_branch"]:
        raise c.MachineryError("no recorded topology with a #define in a branch that is not selected")
    if not ck.extra["records"]["with_include_guard"]:
        raise c.MachineryError("no recorded topology with an include guard: the random inputs are vacuous for the preprocessor lines")
    ex = [r for r in recs if "exception" not in r]
    if ex:
        r0 = ex[0]
        ck.sample({"I->S record (seed %s)" % r0["seed"]: {"molecules": r0["top"]["molecules"], "dihedraltypes": r0["top"]["tables"]["dihedrals"][:4],
                                                          "first instance, dihedrals": (r0["obs"]["inst"] or [{"inter": {"dihedrals": []}}])[0]["inter"]["dihedrals"][:4]}})
    ck.stage("TLC: validate %d records" % (len(recs) + len(big) + len(repo)))
    accepted = []
    bsz = 120 if tier == "quick" else 300
    batches = [("records_%d" % i, recs[k:k + bsz]) for i, k in enumerate(range(0, len(recs), bsz))]
    batches += [("records_big_%d" % i, big[k:k + 100]) for i, k in enumerate(range(0, len(big), 100))]
    batches.append(("records_repo", repo))
    for k in range(0, len(batches), max(2, c.NPROC // 2)):
        validate_batches(ck, batches[k:k + max(2, c.NPROC // 2)], accepted=accepted)
    nerr_rec = sum(1 for r in recs + big if "exception" not in r and r["obs"]["err"])
    ck.extra["records_with_unmatched_interaction"] = nerr_rec
    ck.stage("binding demonstration")
    binding_demo(ck, [r for r in accepted if "nbtok" in r])
    ck.exhaustive = True
    return ck.finish()


def replay(path):
    doc = json.loads(open(path).read())
    case = doc["case"]
    ck = c.Check(PROP, "quick")
    wd = c.workdir(PROP, "replay_one")
    if case["kind"].startswith("S->I"):
        tag = case["kind"].split()[1]
        r = (check_nb_case if tag == "nb" else check_bonded_case)(case["case"], wd, case.get("layout", 0))
        print("topology written to %s" % (wd / "topol.top"))
        if r:
            print("replayed: still differs: %s" % r[0])
            return 1
        print("replayed: matches now")
        return 0
    rec = case["record"]
    if "exception" in rec:
        render(rec["top"], rec.get("nbtok") or default_nb(rec["top"]), wd, rec.get("layout", 0), bool(rec.get("wrapok")))
        status, t = run_real(wd / "topol.top")
        print("replayed: %s" % ("still raises: %s" % t if status == "exception" else "no exception now"))
        return 1 if status == "exception" else 0
    if "nbtok" in rec:   # re-run the real code on the recorded input
        path = render(rec["top"], rec["nbtok"], wd, rec.get("layout", 0), bool(rec.get("wrapok")))
        status, t = run_real(path)
        if status == "exception":
            print("replayed: the code raises now: %s" % t)
            return 1
        rec["obs"], rec["nbobs"] = observe(t, status, rec["nbtok"]["comb"])
    rejected, verdicts = validate_records(ck, [rec], "replay_rec")
    print("replayed: %s %s" % ("still rejected" if ck.violations else "accepted now", verdicts.get(1, "")))
    return 1 if ck.violations else 0
