"""C12 - sequence inputs produce exactly the specified residue graph.

spec/SeqInput.tla   P-layer Linear / Translate / Terminal / IgCircular / Expand / BalancedTree / ExpGenSeq / JsonRoundTrip,
                    I-layer ReadLine, EndLines, Close, AddMonomer, AddMacro, AddConnect, ModTer, Label, Write, ReadBack
spec/SeqInputMC.tla     the bounded instances (which inputs TLC enumerates)
spec/SeqInputExport.tla S->I: every input + expected labelled residue graph (gen_seq: the behaviour step by step)
spec/SeqInputTrace.tla  I->S: records of the real code on long / random inputs, judged by the P-layer (gen_seq: step by step)

S->I : the exported inputs are rendered as real .txt / .fasta / .ig / .json files, -seq lists and gen_seq argument lists, run
       through MetaMolecule.from_sequence_file / split_seq_string + from_monomer_seq_linear / gen_seq (+ a subset through
       gen_params, observing the MetaMolecule handed to MapToMolecule and the residues of the .itp) and compared by residue id.
I->S : seeded random long sequences, deep trees, many connects -> records validated by TLC in batches.
"""
import json
import random

from .. import common as c
from .. import seq_util as u

FAST = {"JAVA_TOOL_OPTIONS": "-Xss64m -XX:TieredStopAtLevel=1"}     # short TLC runs: no C2 compilation (3x less CPU)
PROP = "C12"
DEVS = [("F2", "Final"), ("NoLastEdge", "Final"), ("TableTypo", "Final"), ("TermSwap", "Final"), ("NoCircLabel", "Final"),
        ("CircStrip", "Final"), ("TreeHeight", "Final"), ("TreePath", "Final"), ("ConnOff", "Final"), ("ConnWrongInst", "Shape"),
        ("TerDeg0", "Final"), ("LabelSkipFirst", "Final"), ("ReadDropsLabels", "Final"),
        ("TitleAsSeq", "Final"), ("FileNoEdges", "Final"), ("FileConnByResid", "Shape")]
ACTS = ["AddMacro", "AddConnect", "ModTer", "Label", "Write", "ReadBack"]


def key(inp):
    return json.dumps(inp, sort_keys=True)


# ------------------------------------------------------------------ S -> I

def _run_case(case, wd, stem):
    """execute one exported case on the real code -> (None | what differs, observed, rendered input)"""
    inp = case["inp"]
    fam = inp["fam"]
    exp = u.norm_expected(case["g"])
    free = set(u._seq(case["free"]))
    if fam == "file":
        obs, text = u.run_file(inp, wd, stem)
        return u.diff(obs, exp, free), obs, text
    if fam == "json":
        obs, text = u.run_json(inp, wd, stem)
        return u.diff(obs, exp, free), obs, text
    if fam == "seqlist":
        obs = u.run_seqlist(inp)
        return u.diff(obs, exp, free), obs, " ".join(u.seqlist_args(inp))
    if fam == "genseq":
        events, args = u.run_genseq(inp, wd, stem)
        hist = case["hist"]
        for k, want in enumerate(hist):
            if k >= len(events):
                return "step %d (%s) never happened" % (k, want["act"]), events, args
            got = events[k]
            if got["act"] == "Exception":
                return "gen_seq raised %s at step %d (%s)" % (got["exc"], k, want["act"]), events, args
            if got["act"] != want["act"]:
                return "step %d is %s, expected %s" % (k, got["act"], want["act"]), events, args
            d = u.diff(got["g"], u.norm_expected(want["g"]), free)
            if d:
                return "after step %d (%s): %s" % (k, want["act"], d), events, args
        if len(events) != len(hist):
            return "%d steps observed, %d expected" % (len(events), len(hist)), events, args
        # the graph read back is the specified graph (P-layer), and it equals what was written
        d = u.diff(events[-1]["g"], exp, free) or u.diff(events[-2]["g"], exp, free)
        return d, events, args
    raise c.MachineryError("unknown family %s" % fam)


def _replay_chunk(arg):
    ci, cases, wd = arg
    u.setenv()
    bad = []
    for k, case in cases:
        why, obs, text = _run_case(case, wd, "c%d" % ci)
        if why:
            bad.append((k, why, obs, text))
    return bad, len(cases)


def _gp_chunk(arg):
    """a subset through the real gen_params: the MetaMolecule handed to MapToMolecule and the residues of the .itp"""
    ci, cases, wd, ff = arg
    u.setenv()
    bad = []
    for k, case in cases:
        inp = case["inp"]
        exp = u.norm_expected(case["g"])
        if inp["fam"] == "file":
            p, text = u.render_file(inp, wd, "g%d" % ci)
            r = u.run_gen_params(wd, "g%d" % ci, ff, seq_file=p)
        elif inp["fam"] == "json":
            p, text = u.render_json(inp, wd, "g%d" % ci)
            r = u.run_gen_params(wd, "g%d" % ci, ff, seq_file=p)
        elif inp["fam"] == "genseq":
            # the .json written by the real gen_seq, read by the real gen_params
            events, text = u.run_genseq(inp, wd, "g%d" % ci)
            if events[-1]["act"] == "Exception":
                bad.append((k, "gen_seq raised %s" % events[-1]["exc"], events, text))
                continue
            r = u.run_gen_params(wd, "g%d" % ci, ff, seq_file=u.Path(wd) / ("g%d.json" % ci))
        else:
            text = " ".join(u.seqlist_args(inp))
            r = u.run_gen_params(wd, "g%d" % ci, ff, seq=u.seqlist_args(inp))
        if "exc" in r:
            bad.append((k, "gen_params raised %s" % r["exc"], r, text))
            continue
        why = u.diff(r["g"], exp)
        if not why and r["itp"] is None:
            # MapToMolecule and later stages are only claimed for connected residue graphs (DESIGN 3); a disconnected
            # graph is still compared where gen_params hands it over
            if u.connected(exp):
                why = "gen_params raised %s after the residue graph was built" % r["after"]
        elif not why and r["itp"] != [[i + 1, nm] for i, nm in enumerate(exp["name"])]:
            why = "residues of the .itp are %s" % (r["itp"][:8],)
        if why:
            bad.append((k, "gen_params: " + why, r, text))
    return bad, len(cases)


def _report(ck, label, cases, results):
    nbad = 0
    for bad, n in results:
        ck.evaluations += n
        for k, why, obs, text in bad:
            nbad += 1
            case = cases[k]
            ck.violation({"kind": "S->I " + label, "inp": case["inp"], "expected": case["g"], "free": case["free"],
                          "hist": case.get("hist", []), "observed": obs, "rendered": text},
                         what="%s: %s; input %s" % (label, why, (repr(text) if isinstance(text, str) else json.dumps(text))[:400]))
    return nbad


def _replay(ck, label, cases):
    if not cases:
        raise c.MachineryError("%s: TLC exported no cases" % label)
    wd = c.workdir(PROP, "replay_" + label)
    parts = [(i, ch, str(wd)) for i, ch in enumerate(c.chunks(list(enumerate(cases)), c.NPROC * 3))]
    res = c.pmap(_replay_chunk, parts)
    ck.replayed += len(cases)
    for case in cases:
        ck.nontrivial.add(key(case["inp"]))
        for ev in case.get("hist", []):
            ck.actions[ev["act"]] = ck.actions.get(ev["act"], 0) + 1
    return _report(ck, label, cases, res)


def _gen_params_subset(ck, cases, nmax, sd, label="gen_params"):
    rng = random.Random(sd)
    pool = [x for x in cases if not u._seq(x["free"])]
    pick = rng.sample(pool, min(nmax, len(pool)))
    wd = c.workdir(PROP, label)
    ff = wd / "universe.ff"
    u.universe_ff(ff)
    parts = [(i, ch, str(wd), str(ff)) for i, ch in enumerate(c.chunks(list(enumerate(pick)), c.NPROC * 2))]
    res = c.pmap(_gp_chunk, parts)
    ck.extra["through_" + label] = len(pick)
    return _report(ck, "gen_params", pick, res)


# ------------------------------------------------------------------ I -> S

def _rand_comp(rng, n, maxline):
    out = []
    while n > 0:
        k = rng.randint(1, min(n, maxline))
        out.append(k)
        n -= k
    return out


def gen_inputs(ntr, sd, big):
    """seeded abstract inputs beyond the exhaustive bound (inside the stated domain)"""
    rng = random.Random(sd)
    inps = []
    names_pool = ["PEO", "PS", "A", "N1", "P3HT", "GLY", "DA5", "X1"]
    alph = {"DNA": "ACGT", "RNA": "ACGT", "PROTEIN": u.AA}
    titles = ["title", "seqA", "my_plasmid", "GATTACA", "TATA", "CAT", "ACTA", "G", "chr7 region", "T4 lysozyme"]
    for t in range(ntr):
        r = t % 6
        if r in (0, 1, 2):
            n = rng.randint(5, 400 if big else 120)
            if r == 0:
                inps.append({"fam": "file", "fmt": "txt", "kind": "NAMES", "toks": [rng.choice(names_pool) for _ in range(n)],
                             "lines": _rand_comp(rng, n, 12), "circ": False, "terOwn": False, "nl": rng.random() < 0.5, "title": []})
            else:
                kind = rng.choice(["DNA", "RNA", "PROTEIN"])
                fmt = "fasta" if r == 1 else "ig"
                inps.append({"fam": "file", "fmt": fmt, "kind": kind, "toks": [rng.choice(alph[kind]) for _ in range(n)],
                             "lines": _rand_comp(rng, n, 60), "circ": fmt == "ig" and rng.random() < 0.5,
                             "terOwn": fmt == "ig" and rng.random() < 0.3, "nl": rng.random() < 0.7,
                             "title": list(rng.choice(titles)) if fmt == "ig" else []})
                # the comment text is part of the abstract input: TLC reads the alphabet from it (HdrKind), the record's kind is not believed
                words = [rng.choice(u.HDR_WORDS) for _ in range(rng.randint(0, 3))]
                words.insert(rng.randint(0, len(words)), rng.choice([kind, kind + ",", "(" + kind + ")", "my" + kind]))
                inps[-1]["hdr"] = list(" ".join(words))
        elif r == 3:
            inps.append({"fam": "seqlist", "blocks": [{"name": rng.choice(names_pool), "cnt": rng.randint(1, 40)}
                                                      for _ in range(rng.randint(1, 8))]})
        elif r == 4:
            n = rng.randint(5, 40)
            links = [[rng.randrange(0, b), b] if rng.random() < 0.5 else [b, rng.randrange(0, b)] for b in range(1, n)]
            extra = set()
            for _ in range(rng.randint(0, 5)):
                a, b = rng.sample(range(n), 2)
                if not any(set(l) == {a, b} for l in links):
                    extra.add((min(a, b), max(a, b)))
            links += [list(e) for e in sorted(extra)]
            rng.shuffle(links)
            order = list(range(1, n + 1))
            rng.shuffle(order)
            inps.append({"fam": "json", "names": [rng.choice(names_pool) for _ in range(n)], "order": order, "links": links})
        else:
            inps.append(_rand_genseq(rng))
    return inps


def _rand_genseq(rng):
    defs = {}
    for nm in rng.sample(["A", "B", "C", "D"], rng.randint(1, 4)):
        while True:
            lev, br = rng.randint(1, 5), rng.randint(1, 4)
            size = sum(br ** l for l in range(lev))
            if size <= 45:
                break
        if rng.random() < 0.3:
            lev, br = rng.randint(4, 30), 1
        defs[nm] = {"kind": "str", "lev": lev, "br": br, "res": "R" + nm}
    if rng.random() < 0.6:
        # a macro taken from an itp file: random tree of 2-12 residues, residue numbers of the file start anywhere, with gaps
        nres = rng.randint(2, 12)
        rid, resids = rng.randint(1, 30), []
        for _ in range(nres):
            resids.append(rid)
            rid += rng.choice([1, 1, 1, 2, 5])
        defs["F"] = {"kind": "file", "names": [rng.choice(["GLY", "ALA", "SER", "LYS", "PEO"]) for _ in range(nres)], "resids": resids,
                     "bonds": [[rng.randint(1, b - 1), b] for b in range(2, nres + 1)]}
    size = {nm: (len(d["names"]) if d["kind"] == "file" else sum(d["br"] ** l for l in range(d["lev"]))) for nm, d in defs.items()}
    seq = [rng.choice(sorted(defs)) for _ in range(rng.randint(1, 6))]
    if "F" in defs and "F" not in seq:
        seq.insert(rng.randint(0, len(seq)), "F")
    connects = []
    for _ in range(rng.randint(0, 6)):
        i, j = rng.randrange(len(seq)), rng.randrange(len(seq))
        pairs = []
        for _ in range(rng.randint(1, 2)):
            a, b = rng.randrange(size[seq[i]]), rng.randrange(size[seq[j]])
            if i == j and a == b:
                continue
            pairs.append([a, b])
        if pairs:
            connects.append({"i": i, "j": j, "pairs": pairs})
    ends = [{"i": rng.randrange(len(seq)), "name": rng.choice(["END", "CAP", "OH"])} for _ in range(rng.randint(0, 3))]
    labels = [{"i": rng.randrange(len(seq)), "key": rng.choice(["chiral", "tag"]), "val": rng.choice(["R", "S", "T"])}
              for _ in range(rng.randint(0, 3))]
    return {"fam": "genseq", "defs": defs, "seq": seq, "connects": connects, "ends": ends, "labels": labels}


def _record_chunk(arg):
    ci, inps, wd = arg
    u.setenv()
    out = []
    for inp in inps:
        fam = inp["fam"]
        if fam == "genseq":
            events, _ = u.run_genseq(inp, wd, "t%d" % ci)
            evs = []
            for ev in events:
                if ev["act"] == "Exception":
                    evs.append({"act": "ReadBack", "g": u.obs_for_trace(ev)})   # logged so that the trace is rejected here
                    break
                evs.append({"act": ev["act"], "g": u.obs_for_trace(ev["g"])})
            out.append({"inp": inp, "events": evs})
            continue
        if fam == "file":
            obs, _ = u.run_file(inp, wd, "t%d" % ci)
        elif fam == "json":
            obs, _ = u.run_json(inp, wd, "t%d" % ci)
        else:
            obs = u.run_seqlist(inp)
        out.append({"inp": inp, "events": [{"act": "Result", "rej": False, "g": u.obs_for_trace(obs)}]})
    return out


def record(inps, name):
    wd = c.workdir(PROP, "rec_" + name)
    parts = [(i, ch, str(wd)) for i, ch in enumerate(c.chunks(inps, c.NPROC * 2))]
    traces = []
    for part in c.pmap(_record_chunk, parts):
        traces.extend(part)
    return traces


validate = u.validate


def validate_batches(ck, traces, name, size=500):
    """P-layer validation in batches; every rejected record is a violation (there is no known finding for C12: F2 and F18
    are repaired, their return must be reported)"""
    bad = []
    parts = c.chunks(traces, max(1, (len(traces) + size - 1) // size))
    from concurrent.futures import ThreadPoolExecutor
    with ThreadPoolExecutor(max(1, min(4, c.NPROC // 2))) as ex:
        results = list(ex.map(lambda bp: validate(bp[1], "%s_%d" % (name, bp[0])), enumerate(parts)))
    for part, (res, rejected) in zip(parts, results):
        ck.add_tlc(res)
        ck.traces += len(part) - len(rejected)
        for tid, matched in sorted(rejected.items()):
            bad.append((part[tid - 1], matched))
            part[tid - 1]["_rejected"] = True
    if not bad:
        return 0
    nviol = 0
    for tr, matched in bad:
        nviol += 1
        ev = tr["events"][matched] if matched < len(tr["events"]) else {}
        ck.violation({"kind": "I->S trace", "trace": {"inp": tr["inp"], "events": tr["events"]}, "matched_events": matched},
                     what="record of the real code rejected by SeqInput after %d matched events: input %s ; next event %s" % (
                         matched, json.dumps(tr["inp"])[:300], json.dumps(ev)[:300]))
    return nviol


def binding_demo(ck, traces):
    """one corrupted field must be rejected, and only that trace"""
    import copy
    good = [t for t in traces if not t.get("_rejected")]            # only records the specification accepted
    demo = copy.deepcopy([t for t in good if t["inp"]["fam"] != "genseq"][:3] + [t for t in good if t["inp"]["fam"] == "genseq"][:2])
    if len(demo) < 5:
        if ck.violations:
            ck.note("binding demonstration skipped: fewer than 5 accepted records")
            return
        raise c.MachineryError("binding demonstration: not enough traces")
    g = demo[0]["events"][0]["g"]
    g["name"][len(g["name"]) // 2] = "XXX"                              # a wrong residue name in a pure-function record
    ev = demo[3]["events"][0]["g"]
    ev["edges"] = ev["edges"][:-1] if ev["edges"] else [{"a": 1, "b": 1, "l": ""}]   # a lost edge in the first gen_seq step
    _, rej = validate(demo, "binding")
    if set(rej) != {1, 4}:
        raise c.MachineryError("binding demonstration failed: corrupted traces 1 and 4 expected to be rejected, got %s" % sorted(rej))
    ck.extra["binding_demo"] = "of 5 recorded traces the 2 corrupted ones (one residue name; one dropped edge in a gen_seq step) were rejected: %s" % rej


# ------------------------------------------------------------------ entry points

def run(tier):
    ck = c.Check(PROP, tier)
    q = tier == "quick"
    import polyply  # noqa: F401  (imported before the worker pools fork)
    sd = c.seed()
    ck.rule = ("S->I: TLC enumerates every one-letter sequence of length 1-4 over alphabet slices covering all DNA / RNA / protein letters "
               "with every line breaking (.fasta, .ig linear/circular, terminator on its own line), .txt names, -seq NAME:n lists, "
               ".json files in every node order, gen_seq inputs (levels 1-3 x branching 1-3, <=3 instances of 2 definitions, <=2 connect "
               "records, terminal renaming, labels); each exported input is rendered as a real file / argument list and run; a case is "
               "distinct by its abstract input. I->S: seeded random long sequences (5-400), -seq lists, shuffled .json graphs, gen_seq with "
               "deep trees and many connects, recorded from the real code and judged by TLC")
    ck.assumptions = [".txt files: single-space separated, no blank lines (as stated)",
                      "the terminal name of a one-nucleotide linear strand is not asserted (the code gives e.g. DA53); count and numbering are",
                      "circular .ig needs >= 3 residues",
                      "gen_seq: the name of a residue without any neighbour in an instance whose termini are renamed is not asserted",
                      "connect / modification / label records use the 0-based indices of the repository's tests; label and modification "
                      "records refer to existing instances; macro residue mixes have one residue with probability 1",
                      "trusted: TLC, the rendering and projection in harness/seq_util.py, networkx"]
    ck.stage("TLC: exports (with all invariants) and sensitivity runs, concurrently")
    t = "q" if q else "t"
    jobs = [("SeqInputExport", "Seq_fasta_%s.cfg" % t, {"workers": 2, "env": FAST}),
            ("SeqInputExport", "Seq_ig_%s.cfg" % t, {"workers": 3, "env": FAST}),
            ("SeqInputExport", "Seq_plain.cfg", {"workers": 2, "env": FAST}),
            ("SeqInputExport", "Seq_gen_%s.cfg" % t, {"workers": 6})]
    jobs += [("SeqInputMC", "Seq_dev_%s.cfg" % d, {"check": False, "workers": 1, "env": FAST}) for d, _ in DEVS]
    res = c.tlc_many(jobs)
    fasta, ig, plain, gen = res[:4]
    for r, what in ((fasta, "fasta"), (ig, "ig"), (plain, "txt/-seq/json"), (gen, "gen_seq")):
        ck.model_must_hold(r, "Shape/Final/RoundTrip/Laws/Grows (%s)" % what)
    for (d, inv), r in zip(DEVS, res[4:]):
        ck.model_must_refute(r, inv, "deviation %s" % d)
    ck.extra["deviations_refuted"] = [d for d, _ in DEVS]
    # ---- S->I
    ck.stage("replay: files")
    fcases, icases, pcases, gcases = fasta.cases(), ig.cases(), plain.cases(), gen.cases()
    ck.sample({"S->I input": icases[len(icases) // 2]["inp"], "expected": icases[len(icases) // 2]["g"]})
    ck.sample({"S->I gen_seq input": gcases[len(gcases) // 3]["inp"], "behaviour": [h["act"] for h in gcases[len(gcases) // 3]["hist"]],
               "expected": gcases[len(gcases) // 3]["g"]})
    # non-vacuity of the corners the statement names
    nv = {"circular": sum(1 for x in icases if x["inp"]["circ"]),
          "one_residue": sum(1 for x in fcases + icases + pcases if x["g"]["n"] == 1),
          "several_lines": sum(1 for x in fcases + icases + pcases if x["inp"]["fam"] == "file" and len(x["inp"]["lines"]) > 1),
          "terminal_name_left_open": sum(1 for x in fcases + icases if u._seq(x["free"])),
          "gen_seq_two_connect_records": sum(1 for x in gcases if len(u._seq(x["inp"]["connects"])) == 2),
          "gen_seq_renamed_and_labelled": sum(1 for x in gcases if u._seq(x["inp"]["ends"]) and u._seq(x["inp"]["labels"])),
          "gen_seq_three_instances": sum(1 for x in gcases if len(x["inp"]["seq"]) == 3),
          "ig_title_only_ACGT": sum(1 for x in icases if set(x["inp"]["title"]) <= set("ACGT")),
          "file_macro_not_first_or_twice": sum(1 for x in gcases if any(d.get("kind") == "file" for d in x["inp"]["defs"].values())
                                               and (x["inp"]["seq"][0] != "F" or list(x["inp"]["seq"]).count("F") > 1)),
          "file_macro_itp_resids_not_from_1": sum(1 for x in gcases if any(d.get("kind") == "file" and list(d["resids"]) != [1, 2, 3]
                                                                             for d in x["inp"]["defs"].values()))}
    if not all(nv.values()):
        raise c.MachineryError("vacuous instance: %s" % nv)
    ck.extra["instance_corners"] = nv
    _replay(ck, "fasta", fcases)
    _replay(ck, "ig", icases)
    _replay(ck, "plain", pcases)
    ck.stage("replay: gen_seq")
    _replay(ck, "gen_seq", gcases)
    for a in ACTS:
        if not ck.actions.get(a):
            raise c.MachineryError("action %s never occurs in the exported behaviours (vacuous)" % a)
    ck.stage("subset through gen_params")
    _gen_params_subset(ck, fcases + icases + pcases, 150 if q else 600, sd)
    _gen_params_subset(ck, gcases, 60 if q else 300, sd + 1, "gen_params_genseq")
    # ---- I->S
    ck.stage("I->S: record")
    inps = gen_inputs(420 if q else 3000, sd, big=not q)
    traces = record(inps, "main")
    ck.evaluations += len(traces)
    for tr in traces:
        ck.nontrivial.add(key(tr["inp"]))
    ck.sample({"I->S record": {"inp": traces[5]["inp"], "events": [e["act"] for e in traces[5]["events"]]}})
    ck.stage("I->S: validate")
    validate_batches(ck, traces, "main")
    binding_demo(ck, traces)
    ck.exhaustive = True
    return ck.finish()


def replay(path):
    doc = json.loads(open(path).read())
    case = doc["case"]
    if case["kind"].startswith("S->I"):
        wd = c.workdir(PROP, "replay_one")
        cs = {"inp": case["inp"], "g": case["expected"], "free": case["free"], "hist": case.get("hist", [])}
        if case["kind"] == "S->I gen_params":
            ff = wd / "universe.ff"
            u.universe_ff(ff)
            bad, _ = _gp_chunk((0, [(0, cs)], str(wd), str(ff)))
        else:
            bad, _ = _replay_chunk((0, [(0, cs)], str(wd)))
        for _, why, obs, text in bad:
            print("still differs: %s\n  input: %s\n  observed: %s" % (why, text, json.dumps(obs)[:1500]))
        if not bad:
            print("replayed: matches now")
        return 1 if bad else 0
    _, rej = validate([case["trace"]], "replay_one")
    print("replayed: %s" % ("still rejected after %d events" % rej[1] if rej else "accepted now"))
    return 1 if rej else 0
