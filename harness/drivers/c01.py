"""C01 - every residue is a verbatim, re-indexed copy of its force-field block.

spec/FFMap.tla : P-layer PBase / PFinal (C01_Inv, Base_Inv, Layout_Inv), I-layer MatchNodes / TagExclusions / AddBlock /
                 ApplyLinks / ApplyMods; deviation flags for the catches of DESIGN 4.1 and the findings F7 F14 F15 F30 F31 F32.
S->I : TLC enumerates instance G (all connected residue graphs on <= 4 residues x names over two blocks and the two-residue
       block x first residue id 1 / 5 x force fields), S (every intra-block interaction set), M (atom-removing / retyping
       links, -mods selections); every input is rendered as real .ff and polyply .itp files and run through
       load_ff_library + MetaMolecule + MapToMolecule + ApplyLinks + ApplyModifications (a subset through gen_params and
       the written .itp); molecule after MapToMolecule and final molecule are compared with PBase / PFinal.
I->S : seeded random larger inputs and library force fields through the real code; FFTrace.tla validates the records.
"""
import json
import random
from pathlib import Path

from .. import common as c
from .. import ffmap_util as u
from .. import ffmap_trace as t

PROP = "C01"


# ------------------------------------------------------------------ S -> I

def exc_matches(exc, err):
    """does the exception of the real code correspond to the error the I-layer (with the open deviations) predicts?"""
    # no finding is open (F14, F30, F31, F32 repaired): an exception of the code is a violation again.  The hook stays for
    # the exact classification of a future open finding (error kind of the I-layer with DevAsIs -> exception type and site).
    return False


def classify(case, obs, asis):
    """compare one observed run with the P-layer results; returns (verdict, sig, why)
    verdict: "ok" | "known" | "violation" """
    exp_base, exp = case["base"], case["exp"]
    if "exc" in obs:
        e = obs["exc"]
        for a in asis:
            if a["err"] and a["fired"] and exc_matches(e, a["err"]):
                return "known", u.attribute(a["fired"], a["err"]), "%s at %s" % (e["type"], e["site"])
        return "violation", None, "the code raised %s (%s) at %s in stage %s: %s" % (e["type"], e["site"], e["site"], e["stage"], e["msg"][:200])
    why = u.diff_mol(exp_base, obs["base"], what="after MapToMolecule") or u.diff_mol(exp, obs["final"], what="final molecule")
    if why is None:
        return "ok", None, ""
    for a in sorted(asis, key=lambda a: len(a["fired"])):
        if not a["err"] and a["fired"] and u.diff_mol(a["got"], obs["final"], what="") is None:
            return "known", u.attribute(a["fired"]), why
    return "violation", None, why


def classify_itp(case, g, asis):
    """the written .itp against PFinal (no version tags, no residue->atoms map in a file)"""
    if "exc" in g:
        e = g["exc"]
        for a in asis:
            if a["err"] and a["fired"] and exc_matches(e, a["err"]):
                return "known", u.attribute(a["fired"], a["err"]), "gen_params: %s at %s" % (e["type"], e["site"])
        return "violation", None, "gen_params raised %s at %s: %s" % (e["type"], e["site"], e["msg"][:200])
    d = u.diff_mol(case["exp"], g["final"], with_ver=False, gattr=False, what="written .itp", itp=True)
    if d is None:
        return "ok", None, ""
    for a in sorted(asis, key=lambda a: len(a["fired"])):
        if not a["err"] and a["fired"] and u.diff_mol(a["got"], g["final"], with_ver=False, gattr=False, what="", itp=True) is None:
            return "known", u.attribute(a["fired"]), d
    return "violation", None, d


def _replay_chunk(arg):
    chunk, ffs, asis, wd, sd, gp_every = arg
    u_wd = Path(wd)
    rendered = {}
    out = []
    for ci, case, fmt in chunk:
        inp = case["inp"]
        ff = ffs[inp["ff"] - 1]
        key = (inp["ff"], fmt)
        if key not in rendered:
            rendered[key] = u.render_ff(ff, fmt, u_wd / ("ff%d_%s" % key), tag="f")
        rng = random.Random(sd * 1000003 + ci)
        lay = u.graph_layout(inp, rng)
        obs = u.run_processors(rendered[key], inp, lay)
        verdict, sig, why = classify(case, obs, asis.get(u.case_key(inp), []))
        gp = None
        if verdict == "ok" and gp_every and ci % gp_every == 0:
            # the same input through the real entry point (sequence .json in, .itp out); parse_json re-orders the nodes,
            # so an order-dependent finding may show here although the processors run above did not meet it
            g = u.run_gen_params(rendered[key], inp, lay, u_wd)
            verdict, sig, why = classify_itp(case, g, asis.get(u.case_key(inp), []))
            obs = g
            gp = g
        if verdict != "ok":
            out.append((ci, fmt, verdict, sig, why, lay, obs if verdict == "violation" else None))
        else:
            out.append((ci, fmt, "ok", None, "gp" if gp is not None else "", None, None))
    return out


def replay_instance(ck, label, res, res_asis, tier, sd, fmts_for, gp_every):
    cases = [u.norm_case(x) for x in res.cases()]
    if not cases:
        raise c.MachineryError("%s exported no cases" % label)
    ffs = u.ffs_of(res)
    asis = {}
    for a in (res_asis.cases() if res_asis is not None else []):
        u.norm_case(a)
        asis.setdefault(u.case_key(a["inp"]), []).append(a)
    work = []
    for ci, case in enumerate(cases):
        ff = ffs[case["inp"]["ff"] - 1]
        for fmt in fmts_for(ci):
            if u.can_render(ff, fmt):
                work.append((ci, case, fmt))
    wd = c.workdir(PROP, "replay_" + label)
    parts = [(ch, ffs, asis, str(wd / ("w%d" % i)), sd, gp_every) for i, ch in enumerate(c.chunks(work, c.NPROC * 3))]
    nv = ngp = 0
    for outs in c.pmap(_replay_chunk, parts):
        for ci, fmt, verdict, sig, why, lay, obs in outs:
            ck.evaluations += 1
            case = cases[ci]
            if verdict == "ok":
                ngp += 1 if why == "gp" else 0
                continue
            doc = {"kind": "S->I replay", "instance": label, "fmt": fmt, "ff": ffs[case["inp"]["ff"] - 1], "case": case, "layout": lay, "observed": obs}
            what = "%s (%s syntax): residues %s first id %d edges %s: %s" % (label, fmt, case["inp"]["rn"], case["inp"]["start"], case["inp"]["edges"], why)
            if verdict == "known":
                ck.violation(doc, sig=sig, what=what)
            else:
                nv += 1
                ck.violation(doc, what=what)
    ck.replayed += len(work)
    for case in cases:
        ck.nontrivial.add(label + u.case_key(case["inp"]))
    ck.extra.setdefault("gen_params_runs", 0)
    ck.extra["gen_params_runs"] += ngp
    ck.extra.setdefault("instances", {})[label] = {"inputs": len(cases), "runs": len(work), "force_fields": len(ffs)}
    return cases, ffs


# ------------------------------------------------------------------ entry points

DEVS = [("FF_Gsmall", "unsorted", "C01_Inv", "m01: residues not sorted by residue id"),
        ("FF_Gsmall", "firstkeeps", "C01_Inv", "m02: first residue keeps the block's residue id"),
        ("FF_X4", "sliceany", "C01_Inv", "F15 (repaired): fragment nodes sliced in set order"),
        ("FF_Gsmall", "offbyone", "C01_Inv", "atom offset of merged interactions off by one"),
        ("FF_Msmall", "renumber", "C01_Inv", "F7 (repaired): atom removal renumbers all residue ids from 0"),
        ("FF_Msmall", "keepremoved", "C01_Inv", "m03: interactions of removed atoms kept"),
        ("FF_Gsmall", "f14", "C01_Inv", "F14 (repaired fc4ff7c): first fragment keeps the block's residue ids"),
        ("FF_Gsmall", "f31", "C01_Inv", "F31 (repaired): fragments found along depth-first tree edges only"),
        ("FF_S", "f30", "C01_Inv", "F30 (repaired cca8623): block interactions with equal (section, atoms, version) collapse"),
        ("FF_X5", "f32", "C01_Inv", "F32 (repaired): block-copy correspondences looked up by fragment number"),
        ("FF_Msmall", "versioninkey", "C01_Inv", "removed-node-key-equals-version (repaired): write-back tests the version number as an atom"),
        ("FF_Msmall", "modanyres", "C01_Inv", "a modification touching another residue"),
        ("FF_Msmall", "modanyname", "C01_Inv", "seed-C01-2: a modification applied to a residue that is not a protein residue")]
# seed3-C01-2 (residue-node attributes written into the atoms) has no flag of its own: node attributes are not part of the abstract
# input; it is caught by PBase (atoms keep the block's residue name, charge, ...) on blocks whose atoms are named differently from
# the residue nodes (force fields 3 and 5 of instance G / X) and on the node attributes the harness draws (ffmap_util.extra_attrs)
REACH = [("FF_X4", "Reach_Frag2"), ("FF_Msmall", "Reach_Removed"), ("FF_Msmall", "Reach_Mod")]


def run(tier):
    ck = c.Check(PROP, tier)
    sd = c.seed()
    quick = tier == "quick"
    ck.rule = ("S->I: one case = one input (force field id, residue names, from_itp labels, residue-graph edges, first residue id, -mods "
               "selection) of the TLC instances G (all connected graphs on <= 4 residues), S (all interaction subsets of a block of 1-3 atoms), "
               "M (atom-removing / retyping links and modifications), X (two or three separate copies of the two-residue block in 5-7 residues); each input is executed in .ff and polyply .itp syntax with drawn node keys, "
               "insertion and edge order. I->S: seeded random inputs (5-8 residues, blocks up to 5 atoms, random sections, 2-3 residue blocks, "
               "cycles) and library force fields; distinct by input")
    ck.assumptions = ["residue ids contiguous, residue graph connected; every copy of a multi-residue block occupies consecutive residue ids and "
                      "block files number their residues from 1 with atoms grouped by residue",
                      "links are taken from a minimal language (one '+' / '>' two-residue interaction, single-residue atom removal / retyping); "
                      "the link rule itself is C02 (spec/Links.tla). For library force fields the applied (link, match) pairs are observed at "
                      "ApplyLinks.apply_link_between_residues and PFinal is evaluated with them",
                      "multi-residue blocks are given in polyply .itp syntax only (atom names repeat across residues); version-tagged entries in .ff only",
                      "comparison modulo the writer's symmetries (a-b = b-a, reversed angles / dihedrals); charges and masses compared as floats"]
    G = "FF_Gq" if quick else "FF_Gt"
    ck.stage("TLC: model + exports + deviations (concurrently)")
    asis_cfg = "FF_asis.cfg" if u.OPEN[PROP] else None       # runs with the open deviations on: only when a finding is open
    jobs = [(G, "FF_export.cfg", {"workers": 6, "timeout": 1500}), ("FF_S", "FF_export.cfg", {"workers": 2}),
            ("FF_M", "FF_export.cfg", {"workers": 2}), ("FF_Gsmall", "FF_G_small.cfg", {"workers": 2}), ("FF_X", "FF_export.cfg", {"workers": 2})]
    if asis_cfg:
        jobs += [(m, asis_cfg, {"workers": 2, "timeout": 1500}) for m in (G, "FF_S", "FF_M", "FF_X")]
    nmain = len(jobs)
    jobs += [(m, "FF_dev_%s.cfg" % d, {"workers": 1, "check": False, "timeout": 600}) for m, d, _, _ in DEVS]
    jobs += [(m, "FF_dev_%s.cfg" % r, {"workers": 1, "check": False, "timeout": 600}) for m, r in REACH]
    res = c.tlc_many(jobs, workers_each=2)
    gx, sx, mx, small, xx = res[:5]
    ga, sa, ma, xa = res[5:9] if asis_cfg else (None, None, None, None)
    for r, what in ((gx, "G"), (sx, "S"), (mx, "M"), (small, "small+Dom_Inv"), (xx, "X")):
        ck.model_must_hold(r, "C01_Inv/Base_Inv/Layout_Inv on instance " + what)
    for r in (ga, sa, ma, xa):
        if r is not None:
            ck.add_tlc(r)
    for (m, d, inv, what), r in zip(DEVS, res[nmain:nmain + len(DEVS)]):
        ck.model_must_refute(r, inv, what)
    for (m, rname), r in zip(REACH, res[nmain + len(DEVS):]):
        ck.model_must_refute(r, rname, "non-vacuity: " + rname)
    ck.extra["deviations_refuted"] = [d for _, d, _, _ in DEVS]

    ck.stage("S->I replay")
    both = lambda ci: ("ff", "itp")
    alt = lambda ci: (("ff",) if ci % 2 else ("itp",))
    cases, ffs = replay_instance(ck, "G", gx, ga, tier, sd, alt if quick else both, 12 if quick else 4)
    ck.sample({"S->I input": cases[len(cases) // 2]["inp"], "expected final atoms (PFinal)": cases[len(cases) // 2]["exp"]["atoms"][:4]})
    replay_instance(ck, "S", sx, sa, tier, sd, both, 6)
    casesM, _ = replay_instance(ck, "M", mx, ma, tier, sd, both if not quick else alt, 5)
    replay_instance(ck, "X", xx, xa, tier, sd, both, 3)
    ck.sample({"S->I input (mods)": casesM[7]["inp"], "link applications": casesM[7]["apps"][:3]})

    ck.stage("I->S: seeded random inputs + library force fields, FFTrace")
    t.run_traces(ck, PROP, tier, sd)
    ck.exhaustive = True
    return ck.finish()


def replay(path):
    doc = json.loads(open(path).read())
    case = doc["case"]
    ck = None      # a stored case is re-executed without touching the evidence of the last run
    if case["kind"] == "S->I replay":
        wd = c.workdir(PROP, "replay_one")
        paths = u.render_ff(case["ff"], case["fmt"], wd, tag="f")
        obs = u.run_processors(paths, case["case"]["inp"], case["layout"])
        verdict, sig, why = classify(case["case"], obs, [])
        print("replayed: %s %s" % (verdict, why))
        return 0 if verdict == "ok" else 1
    return t.replay_trace(ck, PROP, case)


