"""C07 - build-file restraints hold for every residue they select.

spec/Restraints.tla : Sel (which residues a directive selects), WindowP / WindowI (distance windows along the growth path, exact
                      integer/rational arithmetic), ClosingPairP / ClosingPairI (ring declared cyclic), checked by TLC; the
                      breadth-first-tree deviation (finding F11) must be refuted.
S->I : every window case (chain length, ref/target in both orders, d, tol, step) is written as a real build file, parsed by the real
       build-file parser and turned into node windows by the real set_restraints; every ring 3..9 goes through _initialize_cylces;
       results must equal the specification's numbers / pair.
       Round 7: SelNodesP / TagLoopI - a resname + id-range directive on residues listed in ANY order of their ids (deviations "slice" and
       "index" refuted); every case goes through the real parser as geometric restraint and as growth direction.  Dist2P / Dist2I - a
       window applied under the minimum image in boxes with unequal edges (deviations "noimage", "halfshortest" refuted); every probe
       displacement is handed to the real RandomWalk.checks_milestones on a real engine in that box.
I->S : real gen_coords runs with random build files (sphere / cylinder / rectangle in and out, growth direction, distance
       restraints, rings declared cyclic, persistence length); for every accepted placement the recorder logs which build-file
       entries the code attached to the residue (WalkTrace requires exactly Sel's selection) and an independent monitor evaluates the
       geometric predicates from the build-file numbers; at the end the restrained pair distances (minimum image) and the sampled
       end-to-end distances are checked; WalkTrace requires all booleans.  Round 7: the mixture holds a comb whose residue ids do not
       ascend along the node list (entries select its residues by name + id range); every placement of a residue that carries distance
       windows is judged by the monitor's own per-axis minimum image (win_ok); runs in boxes with unequal edges whose restraint is longer
       than half of the shortest edge.
"""
import json
import random
import signal
import tempfile
from pathlib import Path

import numpy as np

from .. import common as c
from .. import walk_util as w
from . import c17

SIG = 0.47


def chain_top(n, name="M", ring=False, count=1):
    lines = ["[ defaults ]", "1 2 no 1.0 1.0", "[ atomtypes ]", "P 72.0 0.0 A %.3f 4.0" % SIG, "[ moleculetype ]", "%s 1" % name, "[ atoms ]"]
    lines += ["%d P %d RA B1 %d 0.0 72" % (i, i, i) for i in range(1, n + 1)]
    lines.append("[ bonds ]")
    lines += ["%d %d 1 %.3f 100" % (i, i + 1, SIG) for i in range(1, n)]
    if ring:
        lines.append("%d 1 1 %.3f 100" % (n, SIG))
    lines += ["[ system ]", "s", "[ molecules ]", "%s %d" % (name, count)]
    return "\n".join(lines) + "\n"


# ------------------------------------------------------------------ S -> I

def _window_case(cs):
    from polyply.src.topology import Topology
    from polyply.src.nonbond_engine import NonBondEngine
    from polyply.src.build_file_parser import read_build_file
    from polyply.src.restraints import set_restraints
    a = cs["a"]
    with tempfile.TemporaryDirectory(prefix="verif_c07_", dir="/var/tmp") as wd:
        top = Path(wd) / "c.top"
        top.write_text(chain_top(a["n"]))
        try:
            topology = Topology.from_gmx_topfile(name="c", path=top)
            topology.preprocess()
            topology.volumes = {"RA": a["avg"] / 1000.0}
            if cs["kind"] == "window2":
                bld = "[ molecule ]\nM 0 1\n[ distance_restraints ]\n%d %d %.3f %.3f\n%d %d %.3f %.3f\n" % (
                    a["ref"], a["t1"], a["d1"] / 1000.0, a["tol"] / 1000.0, a["ref2"], a["t2"], a["d2"] / 1000.0, a["tol"] / 1000.0)
            else:
                bld = "[ molecule ]\nM 0 1\n[ distance_restraints ]\n%d %d %.3f %.3f\n" % (a["ref"], a["target"], a["d"] / 1000.0, a["tol"] / 1000.0)
            read_build_file(bld.splitlines(), topology)
            nb = NonBondEngine.from_topology(topology.molecules, topology, np.array([20.0, 20.0, 20.0]))
            set_restraints(topology, nb)
        except Exception as exc:
            return ("diff", "exception %s: %s" % (type(exc).__name__, exc))
        mol = topology.molecules[0]
        got = {}
        for node in mol.nodes:
            for ref, up, lo in mol.nodes[node].get("distance_restraints", []):
                got.setdefault(int(node), []).append((int(ref), float(up), float(lo)))
        exp = {}
        for wn in cs["win"]:
            exp.setdefault(wn["node"], []).append((wn["refnode"], wn["upper"] / 1000.0, wn["lownum"] / wn["lowden"] / 1000.0 - wn["tol"] / 1000.0))
        if sorted(got) != sorted(exp):
            return ("diff", "windows on nodes %s, specification on %s" % (sorted(got), sorted(exp)))
        for node in exp:
            if len(got[node]) != len(exp[node]):
                return ("diff", "node %d carries %d windows, specification %d" % (node, len(got[node]), len(exp[node])))
            for g, e in zip(got[node], exp[node]):
                if g[0] != e[0] or abs(g[1] - e[1]) > 1e-9 or abs(g[2] - e[2]) > 1e-9:
                    return ("diff", "node %d: window (ref, upper, lower) = %s, specification %s" % (node, g, e))
        # how the walk applies a window: the candidate is accepted iff its MINIMUM-IMAGE distance to the reference residue lies in
        # [lower, upper] - probed with the reference next to a box face and candidates on either side of it (one set across the face)
        if cs["kind"] == "window":
            from polyply.src.random_walk import RandomWalk
            L = 20.0
            for node in exp:
                ref, up, lo = exp[node][0]
                try:
                    nb.add_positions(np.array([0.3, 10.0, 10.0]), 0, ref, start=True)
                    rw = RandomWalk(0, nb, maxdim=np.array([L, L, L]))
                    rw.molecule = mol
                    for r in (lo - 0.03, lo + 0.03, 0.5 * (lo + up), up - 0.03, up + 0.03):
                        if r <= 0.01:
                            continue
                        for sign in (1.0, -1.0):
                            cand = np.array([(0.3 + sign * r) % L, 10.0, 10.0])
                            res = bool(rw.checks_milestones(node, cand))
                            if res != (lo <= r <= up):
                                return ("diff", "node %d, window [%.3f, %.3f] around residue %d at x=0.3: candidate at minimum-image distance %.3f (x=%.3f) %s"
                                        % (node, lo, up, ref, r, cand[0], "accepted" if res else "rejected"))
                    nb.remove_positions(0, [ref])
                except Exception as exc:
                    return ("diff", "exception while applying the window of node %d: %s: %s" % (node, type(exc).__name__, exc))
    return ("ok", None)


def two_ring_top(n1, n2):
    def mol(name, n):
        lines = ["[ moleculetype ]", "%s 1" % name, "[ atoms ]"] + ["%d P %d RA B1 %d 0.0 72" % (i, i, i) for i in range(1, n + 1)]
        lines += ["[ bonds ]"] + ["%d %d 1 %.3f 100" % (i, i + 1, SIG) for i in range(1, n)] + ["%d 1 1 %.3f 100" % (n, SIG)]
        return lines
    lines = ["[ defaults ]", "1 2 no 1.0 1.0", "[ atomtypes ]", "P 72.0 0.0 A %.3f 4.0" % SIG] + mol("R1", n1) + mol("R2", n2)
    lines += ["[ system ]", "s", "[ molecules ]", "R1 2", "R2 2"]
    return "\n".join(lines) + "\n"


def _ring2_case(cs):
    from polyply.src.topology import Topology
    from polyply.src.gen_coords import _initialize_cylces
    a = cs["a"]
    with tempfile.TemporaryDirectory(prefix="verif_c07_", dir="/var/tmp") as wd:
        top = Path(wd) / "r.top"
        top.write_text(two_ring_top(a["n"], a["n2"]))
        try:
            topology = Topology.from_gmx_topfile(name="r", path=top)
            topology.preprocess()
            _initialize_cylces(topology, ["R1", "R2"], 0.2)
        except Exception as exc:
            return ("diff", "exception %s: %s" % (type(exc).__name__, exc))
        for name, idxs, want in (("R1", (0, 1), cs["pair"]), ("R2", (2, 3), cs["pair2"])):
            for idx in idxs:
                keys = list(topology.distance_restraints[(name, idx)].items())
                if len(keys) != 1 or sorted(int(x) for x in keys[0][0]) != want or keys[0][1][0] != 0.0:
                    return ("diff", "rings of %d and %d declared cyclic together: molecule %s #%d is restrained at %s, its closing edge is %s" % (
                        a["n"], a["n2"], name, idx, [k for k, _ in keys], want))
    return ("ok", None)


def _ring_case(cs):
    from polyply.src.topology import Topology
    from polyply.src.gen_coords import _initialize_cylces
    n = cs["a"]["n"]
    with tempfile.TemporaryDirectory(prefix="verif_c07_", dir="/var/tmp") as wd:
        top = Path(wd) / "r.top"
        top.write_text(chain_top(n, "R", ring=True))
        try:
            topology = Topology.from_gmx_topfile(name="r", path=top)
            topology.preprocess()
            _initialize_cylces(topology, ["R"], 0.25)
        except Exception as exc:
            return ("diff", "exception %s: %s" % (type(exc).__name__, exc))
        keys = list(topology.distance_restraints[("R", 0)].items())
        if len(keys) != 1:
            return ("diff", "%d restraints for one ring" % len(keys))
        (pair, (d, tol)) = keys[0]
        if sorted(int(x) for x in pair) != cs["pair"] or d != 0.0 or abs(tol - 0.25) > 1e-12:
            return ("diff", "ring of %d: restraint %s d=%s tol=%s, the closing edge is %s with d=0" % (n, pair, d, tol, cs["pair"]))
        if frozenset(pair) not in {frozenset(e) for e in topology.molecules[0].edges}:
            return ("diff", "ring of %d: restrained pair %s is not joined by an edge" % (n, pair))
    return ("ok", None)


def _sel_case(cs):
    """residues listed in the given order of ids; every directive written twice (as a sphere = `restraints`, as a growth direction =
    `rw_options`), parsed by the real parser; per node the directives attached, in build-file order, must be the specification's"""
    from polyply.src.topology import Topology
    from polyply.src.build_file_parser import read_build_file
    res, dirs = cs["res"], cs["dirs"]
    lines = ["[ defaults ]", "1 2 no 1.0 1.0", "[ atomtypes ]", "P 72.0 0.0 A %.3f 4.0" % SIG, "[ moleculetype ]", "M 1", "[ atoms ]"]
    lines += ["%d P %d %s B1 %d 0.0 72" % (i, r["resid"], r["rn"], i) for i, r in enumerate(res, 1)]
    lines += ["[ bonds ]"] + ["%d %d 1 %.3f 100" % (i, i + 1, SIG) for i in range(1, len(res))]
    lines += ["[ system ]", "s", "[ molecules ]", "M 1"]
    bld = ["[ molecule ]", "M 0 1", "[ sphere ]"]
    bld += ["%s %d %d in 5.000 5.000 5.000 %.3f" % (d["rn"], d["rlo"], d["rhi"], 1.0 + 0.001 * k) for k, d in enumerate(dirs, 1)]
    bld += ["[ rw_restriction ]"] + ["%s %d %d 0.0 0.0 1.0 %.1f" % (d["rn"], d["rlo"], d["rhi"], 10.0 + k) for k, d in enumerate(dirs, 1)]
    with tempfile.TemporaryDirectory(prefix="verif_c07_", dir="/var/tmp") as wd:
        top = Path(wd) / "c.top"
        top.write_text("\n".join(lines) + "\n")
        try:
            topology = Topology.from_gmx_topfile(name="c", path=top)
            topology.preprocess()
            mol = topology.molecules[0]
            listed = [(int(mol.nodes[n]["resid"]), mol.nodes[n]["resname"]) for n in sorted(mol.nodes)]
            if listed != [(r["resid"], r["rn"]) for r in res]:
                return ("machinery", "residues come out as %s, written as %s" % (listed, res))
            read_build_file(bld, topology)
        except Exception as exc:
            return ("diff", "exception %s: %s" % (type(exc).__name__, exc))
        for node in sorted(mol.nodes):
            exp = [k for k, t in enumerate(cs["tags"], 1) if node + 1 in t]
            got_geo = [int(round((float(r[2]) - 1.0) * 1000)) for r in mol.nodes[node].get("restraints", [])]
            got_rw = [int(round(float(r[1]) - 10.0)) for r in mol.nodes[node].get("rw_options", [])]
            for what, got in (("geometric restraints", got_geo), ("growth-direction restrictions", got_rw)):
                if got != exp:
                    def show(ks):
                        return ["%s %d %d" % (dirs[k - 1]["rn"], dirs[k - 1]["rlo"], dirs[k - 1]["rhi"]) for k in ks]
                    miss, extra = [k for k in exp if k not in got], [k for k in got if k not in exp]
                    return ("diff", "residues listed as %s: residue %s %d (node %d) carries the %s of %d directives, the specification selects it by %d; "
                            "missing %s, unexpected %s%s" % ([(r["rn"], r["resid"]) for r in res], res[node]["rn"], res[node]["resid"], node, what, len(got), len(exp),
                                                              show(miss)[:6], show(extra)[:6], "" if miss or extra else " (order or multiplicity differs)"))
    return ("ok", None)


def _apply_case(cs):
    """one restraint (0, 1, d, tol) through the real parser and set_restraints in a box with the given edges; the reference residue is put
    at `ref`, every probe displacement (wrapped into the box) is handed to RandomWalk.checks_milestones"""
    from polyply.src.topology import Topology
    from polyply.src.nonbond_engine import NonBondEngine
    from polyply.src.build_file_parser import read_build_file
    from polyply.src.restraints import set_restraints
    from polyply.src.random_walk import RandomWalk
    a = cs["a"]
    box = np.array([x / 1000.0 for x in a["box"]])
    ref = np.array([x / 1000.0 for x in a["ref"]])
    with tempfile.TemporaryDirectory(prefix="verif_c07_", dir="/var/tmp") as wd:
        top = Path(wd) / "c.top"
        top.write_text(chain_top(2))
        try:
            topology = Topology.from_gmx_topfile(name="c", path=top)
            topology.preprocess()
            topology.volumes = {"RA": a["w"]["avg"] / 1000.0}
            read_build_file(("[ molecule ]\nM 0 1\n[ distance_restraints ]\n0 1 %.3f %.3f\n" % (a["w"]["d"] / 1000.0, a["w"]["tol"] / 1000.0)).splitlines(), topology)
            nb = NonBondEngine.from_topology(topology.molecules, topology, box.copy())
            set_restraints(topology, nb)
            mol = topology.molecules[0]
            win = [(int(r), float(u), float(lo)) for r, u, lo in mol.nodes[1].get("distance_restraints", [])]
            if len(win) != 1 or win[0][0] != 0 or abs(win[0][1] - cs["up"] / 1000.0) > 1e-9 or abs(win[0][2] - cs["lo"] / 1000.0) > 1e-9:
                return ("diff", "restrained residue carries %s, specification [(0, %.3f, %.3f)]" % (win, cs["up"] / 1000.0, cs["lo"] / 1000.0))
            nb.add_positions(ref.copy(), 0, 0, start=True)
            rw = RandomWalk(0, nb, maxdim=box.copy())
            rw.molecule = mol
            for pr in cs["probes"]:
                cand = np.mod(ref + np.array(pr["dv"]) / 1000.0, box)
                res = bool(rw.checks_milestones(1, cand))
                if res != bool(pr["acc"]):
                    return ("diff", "box %s, window [%.3f, %.3f] around a residue at %s: candidate at %s (displacement %s, minimum-image distance %.4f) %s" % (
                        box.tolist(), cs["lo"] / 1000.0, cs["up"] / 1000.0, ref.tolist(), np.round(cand, 4).tolist(), [x / 1000.0 for x in pr["dv"]],
                        (pr["m2"] ** 0.5) / 1000.0, "accepted" if res else "rejected"))
        except Exception as exc:
            return ("diff", "exception %s: %s" % (type(exc).__name__, exc))
    return ("ok", None)


def _s2i(cs):
    try:
        if cs["kind"] in ("window", "window2"):
            return _window_case(cs)
        if cs["kind"] == "sel":
            return _sel_case(cs)
        if cs["kind"] == "apply":
            return _apply_case(cs)
        return _ring_case(cs) if cs["kind"] == "ring" else _ring2_case(cs)
    except Exception as exc:
        return ("machinery", "%s: %s" % (type(exc).__name__, exc))


# ------------------------------------------------------------------ I -> S: random build files through gen_coords

MIX_TOP = """[ defaults ]
1 2 no 1.0 1.0
[ atomtypes ]
P 72.0 0.0 A 0.470 4.0
[ moleculetype ]
CH 1
[ atoms ]
%s
[ bonds ]
%s
[ moleculetype ]
PL 1
[ atoms ]
%s
[ bonds ]
%s
[ moleculetype ]
RG 1
[ atoms ]
%s
[ bonds ]
%s
[ moleculetype ]
RH 1
[ atoms ]
%s
[ bonds ]
%s
[ moleculetype ]
CB 1
[ atoms ]
%s
[ bonds ]
%s
[ system ]
mix
[ molecules ]
CH %d
PL %d
RG %d
CH 1
RH 1
CB 1
"""

# CB: a comb - backbone residues RA 1..5, each followed directly by its side-chain residue RB 6..10, so the residue ids along the node
# list are 1 6 2 7 3 8 4 9 5 10 (legal for GROMACS, unique ids, NOT ascending)
CB_ORDER = [1, 6, 2, 7, 3, 8, 4, 9, 5, 10]


def mix_top(nch, npl, nrg, ring, chlen=8):
    def atoms(n, names):
        return "\n".join("%d P %d %s B1 %d 0.0 72" % (i, i, names[(i - 1) % len(names)], i) for i in range(1, n + 1))

    def bonds(n, closed=False):
        b = ["%d %d 1 0.47 100" % (i, i + 1) for i in range(1, n)]
        if closed:
            b.append("%d 1 1 0.47 100" % n)
        return "\n".join(b)
    ring2 = ring + 2 if ring < 10 else ring - 3     # a second cyclic molecule type of another size
    # PL: chain of 10 with a one-residue side branch (residue 11) on residue 4, listed BEFORE the backbone bond 4-5 so that a
    # depth-first build order visits the branch between residues 4 and 5
    pl_bonds = "\n".join(["%d %d 1 0.47 100" % (i, i + 1) for i in range(1, 4)] + ["4 11 1 0.47 100"] + ["%d %d 1 0.47 100" % (i, i + 1) for i in range(4, 10)])
    at = {r: i for i, r in enumerate(CB_ORDER, 1)}
    cb_atoms = "\n".join("%d P %d %s B1 %d 0.0 72" % (i, r, "RA" if r <= 5 else "RB", i) for i, r in enumerate(CB_ORDER, 1))
    cb_bonds = "\n".join(["%d %d 1 0.47 100" % (at[r], at[r + 1]) for r in range(1, 5)] + ["%d %d 1 0.47 100" % (at[r], at[r + 5]) for r in range(1, 6)])
    return MIX_TOP % (atoms(chlen, ["RA", "RB"]), bonds(chlen), atoms(11, ["RA"]), pl_bonds, atoms(ring, ["RC"]), bonds(ring, True),
                      atoms(ring2, ["RC"]), bonds(ring2, True), cb_atoms, cb_bonds, nch, npl, nrg)


def comb_bld(rng, box, cbi):
    """entries for the comb molecule (index cbi), all selecting by residue name + id range: the whole backbone in a slab, side chains
    outside a small sphere, one entry with a random name / range, and a growth direction for a range of side chains"""
    c0 = [box / 2.0] * 3
    ents = [{"id": 901, "kind": "rectangle", "inout": "in", "rn": "RA", "rlo": 1, "rhi": 6, "point": c0, "par": [3.301, 3.3, round(rng.uniform(1.3, 1.8), 2)]}]
    rlo = rng.randint(5, 8)
    ents.append({"id": 902, "kind": "sphere", "inout": "out", "rn": "RB", "rlo": rlo, "rhi": rlo + rng.randint(1, 5), "point": c0, "par": [round(round(rng.uniform(0.6, 1.0), 2) + 0.002, 3)]})
    rlo = rng.randint(1, 9)
    kind = rng.choice(["sphere", "cylinder"])
    ents.append({"id": 903, "kind": kind, "inout": "in", "rn": rng.choice(["RA", "RB"]), "rlo": rlo, "rhi": rlo + rng.randint(0, 4), "point": c0,
                 "par": [3.403] if kind == "sphere" else [3.403, 3.2]})
    txt = ["[ molecule ]\nCB %d %d" % (cbi, cbi + 1)]
    for e in ents:
        e.update(mname="CB", mlo=cbi, mhi=cbi + 1)
        txt.append("[ %s ]\n%s %d %d %s %.3f %.3f %.3f %s" % (e["kind"], e["rn"], e["rlo"], e["rhi"], e["inout"], c0[0], c0[1], c0[2], " ".join("%.3f" % x for x in e["par"])))
    rlo = rng.randint(6, 8)
    rwc = {"id": 904, "kind": "rw", "mname": "CB", "mlo": cbi, "mhi": cbi + 1, "rn": "RB", "rlo": rlo, "rhi": rlo + rng.randint(1, 4),
           "normal": rng.choice([[0.0, 0.0, 1.0], [0.0, 2.0, 0.0], [1.0, 0.0, 1.0]]), "angle": rng.choice([85.0, 65.0])}
    txt.append("[ rw_restriction ]\n%s %d %d %.1f %.1f %.1f %.1f" % (rwc["rn"], rwc["rlo"], rwc["rhi"], rwc["normal"][0], rwc["normal"][1], rwc["normal"][2], rwc["angle"]))
    return ents, txt, rwc


def random_bld(rng, box, nch):
    """abstract entries + text.  Geometry entries get ids; selection ranges overlap / are adjacent / empty on purpose."""
    ents, txt, k = [], [], 0
    c0 = [box / 2.0] * 3
    last = nch + 4   # index of the trailing CH molecule (3 CH, 2 PL, 2 RG precede it)
    blocks = [("CH", 0, rng.randint(1, nch)), ("CH", rng.randint(0, nch), rng.choice([nch + 2, last + 1]))]
    for mname, mlo, mhi in blocks:
        txt.append("[ molecule ]\n%s %d %d" % (mname, mlo, mhi))
        for kind in rng.sample(["sphere", "cylinder", "rectangle", "sphere"], rng.randint(1, 3)):
            k += 1
            inout = rng.choice(["in", "in", "out"])
            rn = rng.choice(["RA", "RB"])
            rlo = rng.randint(1, 5)
            rhi = rlo + rng.randint(0, 5)
            if kind == "sphere":
                par = [round(rng.uniform(2.4, 3.2), 2)] if inout == "in" else [round(rng.uniform(0.6, 1.2), 2)]
            elif kind == "cylinder":
                par = [round(rng.uniform(2.2, 3.0), 2), round(rng.uniform(1.0, 1.8), 2)] if inout == "in" else [round(rng.uniform(0.5, 1.0), 2), round(rng.uniform(0.6, 1.2), 2)]
            else:
                par = [round(rng.uniform(2.2, 3.2), 2) for _ in range(3)] if inout == "in" else [round(rng.uniform(0.5, 1.0), 2) for _ in range(3)]
            par[0] = round(par[0] + 0.001 * k, 3)     # unique fingerprint: an entry is identified by its numbers
            ents.append({"id": k, "kind": kind, "inout": inout, "mname": mname, "mlo": mlo, "mhi": mhi, "rn": rn, "rlo": rlo, "rhi": rhi,
                         "point": c0, "par": par})
            txt.append("[ %s ]\n%s %d %d %s %.3f %.3f %.3f %s" % (kind, rn, rlo, rhi, inout, c0[0], c0[1], c0[2], " ".join("%.3f" % x for x in par)))
    # a region that reaches across a box face on one side only (centre on the face z = 0): positions are wrapped into the box,
    # so a residue may only be accepted on the inner side
    k += 1
    face = {"id": k, "kind": rng.choice(["rectangle", "cylinder"]), "inout": "in", "mname": "CH", "mlo": last, "mhi": last + 1, "rn": "RA", "rlo": 1, "rhi": 4,
            "point": [box / 2.0, box / 2.0, box], "par": None}     # the top face of the box
    face["par"] = [round(2.5 + 0.001 * k, 3), 2.5, 1.3] if face["kind"] == "rectangle" else [round(2.5 + 0.001 * k, 3), 1.3]
    ents.append(face)
    txt.append("[ molecule ]\nCH %d %d\n[ %s ]\nRA 1 4 in %.3f %.3f %.3f %s" % (last, last + 1, face["kind"], box / 2.0, box / 2.0, box, " ".join("%.3f" % x for x in face["par"])))
    rw = None
    if rng.random() < 0.8:
        k += 1
        rlo = rng.randint(2, 5)
        # (the growth direction is restricted on the third CH molecule, not on the one confined to the face region: both together are rarely satisfiable)
        rw = {"id": k, "kind": "rw", "mname": "CH", "mlo": nch - 1, "mhi": nch, "rn": rng.choice(["RA", "RB"]), "rlo": rlo, "rhi": rlo + 4,
              "normal": rng.choice([[0.0, 0.0, 1.0], [0.0, 0.0, 2.0], [1.0, 1.0, 0.0], [0.0, -1.5, 0.5], [0.5, 0.0, 0.0], [2.0, -1.0, 2.0]]),
              "angle": rng.choice([90.0, 70.0, 50.0])}     # the direction vector need not have unit length (the code normalises it)
    dist = {"mname": "CH", "mlo": 0, "mhi": nch, "ref": rng.choice([0, 1, 2, 2]), "target": rng.choice([5, 6, 7]), "d": round(rng.uniform(0.8, 1.8), 2), "tol": round(rng.uniform(0.1, 0.3), 2)}
    if rng.random() < 0.5:
        dist["ref"], dist["target"] = dist["target"], dist["ref"]
    return ents, txt, rw, dist


def geom_ok(e, p):
    d = np.asarray(e["point"]) - np.asarray(p)
    if e["kind"] == "sphere":
        r = np.linalg.norm(d)
        return bool(r <= e["par"][0] + 1e-9) if e["inout"] == "in" else bool(r >= e["par"][0] - 1e-9)
    if e["kind"] == "cylinder":
        rad, dz = np.linalg.norm(d[:2]), abs(d[2])
        inside = rad < e["par"][0] and dz < e["par"][1]
        return bool(inside) if e["inout"] == "in" else bool(not inside)
    inside = all(abs(x) < m for x, m in zip(d, e["par"]))
    return bool(inside) if e["inout"] == "in" else bool(not inside)


class _Timeout(BaseException):
    pass


def _alarm(signum, frame):
    raise _Timeout()


def _e2e(arg):
    sd, ring = arg[0], arg[1]
    mode = arg[2] if len(arg) > 2 else False
    small_box = mode is True
    rect = mode == "rect"       # a box with unequal edges and a distance restraint longer than half of its shortest edge
    from polyply import gen_coords
    from polyply.src import persistence as pers
    rng = random.Random(sd)
    box, nch, npl, nrg = (5.0 if small_box else 8.0), 3, 2, 2
    ents, txt, rw, dist = random_bld(rng, box, nch)
    if small_box or rect:   # periodic-boundary scenarios: only pair restraints, molecules frequently cross the box boundary
        ents, txt, rw = [], [], None
    rng2 = random.Random(sd * 7919 + 13)     # (draws added later come from a stream of their own)
    cbi = nch + npl + nrg + 2                # index of the comb molecule
    boxv, chlen, rwc = [box] * 3, 8, None
    if rect:
        boxv = list(rng2.choice([(7.0, 7.0, 3.0), (3.0, 7.0, 7.0), (7.0, 3.2, 6.0), (3.4, 6.0, 7.0)]))
        chlen = 14
        # d - tol exceeds half of the shortest edge, the window reaches beyond half of a longer one
        dist = {"mname": "CH", "mlo": 0, "mhi": nch, "ref": rng2.choice([0, 1]), "target": rng2.choice([12, 13]), "d": round(rng2.uniform(3.6, 4.2), 2), "tol": round(rng2.uniform(0.15, 0.3), 2)}
        if rng2.random() < 0.5:
            dist["ref"], dist["target"] = dist["target"], dist["ref"]
    elif not small_box:
        cents, ctxt, rwc = comb_bld(rng2, box, cbi)
        ents, txt = ents + cents, txt + ["\n".join(ctxt)]
    rws = [x for x in (rw, rwc) if x]
    cyc_tol = round(max(rng.uniform(0.1, 0.3), 0.035 * ring), 2)      # larger rings need a tolerance that a random walk can meet in reasonable time
    lp = round(rng.uniform(0.6, 1.0 if small_box else 2.0), 2)
    mname_of = ["CH"] * nch + ["PL"] * npl + ["RG"] * nrg + ["CH", "RH", "CB"]
    ring2 = ring + 2 if ring < 10 else ring - 3
    # a second distance restraint that shares its anchor with the first one (shorter path listed first or second)
    anchor = dist["ref"] if dist["ref"] < dist["target"] else dist["target"]
    far = dist["target"] if dist["ref"] < dist["target"] else dist["ref"]
    dist2 = {"ref": anchor, "target": rng.choice([t for t in (3, 4, 5, 6, 7) if t != far]), "d": round(rng.uniform(0.6, 1.2), 2), "tol": round(rng.uniform(0.15, 0.3), 2)}
    if rect:    # the second restraint sits where the first one lets the chain pass (its own windows start at d * i / len - tol)
        t2 = rng2.choice([t for t in (4, 6, 8, 9) if t != far])
        dist2 = {"ref": anchor, "target": t2, "d": round(dist["d"] * (t2 - anchor) / (far - anchor) + rng2.uniform(0.0, 0.3), 2), "tol": round(rng2.uniform(0.15, 0.3), 2)}
    dist_lines = ["%d %d %.2f %.2f" % (dist["ref"], dist["target"], dist["d"], dist["tol"]), "%d %d %.2f %.2f" % (dist2["ref"], dist2["target"], dist2["d"], dist2["tol"])]
    if rng.random() < 0.5:
        dist_lines.reverse()
    text = list(txt)
    if rw:
        text.append("[ molecule ]\nCH %d %d\n[ rw_restriction ]\n%s %d %d %.1f %.1f %.1f %.1f" % (rw["mlo"], rw["mhi"], rw["rn"], rw["rlo"], rw["rhi"], rw["normal"][0], rw["normal"][1], rw["normal"][2], rw["angle"]))
    text.append("[ molecule ]\nCH %d %d\n[ distance_restraints ]\n%s" % (dist["mlo"], dist["mhi"], "\n".join(dist_lines)))
    # the two ends of the persistence restraint: chain ends, either order, or a start INSIDE the chain (the path between the
    # two is then not a prefix of the build order, and the side branch on residue 4 lies between them for some choices)
    pl_start, pl_stop = rng.choice([(0, 9), (9, 0), (2, 8), (7, 1), (5, 0), (4, 9), (3, 6), (1, 10)])
    text.append("[ molecule ]\nPL %d %d\n[ persistence_length ]\nWCM %.2f %d %d" % (nch, nch + npl, lp, pl_start, pl_stop))
    if not small_box and not rect:
        # a geometric restraint that selects exactly the START residue of the persistence entry (the residue the walk begins with, which
        # need not be the first residue of the molecule): the start point itself has to satisfy it
        anchor = {"id": 900, "kind": "sphere", "inout": "in", "mname": "PL", "mlo": nch, "mhi": nch + npl, "rn": "RA", "rlo": pl_start + 1, "rhi": pl_start + 2,
                  "point": [box / 2.0] * 3, "par": [2.901]}
        ents.append(anchor)
        text.append("[ molecule ]\nPL %d %d\n[ sphere ]\nRA %d %d in %.3f %.3f %.3f %.3f" % (nch, nch + npl, pl_start + 1, pl_start + 2, box / 2.0, box / 2.0, box / 2.0, 2.901))
    samples = {}
    o_gen = pers.generate_end_end_distances

    def gen(specs, avg, maxlen, box, limit_prob=1e-5, seed=None):
        r = o_gen(specs, avg, maxlen, box, limit_prob=limit_prob, seed=seed)
        samples.update({"mols": [int(x) for x in specs.mol_idxs], "ee": [float(x) for x in r], "avg": float(avg), "contour": float(maxlen)})
        return r

    from polyply.src import build_system as bsys
    o_sample = bsys.sample_end_to_end_distances

    def sample(topology, nonbond_matrix, seed=None):
        """the sampling itself is judged when it happens (a run that later times out still has a verdict on it): contour length and
        average step by the monitor's own path - the shortest path between the two ends in the residue graph, each edge as long as
        the pair size the engine holds for it - against what the code passed to the sampler, and every sample within [step, contour)"""
        r = o_sample(topology, nonbond_matrix, seed=seed)
        import networkx as _nx
        own_path = _nx.shortest_path(_nx.Graph(list(topology.molecules[nch].edges)), pl_start, pl_stop)
        contour = sum(float(nonbond_matrix.get_interaction(nch, nch, a, b)[0]) for a, b in zip(own_path[:-1], own_path[1:]))
        avg = contour / (len(own_path) - 1)
        why = []
        if not samples:
            why.append("no end-to-end distances were sampled")
        else:
            if abs(samples["avg"] - avg) > 1e-9 or abs(samples["contour"] - contour) > 1e-9:
                why.append("sampler was given step %.4f / contour %.4f, the path %s has step %.4f / contour %.4f" % (samples["avg"], samples["contour"], own_path, avg, contour))
            bad = [ee for ee in samples["ee"] if not (avg - 1e-9 <= ee < contour)]
            if bad:
                why.append("sampled end-to-end distances %s outside [%.4f, %.4f)" % (bad, avg, contour))
            if sorted(samples["mols"]) != list(range(nch, nch + npl)):
                why.append("molecules sampled: %s" % samples["mols"])
        samples["own"] = {"path": [int(x) for x in own_path], "contour": contour, "avg": avg, "why": why}
        return r

    def monitor(rec, ev):
        if ev["ev"] in ("ok", "root"):
            mi = ev["mol"] - 1
            mol = rec.topology.molecules[mi]
            node = (ev["cur"] if ev["ev"] == "ok" else ev["node"]) - 1
            eng = rec.engine
            p = np.asarray(eng.positions[eng.nodes_to_gndx[(mi, node)]], float)
            rids, ok = [], True
            for r in mol.nodes[node].get("restraints", []):
                hit = [e for e in ents if e["kind"] == r[-1] and e["inout"] == r[0] and np.allclose(e["point"], r[1]) and list(e["par"]) == [float(x) for x in r[2:-1]]
                       and e["id"] not in rids and e["mname"] == mol.mol_name and e["mlo"] <= mi < e["mhi"] or False]
                cand = [e for e in ents if e["kind"] == r[-1] and e["inout"] == r[0] and list(e["par"]) == [float(x) for x in r[2:-1]] and e["id"] not in rids]
                if not cand:
                    rids.append(-1)
                    continue
                # prefer the entry of a block that names this molecule index (entries with identical numbers in two blocks are indistinguishable otherwise)
                cand.sort(key=lambda e: 0 if (e["mlo"] <= mi < e["mhi"]) else 1)
                rids.append(cand[0]["id"])
                ok = ok and geom_ok(cand[0], p)
            obs = {"geom_ok": bool(ok)}
            for opt in mol.nodes[node].get("rw_options", []):
                # the entry is identified by molecule name and angle (the angles of the entries of one build file differ)
                mine = [x for x in rws if x["mname"] == mol.mol_name and abs(float(opt[1]) - x["angle"]) < 1e-9 and x["id"] not in rids]
                if not mine:
                    rids.append(-2)
                    continue
                rids.append(mine[0]["id"])
                if ev["ev"] == "ok":
                    q = np.asarray(eng.positions[eng.nodes_to_gndx[(mi, ev["prev"] - 1)]], float)
                    v = p - q
                    nrm = np.asarray(mine[0]["normal"])
                    sgn = np.sign(np.dot(nrm, v))
                    ang = np.degrees(np.arccos(np.clip(np.dot(nrm, v) / (np.linalg.norm(v) * np.linalg.norm(nrm)), -1, 1)))
                    obs["dir_ok"] = obs.get("dir_ok", True) and bool(sgn == np.sign(mine[0]["angle"]) and ang <= abs(mine[0]["angle"]) + 1e-6)
            if ev["ev"] == "ok" and mol.nodes[node].get("distance_restraints"):
                # every distance window the residue carries (the numbers are bound to the specification by the window cases) is judged by the
                # monitor's own minimum image, per axis with that axis' edge - any box shape
                boxv_ = np.asarray(eng.boxsize, float)
                wins = []
                for rnode, up, lo in mol.nodes[node]["distance_restraints"]:
                    q = np.asarray(eng.positions[eng.nodes_to_gndx[(mi, rnode)]], float)
                    if not np.all(np.isfinite(q)):
                        continue
                    dv = p - q
                    dv -= boxv_ * np.round(dv / boxv_)
                    dd = float(np.linalg.norm(dv))
                    wins.append([int(rnode), float(lo), float(up), dd])
                if wins:
                    obs["win_ok"] = all(lo - 1e-6 <= dd <= up + 1e-6 for _, lo, up, dd in wins)
                    ev["raw"] = {"windows": wins}
            ev["rids"], ev["obs"] = sorted(rids), obs
        elif ev["ev"] == "finish":
            eng, topo = rec.engine, rec.topology
            boxv = np.asarray(eng.boxsize, float)

            def dist_of(mi, a, b):
                pa, pb = (np.asarray(topo.molecules[mi].nodes[x]["position"], float) for x in (a, b))
                dv = pa - pb
                dv -= boxv * np.round(dv / boxv)
                return float(np.linalg.norm(dv))
            pairs_ok, raw = True, []
            for mi in range(dist["mlo"], dist["mhi"]):
                for dr in (dist, dist2):
                    dd = dist_of(mi, dr["ref"], dr["target"])
                    raw.append(["dist", mi, dr["ref"], dr["target"], dd])
                    pairs_ok = pairs_ok and (dr["d"] - dr["tol"] - 1e-6 <= dd <= dr["d"] + dr["tol"] + SIG + 1e-6)
            for mi, name in enumerate(mname_of):
                if name in ("RG", "RH"):
                    dd = dist_of(mi, 0, (ring if name == "RG" else ring2) - 1)
                    raw.append(["ring", mi, dd])
                    pairs_ok = pairs_ok and (dd <= cyc_tol + SIG + 1e-6)
            ee_ok = bool(samples) and sorted(samples.get("mols", [])) == list(range(nch, nch + npl))
            # contour length and average step by the monitor's own path: the shortest path between the two ends in the residue
            # graph, each edge as long as the pair size the engine holds for it (what the code passed to the sampler is compared with it)
            own = samples.get("own", {"contour": 0.0, "avg": 0.0, "why": ["sampling was not observed"]})
            contour, avg = own["contour"], own["avg"]
            ee_ok = ee_ok and not own["why"]
            raw.append(["contour", contour, samples.get("contour"), avg, samples.get("avg")])
            for mi, ee in zip(samples.get("mols", []), samples.get("ee", [])):
                dd = dist_of(mi, pl_start, pl_stop)
                raw.append(["ee", mi, ee, dd])
                ee_ok = ee_ok and (avg - 1e-9 <= ee < contour) and (ee - 1e-6 <= dd <= ee + avg + 1e-6)
            ev["obs"], ev["raw"] = {"pairs_ok": bool(pairs_ok), "ee_ok": bool(ee_ok)}, {"pairs": raw}
    np.random.seed(sd)
    random.seed(sd)
    signal.signal(signal.SIGPROF, _alarm)
    signal.setitimer(signal.ITIMER_PROF, 60, 5)     # CPU time of this process: the limit does not depend on the load of the machine
    signal.signal(signal.SIGALRM, _alarm)
    signal.setitimer(signal.ITIMER_REAL, 720, 5)     # wall-clock safety net
    pers.generate_end_end_distances = gen
    bsys.sample_end_to_end_distances = sample
    try:
        with tempfile.TemporaryDirectory(prefix="verif_c07_", dir="/var/tmp") as wd:
            wd = Path(wd)
            (wd / "m.top").write_text(mix_top(nch, npl, nrg, ring, chlen))
            (wd / "m.bld").write_text("\n".join(text) + "\n")
            # a forced failure schedule: random failures, plus one failure aimed at the residue nrewind-1 steps after the reference
            # residue of the distance restraint, so that the rewind regrows the reference residue after restrained residues were tried
            budget = {"n": rng.randint(2, 8)}
            nrew = rng.choice([2, 3, 3, 5])
            first_anchor = min(dist["ref"], dist["target"])
            aimed, holder = set(), {}

            def chooser(kinds):
                if kinds[0] != "ok":
                    return kinds[0]
                mi, node = holder["rec"].cur.get("placing", (None, None))
                if mi is not None and dist["mlo"] <= mi < dist["mhi"] and first_anchor >= 1 and node == first_anchor + nrew - 1 and mi not in aimed:
                    aimed.add(mi)
                    return "fail"
                if budget["n"] > 0 and rng.random() < 0.1:
                    budget["n"] -= 1
                    return "fail"
                return kinds[0]
            with w.recording(monitor=monitor, chooser=chooser) as rec:
                holder["rec"] = rec
                try:
                    gen_coords(toppath=wd / "m.top", outpath=wd / "o.gro", name="m", box=np.array(boxv), build=[wd / "m.bld"], cycles=["RG", "RH"], cycle_tol=cyc_tol,
                               max_force=5e4, grid_spacing=0.4, nrewind=nrew)
                except _Timeout:
                    return {"noverdict": "timeout", "samples": samples, "text": "\n".join(text)}
                except Exception as exc:
                    return {"inst": rec.header, "evs": rec.events[-20:], "error_in_code": "%s: %s" % (type(exc).__name__, exc), "bld": "\n".join(text)}
            geo = [{"id": e["id"], "mname": e["mname"], "mlo": e["mlo"], "mhi": e["mhi"], "rn": e["rn"], "rlo": e["rlo"], "rhi": e["rhi"]} for e in ents]
            for x in rws:
                geo.append({"id": x["id"], "mname": x["mname"], "mlo": x["mlo"], "mhi": x["mhi"], "rn": x["rn"], "rlo": x["rlo"], "rhi": x["rhi"]})
            return {"inst": rec.header, "evs": rec.events, "error_in_code": None, "bld": geo, "text": "\n".join(text), "samples": samples}
    except _Timeout:
        return {"noverdict": "timeout", "samples": samples, "text": "\n".join(text)}
    finally:
        pers.generate_end_end_distances = o_gen
        bsys.sample_end_to_end_distances = o_sample
        signal.setitimer(signal.ITIMER_PROF, 0)
        signal.setitimer(signal.ITIMER_REAL, 0)


def validate(ck, traces, name, expect_reject=False):
    wd = c.workdir("C07", name)
    f = wd / "traces.json"
    f.write_text(json.dumps(traces))
    res = c.tlc("WalkTrace", "Walk_trace.cfg", workers=1, env={"TRACE_FILE": str(f)}, check=False, timeout=3000)
    rej = {}
    for r in res.tagged("REJECTED"):
        rej.update({int(t): int(m) for t, m in r})
    if res.rc != 0 and not rej and not res.inv_violated:
        raise c.MachineryError("WalkTrace failed: %s" % res.out[-2500:])
    if expect_reject:
        return rej
    ck.add_tlc(res)
    if res.inv_violated:
        ck.violation({"kind": "trace invariant", "invariant": res.inv_violated}, what="recorded trace violates %s" % res.inv_violated)
    ck.traces += len(traces) - len(rej)
    for tid, matched in sorted(rej.items()):
        tr = traces[tid - 1]
        ev = tr["evs"][matched] if matched < len(tr["evs"]) else None
        ck.violation({"kind": "e2e", "seed": tr.get("seed"), "ring": tr.get("ring"), "small_box": tr.get("small_box", False), "event": ev, "matched": matched, "build_file": tr.get("text")},
                     what="gen_coords run with a random build file (seed %s) rejected after %d events; next event %s" % (tr.get("seed"), matched, json.dumps(ev)[:600]))
    return rej


def run(tier):
    ck = c.Check("C07", tier)
    sd = c.seed()
    ck.rule = ("S->I: distance-window cases (chain 3-7, every ref/target pair in both orders, d in {0, 0.47, 1.2}, tol in {0, 0.1}, step in {0.47, 0.40}) and rings 3-9; "
               "resname + id-range directives (40 per case, as geometric restraint and as growth direction) on 4 residues listed in every order of their ids; windows applied "
               "in boxes with unequal edges (4 boxes x 2 reference points x 4 windows x ~126 displacements); "
               "I->S: real gen_coords runs on a 5-type mixture with random build files (geometry in/out with overlapping / adjacent / empty residue and molecule ranges, "
               "growth direction, distance restraint in either node order, cyclic rings of size 3-12, persistence length, a comb whose residue ids do not ascend along the "
               "node list, boxes with unequal edges and a restraint longer than half of the shortest edge); distinct = case / seed")
    ck.assumptions = ["geometric predicates, growth direction and final pair distances are evaluated by an independent numeric monitor from the build-file numbers (DESIGN 6)",
                      "rings are pure rings (the statement speaks of ring-shaped molecules); geometric restraints use raw coordinates as the code does"]
    ck.stage("TLC: Restraints model, sensitivity, export")
    devs = [("Res_dev_bfs.cfg", "RingLaw", "cyclic growth tree is breadth-first (F11)"),
            ("Res_dev_sel_slice.cfg", "SelLaw", "residues of an id range taken as one stretch of the node list (bisection on the ids as listed)"),
            ("Res_dev_sel_index.cfg", "SelLaw", "position in the node list taken for the residue id"),
            ("Res_dev_img_noimage.cfg", "ApplyLaw", "window applied to the plain separation (no minimum image)"),
            ("Res_dev_img_halfshortest.cfg", "ApplyLaw", "separation folded at half of the shortest box edge on every axis")]
    small, *dev = c.tlc_many([("MC_Restraints", "Res_small.cfg", {"workers": 4})] + [("MC_Restraints", cfg, {"check": False, "workers": 1}) for cfg, _, _ in devs])
    ck.model_must_hold(small, "WindowLaws/RingLaw/SelLaw/ApplyLaw")
    for res, (_, law, what) in zip(dev, devs):
        ck.model_must_refute(res, law, what)
    cases = small.cases()
    ck.require(len(cases) > 1000, "too few cases: %d" % len(cases))
    ck.stage("S->I: %d window / ring cases through the real parser and set_restraints" % len(cases))
    for cs, (kind, msg) in zip(cases, c.pmap(_s2i, cases, chunksize=16)):
        if kind == "machinery":
            raise c.MachineryError(msg)
        ck.replayed += 1
        ck.count(json.dumps(cs["a"], sort_keys=True) + cs["kind"])
        ck.actions[cs["kind"]] = ck.actions.get(cs["kind"], 0) + 1
        if kind == "diff":
            ck.violation({"kind": "s2i", "case": cs}, what="%s case %s: %s" % (cs["kind"], cs["a"], msg))
    ck.sample({"window case": next(x for x in cases if x["kind"] == "window" and x["a"]["d"] > 0)})
    for kind in ("window", "window2", "ring", "ring2", "sel", "apply"):
        ck.require(ck.actions.get(kind), "no %s case was replayed" % kind)
    probes = [pr for x in cases if x["kind"] == "apply" for pr in x["probes"]]
    ck.actions["window probes accepted (boxes with unequal edges)"] = sum(1 for pr in probes if pr["acc"])
    ck.actions["window probes rejected (boxes with unequal edges)"] = sum(1 for pr in probes if not pr["acc"])
    ck.require(any(pr["acc"] for pr in probes) and any(not pr["acc"] for pr in probes), "window probes are all accepted or all rejected")
    ck.actions["directives evaluated on residue lists in any id order"] = sum(len(x["dirs"]) for x in cases if x["kind"] == "sel")
    ck.sample({"selection case": next(x for x in cases if x["kind"] == "sel" and x["a"]["order"] == [2, 4, 1, 3])})
    ck.stage("I->S: random build files through gen_coords")
    rings = [3, 5, 8, 12, 4, 6, 7, 3] if tier == "quick" else [3, 4, 5, 6, 7, 8, 9, 10, 11, 12] * 6
    args = [(sd * 1000 + i, r) for i, r in enumerate(rings)]
    args += [(sd * 1000 + 500 + i, r, True) for i, r in enumerate([5, 8, 4, 6] if tier == "quick" else [3, 4, 5, 6, 7, 8, 9, 10] * 3)]
    # boxes with unequal edges, a distance restraint whose lower bound exceeds half of the shortest edge
    args += [(sd * 1000 + 700 + i, r, "rect") for i, r in enumerate([4, 6, 5] if tier == "quick" else [3, 4, 5, 6, 7, 8] * 3)]
    outs = c.pmap(_e2e, args)
    traces, nov = [], 0
    for a_, out in zip(args, outs):
        s, r = a_[0], a_[1]
        why = (out.get("samples") or {}).get("own", {}).get("why")
        if why:     # judged at sampling time, whether or not the run went on to finish
            ck.violation({"kind": "e2e", "seed": s, "ring": r, "small_box": a_[2] if len(a_) > 2 else False, "sampling": out["samples"], "build_file": out.get("text")},
                         what="persistence-length sampling (seed %d): %s" % (s, "; ".join(why)[:500]))
        if "noverdict" in out:
            nov += 1
            continue
        ck.count("e2e %d %d" % (s, r))
        if out.get("error_in_code"):
            ck.violation({"kind": "e2e", "seed": s, "ring": r, "error": out["error_in_code"], "build_file": out.get("bld")},
                         what="gen_coords raised with a random build file (seed %d, ring %d): %s" % (s, r, out["error_in_code"]))
            continue
        traces.append({"inst": out["inst"], "evs": out["evs"], "bld": out["bld"], "seed": s, "ring": r, "text": out["text"], "small_box": a_[2] if len(a_) > 2 else False})
        if len(a_) > 2 and a_[2] == "rect":
            ck.actions["runs in a box with unequal edges"] = ck.actions.get("runs in a box with unequal edges", 0) + 1
        raw = out["evs"][-1].get("raw", {}).get("pairs", [])
        ck.actions["restrained pairs checked"] = ck.actions.get("restrained pairs checked", 0) + len(raw)
        for e in out["evs"]:
            if e.get("rids"):
                ck.actions["restrained placement"] = ck.actions.get("restrained placement", 0) + 1
            if e.get("obs") and "dir_ok" in e["obs"]:
                ck.actions["direction-restricted placement"] = ck.actions.get("direction-restricted placement", 0) + 1
            if e.get("obs") and "win_ok" in e["obs"]:
                ck.actions["placement inside distance windows (own minimum image)"] = ck.actions.get("placement inside distance windows (own minimum image)", 0) + 1
            if e.get("rids") and out["inst"]["mname"][e["mol"] - 1] == "CB":
                ck.actions["restrained placement, residue ids not ascending"] = ck.actions.get("restrained placement, residue ids not ascending", 0) + 1
    ck.extra["no_verdict_runs"] = nov
    # random build files are not always satisfiable within the time limit (no verdict); a handful of completed runs is required
    ck.require(len(traces) >= 3, "too many runs without verdict (%d of %d)" % (nov, len(args)))
    if traces:
        validate(ck, traces, "e2e")
        ck.sample({"build file": traces[0]["text"], "restrained placement": next((e for e in traces[0]["evs"] if e.get("rids")), None),
                   "finish": traces[0]["evs"][-1].get("raw")})
        ck.require(ck.actions.get("restrained placement"), "no placement carried a geometric restraint (vacuous)")
        # these two scenarios are also decided deterministically by the exported `sel` / `apply` cases above; a recorded run that does not come
        # to an end within its CPU limit is "no verdict", not a failure of the machinery
        for key, msg in (("restrained placement, residue ids not ascending", "no restrained placement in the molecule whose residue ids do not ascend"),
                         ("runs in a box with unequal edges", "no run in a box with unequal edges came to an end")):
            if not ck.actions.get(key):
                ck.note("coverage note (recorded runs): " + msg)
        demo = json.loads(json.dumps(traces[:1]))
        k = next((i for i, e in enumerate(demo[0]["evs"]) if e.get("rids")), None)
        if k is not None:
            demo[0]["evs"][k]["rids"] = []
            rej = validate(ck, demo, "demo", expect_reject=True)
            if 1 not in rej:
                raise c.MachineryError("binding demonstration failed: a placement whose restraint set was emptied was accepted")
            ck.extra["binding_demo"] = "trace with an emptied restraint set rejected after %d matched events" % rej[1]
    ck.exhaustive = True
    return ck.finish()


def replay(path):
    doc = json.loads(open(path).read())
    case = doc["case"]
    if case["kind"] == "s2i":
        kind, msg = _s2i(case["case"])
        print("replayed:", kind, msg)
        return 1 if kind == "diff" else 0
    out = _e2e((case["seed"], case["ring"], case.get("small_box", False)))
    ck = c.Check("C07", "quick")
    if out.get("error_in_code"):
        print("replayed:", out["error_in_code"])
        return 1
    why = (out.get("samples") or {}).get("own", {}).get("why")
    if why:
        print("replayed: persistence-length sampling:", "; ".join(why))
        return 1
    if "noverdict" in out:
        print("replayed: no verdict")
        return 0
    validate(ck, [{"inst": out["inst"], "evs": out["evs"], "bld": out["bld"], "seed": case["seed"], "ring": case["ring"], "text": out["text"]}], "replay")
    return 1 if ck.violations else 0
