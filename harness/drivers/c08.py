"""C08 - a topology is read as its preprocessed, flattened equivalent.

spec/TopRead.tla   P-layer PRead = ReadFlat(Preprocess(fs)); I-layer = the director-per-file stack machine of top_parser.py
spec/TopReadMC.tla exhaustive instances (cond / sec / mols / split) + export of (input, expected result)
spec/TopReadTrace.tla  batch validation of (abstract file system, observed projection) records

S->I : every exported case is rendered as a real directory tree in three textual variants (plain; comments + blank lines;
       tabs / extra spaces / compact headers), read with Topology.from_gmx_topfile (absolute and relative path), projected
       and compared with the TLC value and the variants with each other; instances of [ molecules ] are probed for
       independence.
I->S : seeded random deeper include trees and real .top files (repository test data, selftest fixtures; lexed into abstract
       lines, values identified by reading the single line in isolation) are read by the real reader; TLC validates the batch.

The only oracle is TLC.  Python renders, runs, projects and compares.
"""
import json
import os
import random
import shutil
import traceback
from pathlib import Path

from .. import common as c

PROP = "C08"


def jvm(gb):
    """bounded heap: a dozen TLC runs are started concurrently and the default heap is a quarter of the machine each"""
    return {"JAVA_TOOL_OPTIONS": "-Xss64m -Xmx%dg" % gb}


def tlc_jobs(jobs):
    """tlc_many, repeated once if a JVM died without a TLC-level verdict (memory pressure while others run)"""
    try:
        return c.tlc_many(jobs)
    except c.MachineryError as exc:
        if "Error:" in str(exc) and "OutOfMemory" not in str(exc):
            raise
        return c.tlc_many(jobs)


def scratch(name):
    """directory for the transient per-case file trees: tmpfs when available (a file creation under work/ costs ~1 ms),
    nothing a stored replay needs lives here (violations store the abstract case, which is rendered again)"""
    base = Path("/dev/shm") if os.access("/dev/shm", os.W_OK) else c.WORK
    d = base / ("verif_c08_%d" % os.getuid()) / ("%s_%d" % (name, os.getpid()))
    if d.exists():
        shutil.rmtree(d, ignore_errors=True)
    d.mkdir(parents=True)
    return d

# --------------------------------------------------------------------------- rendering abstract lines -> text

DEFAULTS_TXT = {1: "1 1 no 1.0 1.0", 2: "1 2 yes 0.5 0.5", 3: "1 1"}
DEFAULTS_VAL = {1: {"nbfunc": 1.0, "comb-rule": 1.0, "gen-pairs": "no", "fudgeLJ": 1.0, "fudgeQQ": 1.0},
                2: {"nbfunc": 1.0, "comb-rule": 2.0, "gen-pairs": "yes", "fudgeLJ": 0.5, "fudgeQQ": 0.5},
                3: {"nbfunc": 1.0, "comb-rule": 1.0, "gen-pairs": "no"}}
VARIANTS = ("plain", "comments+blank lines", "tabs/extra spaces")
TABLE_SECTION = {"defaults": "defaults", "atype": "atomtypes", "nbp": "nonbond_params", "btype": "bondtypes", "mols": "molecules"}


def line_text(l):
    """abstract line -> (section or None, [text lines]); a section is printed as a header in front of the lines"""
    k, a, n = l["k"], l["a"], l["n"]
    if k == "def":
        return None, ["#define %s" % a if n == 0 else "#define %s %d" % (a, n)]
    if k in ("ifdef", "ifndef"):
        return None, ["#%s %s" % (k, a)]
    if k == "else":
        return None, ["#else"]
    if k == "endif":
        return None, ["#endif"]
    if k == "incl":
        return None, ['#include "%s"' % "/".join(l["p"])]
    if k == "err":
        return None, ["#error boom"]
    if k == "defaults":
        return "defaults", [DEFAULTS_TXT[n]]
    if k == "atype":
        return "atomtypes", ["%s 72.0 0.0 A 0.%d 0.2" % (a, n)]
    if k == "nbp":
        return "nonbond_params", ["%s %s 1 0.%d 0.5" % (a[0], a[1:], n)]
    if k == "btype":
        return "bondtypes", ["%s %s 1 0.%d 1000" % (a[0], a[1:], n)]
    if k == "mols":
        return "molecules", ["%s %d" % (a, n)]
    if k == "mol":
        out = ["%s 1" % a, "[ atoms ]"]
        out += ["%d P %d R%s B%d %d 0.0 72" % (i, i, a, i, i) for i in range(1, n + 1)]
        if n > 1:
            out += ["[ bonds ]"] + ["%d %d 1 0.47 1000" % (i, i + 1) for i in range(1, n)]
        return "moleculetype", out
    raise c.MachineryError("cannot render line %r" % (l,))


def decorate(txt, variant, rng):
    """one text line in the given textual variant (a list of physical lines)"""
    if variant == 0:
        return [txt]
    if variant == 1:
        out = []
        if rng.random() < 0.3:
            out.append("; a comment line")
        out.append(txt + "   ; trailing comment")
        out.append("" if rng.random() < 0.7 else "   ")
        return out
    # variant 2: leading blanks, tabs / several spaces between tokens, compact or padded headers, trailing blanks
    if txt.startswith("["):
        name = txt.strip("[ ]")
        return [rng.choice(["[%s]", "[  %s  ]", "  [ %s ]  "]) % name]
    sep = rng.choice(["\t", "   ", " \t "])
    return [rng.choice(["", "  ", "\t"]) + sep.join(txt.split()) + rng.choice(["", "  ", "\t"])]


def render_file(lines, variant, rng, is_main=False):
    """abstract line list -> file text.  A header is written for every section line; in variant 1 consecutive lines of
    the same table share one header.  After every directive a header is written again (include boundaries coincide
    with section boundaries)."""
    out = []
    cur = None
    system_done = not is_main

    def emit(t):
        out.extend(decorate(t, variant, rng))
    if variant == 1:
        out.append("; generated for the C08 check")
    for l in lines:
        sec, txt = line_text(l)
        if sec == "molecules" and not system_done:
            emit("[ system ]")
            emit("C08 case")
            system_done = True
            cur = None
        if sec is None:
            cur = None
        elif sec == "moleculetype" or not (variant == 1 and cur == sec):
            emit("[ %s ]" % sec)
            cur = sec if sec != "moleculetype" else None
        for t in txt:
            emit(t)
    if not system_done:
        emit("[ system ]")
        emit("C08 case")
    return "\n".join(out) + "\n"


def write_tree(root, files, variant, seed_key, main=("main.top",), only_main=False):
    rng = random.Random("%s/%d" % (seed_key, variant))
    for path, lines in files.items():
        if only_main and tuple(path) != tuple(main):
            continue
        p = root.joinpath(*path)
        p.parent.mkdir(parents=True, exist_ok=True)
        p.write_text(render_file(lines, variant, rng, is_main=(tuple(path) == tuple(main))))


# --------------------------------------------------------------------------- running the real reader, projection

def _close(x, y):
    return abs(x - y) < 1e-9


def proj_atype(v):
    try:
        ok = (v["ptype"] == "A" and _close(v["mass"], 72.0) and _close(v["charge"], 0.0) and _close(v["nb2"], 0.2)
              and v["atom_num"] is None and v["bond_type"] is None)
        n = int(round(v["nb1"] * 10))
        return n if ok and _close(v["nb1"] * 10, n) else "?%r" % (v,)
    except Exception:
        return "?%r" % (v,)


def proj_block(name, block):
    try:
        n = len(block.nodes)
        atoms = [block.nodes[i] for i in sorted(block.nodes)]
        ok = all(a.get("atomname") == "B%d" % (i + 1) and a.get("resname") == "R" + name and a.get("resid") == i + 1
                 and a.get("atype") == "P" for i, a in enumerate(atoms))
        bonds = sorted(tuple(sorted(i.atoms)) for i in block.interactions.get("bonds", []))
        ok = ok and bonds == [(i, i + 1) for i in range(n - 1)] and block.name == name
        ok = ok and all(not v for k, v in block.interactions.items() if k != "bonds")
        return n if ok else "?block %s: %d atoms, bonds %s" % (name, n, bonds)
    except Exception as exc:
        return "?%s" % exc


def chain(n):
    return [(i, i + 1) for i in range(n - 1)]


def edges_of(g):
    return sorted(tuple(sorted(e)) for e in g.edges)


def block_edged(block):
    """the molecule type carries the edges of its content: the rendered content is a chain (bond i - i+1)"""
    try:
        return edges_of(block) == chain(len(block.nodes))
    except Exception:
        return False


def instance_edged(m):
    """residue graph and atom graph of the instance are the chain of its content (one atom per residue)"""
    try:
        n = len(m.molecule.nodes)
        return edges_of(m.molecule) == chain(n) and edges_of(m) == chain(len(m.nodes)) and len(m.nodes) == n
    except Exception:
        return False


def proj_instance(m, blocks):
    """an instance projects to its molecule-type name if it is a copy of that block, else to a marked name"""
    try:
        b = blocks[m.mol_name]
        ok = (len(m.nodes) == len({b.nodes[i].get("resid") for i in b.nodes}) and sorted(m.molecule.nodes) == sorted(b.nodes)
              and all(dict((k, v) for k, v in m.molecule.nodes[i].items()) == dict(b.nodes[i]) for i in b.nodes)
              and {k: [(tuple(i.atoms), list(i.parameters)) for i in v] for k, v in m.molecule.interactions.items() if v}
              == {k: [(tuple(i.atoms), list(i.parameters)) for i in v] for k, v in b.interactions.items() if v}
              and m.molecule is not b)
        return m.mol_name if ok else m.mol_name + "?not a copy of its block"
    except Exception as exc:
        return "%s?%s" % (getattr(m, "mol_name", "?"), exc)


def project_rendered(top):
    """projection for inputs rendered by this module (values identified by the literal numbers we wrote)"""
    defaults = 0
    if top.defaults:
        hit = [n for n, v in DEFAULTS_VAL.items() if v == dict(top.defaults)]
        defaults = hit[0] if hit else "?%r" % (dict(top.defaults),)
    defs = {}
    for k, v in top.defines.items():
        defs[k] = 0 if v is True else (int(v[0]) if isinstance(v, list) and len(v) == 1 and v[0].isdigit() else "?%r" % (v,))
    nbp = {}
    for k, v in top.nonbond_params.items():
        key = "".join(sorted(k))
        n = int(round(v["nb1"] * 10))
        nbp[key] = n if v["f"] == 1 and _close(v["nb2"], 0.5) and _close(v["nb1"] * 10, n) else "?%r" % (v,)
    types = {}
    for inter, tab in top.types.items():
        for atoms, ents in tab.items():
            if not ents:
                continue
            key = "".join(atoms) if inter == "bonds" else "%s:%s" % (inter, "-".join(atoms))
            vals = []
            for params, meta in ents:
                try:
                    n = int(round(float(params[1]) * 10))
                    good = meta is None and params[0] == "1" and params[2] == "1000" and _close(float(params[1]) * 10, n)
                except Exception:
                    good = False
                vals.append(n if good else "?%r/%r" % (params, meta))
            types[key] = vals
    blocks = {k: proj_block(k, b) for k, b in top.force_field.blocks.items()}
    return {"abort": "", "defs": defs, "defaults": defaults,
            "atypes": {k: proj_atype(v) for k, v in top.atom_types.items()},
            "nbp": nbp, "types": types, "blocks": blocks,
            "edged": {k: block_edged(b) for k, b in top.force_field.blocks.items()},
            "molecules": [proj_instance(m, top.force_field.blocks) for m in top.molecules],
            "medged": [instance_edged(m) for m in top.molecules],
            "idx": {k: [int(i) for i in v] for k, v in top.mol_idx_by_name.items() if v}}


ABORTED = {"defs": {}, "defaults": 0, "atypes": {}, "nbp": {}, "types": {}, "blocks": {}, "edged": {}, "molecules": [], "medged": [],
           "idx": {}}


def classify_exception(exc):
    """exception of the reader -> abort kind of the specification (anything unexpected keeps its type and never matches)"""
    tb = traceback.extract_tb(exc.__traceback__)
    last = tb[-1] if tb else None
    where = "%s:%s" % (os.path.basename(last.filename), last.name) if last else "?"
    if isinstance(exc, NotImplementedError) and where == "top_parser.py:parse_error":
        kind = "error"
    elif isinstance(exc, OSError) and where == "top_parser.py:parse_include" and "Cannot find file" in str(exc):
        kind = "missing"
    elif isinstance(exc, KeyError) and where == "top_parser.py:finalize":
        kind = "nomol"
    else:
        kind = "exception %s at %s: %s" % (type(exc).__name__, where, str(exc)[:160])
    return dict(ABORTED, abort=kind)


def snapshot(m):
    return (sorted((n, sorted((k, repr(v)) for k, v in d.items() if k != "graph")) for n, d in m.nodes(data=True)),
            sorted(map(sorted, m.edges)),
            sorted((n, sorted((k, repr(v)) for k, v in d.items())) for n, d in m.molecule.nodes(data=True)),
            sorted(map(sorted, m.molecule.edges)),
            sorted((k, [(tuple(i.atoms), tuple(i.parameters)) for i in v]) for k, v in m.molecule.interactions.items() if v))


def block_snapshot(b):
    return (sorted((n, sorted((k, repr(v)) for k, v in d.items())) for n, d in b.nodes(data=True)), sorted(map(sorted, b.edges)),
            sorted((k, [(tuple(i.atoms), tuple(i.parameters)) for i in v]) for k, v in b.interactions.items() if v))


def independence_probe(top):
    """mutate the first instance of every molecule type; siblings, other molecules and the block must not change.
    returns None or a description of what changed"""
    from vermouth.molecule import Interaction
    mols = list(top.molecules)
    if not mols:
        return None
    if len({id(m) for m in mols}) != len(mols) or len({id(m.molecule) for m in mols}) != len(mols):
        return "two entries of topology.molecules are the same object"
    seen = set()
    for i, m in enumerate(mols):
        if m.mol_name in seen:
            continue
        seen.add(m.mol_name)
        before = [snapshot(x) for x in mols]
        bbefore = {k: block_snapshot(b) for k, b in top.force_field.blocks.items()}
        for n in list(m.nodes):
            m.nodes[n]["resname"] = "ZZ"
            m.nodes[n]["probe"] = 1
        m.add_node(9001, resname="NEW", resid=9001)
        m.add_edge(9001, next(iter(m.nodes)))
        for a in list(m.molecule.nodes):
            m.molecule.nodes[a]["atomname"] = "ZZ"
            m.molecule.nodes[a]["charge"] = 9.0
        m.molecule.add_node(9001, atomname="NEW", resid=9001, resname="NEW")
        m.molecule.add_edge(9001, next(iter(m.molecule.nodes)))
        m.molecule.interactions["bonds"].append(Interaction(atoms=(0, 9001), parameters=["1", "9", "9"], meta={}))
        for j, x in enumerate(mols):
            if j != i and snapshot(x) != before[j]:
                return "mutating instance %d (%s) changed instance %d (%s)" % (i, m.mol_name, j, x.mol_name)
        for k, b in top.force_field.blocks.items():
            if block_snapshot(b) != bbefore[k]:
                return "mutating instance %d (%s) changed the molecule type %s" % (i, m.mol_name, k)
    return None


def read_real(root, main, relative, project, probe=False):
    """run Topology.from_gmx_topfile on root/main; returns (projection, probe result)"""
    from polyply.src.topology import Topology
    cwd = os.getcwd()
    try:
        if relative:
            os.chdir(root)
            path = "/".join(main)
        else:
            path = str(root.joinpath(*main))
        try:
            top = Topology.from_gmx_topfile(path, "c08")
        except RecursionError:
            raise
        except Exception as exc:
            return classify_exception(exc), None
        try:
            obs = project(top)
        except Exception as exc:
            return dict(ABORTED, abort="projection failed: %s: %s" % (type(exc).__name__, exc)), None
        pr = None
        if probe:
            try:
                pr = independence_probe(top)
            except Exception as exc:
                pr = "independence probe raised %s: %s" % (type(exc).__name__, exc)
        return obs, pr
    finally:
        os.chdir(cwd)


# --------------------------------------------------------------------------- expected values (TLC JSON -> comparison form)

def as_map(x):
    if isinstance(x, dict):
        return dict(x)
    if isinstance(x, list) and not x:
        return {}
    if isinstance(x, list):    # a function with domain 1..n cannot occur for string keys
        raise c.MachineryError("unexpected map value from TLC: %r" % (x,))
    return x


def norm_expected(e):
    types = {}
    for key, n in e["types"]:
        types.setdefault(key, []).append(n)
    return {"abort": e["abort"], "defs": as_map(e["defs"]), "defaults": e["defaults"], "atypes": as_map(e["atypes"]),
            "nbp": as_map(e["nbp"]), "types": types, "blocks": as_map(e["blocks"]), "edged": as_map(e["edged"]),
            "molecules": list(e["molecules"]), "medged": list(e["medged"]),
            "idx": {k: list(v) for k, v in as_map(e["idx"]).items()}}


FIELDS = ("abort", "defs", "defaults", "atypes", "nbp", "types", "blocks", "edged", "molecules", "medged", "idx")
FIELD_NAMES = {"abort": "abort / #error / missing include", "defs": "defines", "defaults": "defaults", "atypes": "atom types",
               "nbp": "nonbond_params", "types": "type tables", "blocks": "molecule types", "edged": "edges of the molecule types", "molecules": "molecule list",
               "medged": "edges (residue graph / atoms) of the instances",
               "idx": "mol_idx_by_name"}


def first_diff(obs, exp):
    for f in FIELDS:
        if obs[f] != exp[f]:
            return f
    return None


# --------------------------------------------------------------------------- S -> I replay

def case_files(alpha, ids):
    files = {tuple(f["path"]): f["lines"] for f in alpha["files"]}
    main = list(alpha["prefix"])
    for i in ids:
        main += alpha["chunks"][i - 1]
    files[("main.top",)] = main
    return files


def run_case(root, alpha, ids, ci, fixed_written, probe):
    """one exported case in the three variants; returns (list of (variant, relative, obs, probe)), files)"""
    files = case_files(alpha, ids)
    res = []
    for v in range(3):
        vroot = root / ("v%d" % v)
        if v not in fixed_written:
            if vroot.exists():
                shutil.rmtree(vroot)
            vroot.mkdir(parents=True)
            write_tree(vroot, files, v, "fixed-%s" % alpha["which"])
            fixed_written.add(v)
        write_tree(vroot, files, v, "%s-%s" % (alpha["which"], ids), only_main=True)
        relative = (ci + v) % 2 == 0
        obs, pr = read_real(vroot, ("main.top",), relative, project_rendered, probe=probe)
        res.append((v, relative, obs, pr))
    return res, files


def judge(exp, runs):
    """compare the three runs with the expected value.  returns None | (sig, what, detail); sig is always None: no finding
    of C08 is open (F3 and F16 molecules-per-file are repaired), so every difference is a VIOLATION"""
    for v, rel, obs, pr in runs:
        d = first_diff(obs, exp)
        if d is not None:
            others = [o for vv, _, o, _ in runs if vv != v]
            agree = all(o == obs for o in others)
            sig = None
            what = "%s differ%s (variant %s, %s path): read %s, flattened equivalent gives %s" % (
                FIELD_NAMES[d], "" if agree else " and the textual variants disagree with each other", VARIANTS[v],
                "relative" if rel else "absolute", json.dumps(obs[d])[:200], json.dumps(exp[d])[:200])
            return sig, what, {"variant": v, "relative": rel, "observed": obs, "expected": exp, "field": d,
                               "variants_agree": agree}
    for v, rel, obs, pr in runs:
        if pr:
            return None, "instances are not independent copies (variant %s): %s" % (VARIANTS[v], pr), {"variant": v, "probe": pr}
    return None


def _replay_chunk(arg):
    alpha, cases, probe = arg
    root = scratch("fs")
    fixed = set()
    bad = []
    nreads = 0
    for ci, case in cases:
        exp = norm_expected(case["exp"])
        try:
            runs, files = run_case(root, alpha, case["c"], ci, fixed, probe)
        except RecursionError as exc:
            bad.append((ci, None, "reader recursed without bound: %s" % exc, {}))
            continue
        nreads += len(runs)
        j = judge(exp, runs)
        if j is not None:
            bad.append((ci,) + j)
    shutil.rmtree(root, ignore_errors=True)
    return bad, nreads


def replay_export(ck, res, label, probe=False, seen=None):
    alphas = res.tagged("ALPHABET")
    cases = res.cases()
    if not alphas or not cases:
        raise c.MachineryError("%s: TLC exported no alphabet / no cases" % label)
    alpha = alphas[0]
    uniq = {}
    for cs in cases:
        uniq.setdefault(tuple(cs["c"]), cs)
    if seen is not None:      # partitions of one instance share the short mains
        for k in list(uniq):
            if k in seen:
                del uniq[k]
        seen.update(uniq)
    cases = [uniq[k] for k in sorted(uniq)]
    idx = list(enumerate(cases))
    parts = [(alpha, ch, probe) for ch in c.chunks(idx, c.NPROC * 4)]
    nbad = 0
    for bad, nreads in c.pmap(_replay_chunk, parts):
        ck.evaluations += nreads
        for ci, sig, what, detail in bad:
            nbad += 1
            ck.violation({"kind": "S->I replay", "instance": label, "alphabet": alpha, "c": cases[ci]["c"], "exp": cases[ci]["exp"],
                          "impl": cases[ci]["impl"], "index": ci, "detail": detail},
                         sig=sig, what="%s main=%s: %s" % (label, main_summary(alpha, cases[ci]["c"]), what))
    ck.replayed += len(cases)
    for cs in cases:
        ck.nontrivial.add("%s:%s" % (label, cs["c"]))
    return cases, alpha, nbad


def mols_files(alpha, ids):
    """number of files of the case that hold [ molecules ] entries and are named by the main file (input statistic)"""
    n = 1 if any(l["k"] == "mols" for i in ids for l in alpha["chunks"][i - 1]) else 0
    named = {tuple(l["p"]) for i in ids for l in alpha["chunks"][i - 1] if l["k"] == "incl"}
    return n + sum(1 for f in alpha["files"] if tuple(f["path"]) in named and any(l["k"] == "mols" for l in f["lines"]))


def main_summary(alpha, ids):
    out = []
    for i in ids:
        out.append(" ".join(line_text(l)[1][0] if l["k"] != "mol" else "[moleculetype %s]" % l["a"] for l in alpha["chunks"][i - 1]))
    return " | ".join(out)


# --------------------------------------------------------------------------- I -> S: random include trees

MACROS = ("M", "N", "K")
ACTIONS = ("Define", "Ifdef", "Else", "Endif", "Include", "Error", "Header", "Moltype", "Molecules", "Finalize")


def L(k, a="", n=0, p=()):
    return {"k": k, "a": a, "n": n, "p": list(p)}


def rel_path(from_dir, to_path, rng):
    """include argument that reaches to_path from a file in from_dir (both tuples of components), optionally with ./"""
    i = 0
    while i < len(from_dir) and i < len(to_path) - 1 and from_dir[i] == to_path[i]:
        i += 1
    p = [".."] * (len(from_dir) - i) + list(to_path[i:])
    if rng.random() < 0.15:
        p = ["."] + p
    if rng.random() < 0.1 and from_dir:
        p = ["..", from_dir[-1]] + p          # ../<own dir>/...  : a detour through existing directories
    return p


def random_tree(rng, size):
    """abstract file system inside the domain: conditionals balanced / not nested / only include or #error inside,
    #define outside conditionals, acyclic includes (a file includes only files with a larger index), every molecule
    type name has one content, [ molecules ] at the end of the main file"""
    dirs = [(), ("sub",), ("sub", "deep"), ("lib",), ("lib", "ff")]
    nfiles = rng.randint(2, 3 + size)
    paths = [("main.top",)]
    # few base names over five directories: the same relative name exists in several directories (with different
    # content), so that resolving an include against any directory but the including file's is observable
    names = ["ff.itp", "mol.itp", "x.itp"]
    for i in range(1, nfiles):
        for _ in range(20):
            p = rng.choice(dirs) + (rng.choice(names),)
            if p not in paths:
                break
        else:
            p = rng.choice(dirs) + ("f%d.itp" % i,)
        paths.append(p)
    # in half of the trees: a file in a sub-directory includes a sibling by its bare name, and a file of that name
    # (other content) also sits beside the main file
    forced = None
    if rng.random() < 0.5:
        d = rng.choice(dirs[1:])
        nm = rng.choice(names)
        includer = d + ("inc.itp",)
        paths.insert(1, includer)
        for p in (d + (nm,), (nm,)):
            if p not in paths:
                paths.append(p)
        forced = (includer, nm)
    molnames = ["A", "B", "C", "D", "E", "F", "G"]
    molsize = {m: rng.randint(1, 3) for m in molnames}
    files = {}
    perr = rng.choice([0.0, 0.03, 0.08, 0.2])     # some trees rarely abort, some often
    for fi, path in enumerate(paths):
        d = path[:-1]
        later = paths[fi + 1:]
        lines = []

        def body():
            r = rng.random()
            if r < perr:
                return [L("err")]
            if r < 1.5 * perr:
                return [L("incl", p=rel_path(d, rng.choice(dirs) + ("absent.itp",), random.Random(1)))]
            if r < 0.15 or not later:
                return []
            if r < 0.8:
                return [L("incl", p=rel_path(d, rng.choice(later), rng))]
            return [L("incl", p=rel_path(d, rng.choice(later), rng)), L("incl", p=rel_path(d, rng.choice(later), rng))]
        for _ in range(rng.randint(1, 3 + 2 * size)):
            r = rng.random()
            if r < 0.12:
                lines.append(L("def", rng.choice(MACROS), rng.choice([0, 0, 1, 2])))
            elif r < 0.24:
                m = rng.choice(molnames)
                lines.append(L("mol", m, molsize[m]))
            elif r < 0.32:
                lines.append(L("atype", rng.choice(["T", "U", "V"]), rng.randint(1, 4)))
            elif r < 0.37:
                lines.append(L("btype", rng.choice(["PQ", "PR", "QR"]), rng.randint(1, 4)))
            elif r < 0.41:
                lines.append(L("nbp", rng.choice(["PQ", "PR"]), rng.randint(1, 4)))
            elif r < 0.44:
                lines.append(L("defaults", "", rng.randint(1, 3)))
            elif r < 0.58 and later:
                lines.append(L("incl", p=rel_path(d, rng.choice(later), rng)))
            else:
                kk = rng.choice(["ifdef", "ifndef"])
                m = rng.choice(MACROS)
                lines.append(L(kk, m))
                lines += body()
                if rng.random() < 0.5:
                    lines.append(L("else"))
                    lines += body()
                lines.append(L("endif"))
        if forced and path == forced[0]:
            lines.insert(rng.randint(0, len(lines)), L("incl", p=[forced[1]]))
        files[path] = lines
    main = files[("main.top",)]
    if forced:
        main.append(L("incl", p=rel_path((), forced[0], rng)))
    main[:0] = [L("defaults", "", 1), L("atype", "P", 1)]
    # mostly molecule types the main file itself declares unconditionally (known without any oracle), sometimes any name
    own = [l["a"] for l in main if l["k"] == "mol"]
    if not own or rng.random() < 0.5:
        m = rng.choice(molnames)
        main.insert(2, L("mol", m, molsize[m]))
        own.append(m)
    for _ in range(rng.randint(0, 4)):
        pool = own if rng.random() < 0.9 else molnames[:5]
        main.append(L("mols", rng.choice(pool), rng.choice([0, 1, 1, 2, 3])))
    return files


def tree_stats(files):
    """input statistics (no oracle): does an include written outside the main directory also name an existing, different
    file when taken relative to the main directory; is a molecule type name declared by two files"""
    clash = False
    for path, lines in files.items():
        d = path[:-1]
        if not d:
            continue
        for l in lines:
            if l["k"] == "incl":
                own = tuple(x for x in os.path.normpath("/".join(d + tuple(l["p"]))).split("/"))
                top = tuple(x for x in os.path.normpath("/".join(l["p"])).split("/"))
                if own in files and top in files and own != top:
                    clash = True
    decl = {}
    for path, lines in files.items():
        for l in lines:
            if l["k"] == "mol":
                decl.setdefault(l["a"], set()).add(path)
    return {"clash": clash, "reread": any(len(v) > 1 for v in decl.values())}


def _record_random(arg):
    sd, ids, size = arg
    root = scratch("rnd")
    out = []
    for i in ids:
        rng = random.Random("%d/%d" % (sd, i))
        files = random_tree(rng, size)
        variant = i % 3
        relative = (i // 3) % 2 == 0
        if root.exists():
            shutil.rmtree(root, ignore_errors=True)
        root.mkdir(parents=True)
        for dd in (("sub", "deep"), ("lib", "ff")):
            root.joinpath(*dd).mkdir(parents=True, exist_ok=True)
        write_tree(root, files, variant, "rnd-%d-%d" % (sd, i))
        try:
            obs, pr = read_real(root, ("main.top",), relative, project_rendered, probe=True)
        except RecursionError as exc:
            obs, pr = dict(ABORTED, abort="exception RecursionError"), None
        out.append({"id": "random %d/%d" % (sd, i), "main": ["main.top"], "variant": variant, "relative": relative,
                    "files": [{"path": list(p), "lines": ls} for p, ls in files.items()], "obs": obs_json(obs), "probe": pr,
                    "stats": tree_stats(files)})
    shutil.rmtree(root, ignore_errors=True)
    return out


def obs_json(o):
    def pairs(d):
        return [[k, d[k]] for k in sorted(d)]
    return {"abort": o["abort"], "defs": pairs(o["defs"]), "defaults": o["defaults"], "atypes": pairs(o["atypes"]),
            "nbp": pairs(o["nbp"]), "types": pairs(o["types"]), "blocks": pairs(o["blocks"]), "edged": pairs(o["edged"]),
            "molecules": list(o["molecules"]), "medged": list(o["medged"]), "idx": pairs(o["idx"])}


def tla_safe(rec):
    """values the projection could not identify are strings; TLC compares them with integers -> make them integers that
    cannot match (the trace is then rejected on that field, as it must be)"""
    def fix(v):
        if isinstance(v, str):
            return -1
        if isinstance(v, list):
            return [fix(x) for x in v]
        return v
    o = rec["obs"]
    o2 = dict(o)
    for f in ("defs", "atypes", "nbp", "blocks"):
        o2[f] = [[k, fix(v)] for k, v in o[f]]
    o2["types"] = [[k, fix(v)] for k, v in o["types"]]
    o2["defaults"] = fix(o["defaults"])
    return dict(rec, obs=o2)


# --------------------------------------------------------------------------- I -> S: real .top files (lexer + reference reads)

class OutOfDomain(Exception):
    pass


TOP_TABLES = {"defaults", "atomtypes", "nonbond_params", "pairtypes", "angletypes", "dihedraltypes", "bondtypes", "constrainttypes"}
TOP_SKIP = {"implicit_genborn_params", "cmaptypes", "system"}


class Values:
    """identifies values by reading the single line / molecule type in isolation with the real reader"""

    def __init__(self):
        self.tab = {}     # (kind, key) -> [value repr]

    def vid(self, kind, key, val, add):
        lst = self.tab.setdefault((kind, key), [])
        r = json.dumps(val, sort_keys=True, default=repr)
        if r in lst:
            return lst.index(r) + 1
        if add:
            lst.append(r)
            return len(lst)
        return -1

    @staticmethod
    def fresh(lines):
        from polyply.src.topology import Topology
        from polyply.src.top_parser import read_topology
        import vermouth
        top = Topology(vermouth.forcefield.ForceField("ref"), name="ref")
        read_topology(lines, top)
        return top


def block_value(b):
    return {"name": b.name, "nrexcl": getattr(b, "nrexcl", None),
            "atoms": [sorted((k, repr(v)) for k, v in b.nodes[n].items()) for n in sorted(b.nodes)],
            "inter": {k: [[list(map(repr, i.atoms)), list(map(str, i.parameters)), sorted((str(a), str(b_)) for a, b_ in i.meta.items())]
                          for i in v] for k, v in sorted(b.interactions.items()) if v}}


def edge_value(g):
    return sorted(sorted(map(repr, e)) for e in g.edges)


def res_edge_value(block):
    from polyply.src.meta_molecule import MetaMolecule
    return edge_value(MetaMolecule._block_graph_to_res_graph(block))


def table_entries(top):
    """all table entries of a topology as (kind, key, value) in a canonical form"""
    out = []
    if top.defaults:
        out.append(("defaults", "", dict(top.defaults)))
    for k, v in top.atom_types.items():
        out.append(("atype", k, v))
    for k, v in top.nonbond_params.items():
        out.append(("nbp", "|".join(sorted(k)), v))
    for inter, tab in top.types.items():
        for atoms, ents in tab.items():
            for params, meta in ents:
                out.append(("btype", "%s:%s" % (inter, "|".join(atoms)), [list(params), meta]))
    return out


def strip_line(raw):
    return raw.split(";", 1)[0].strip()


def lex_file(path, vals):
    """real file -> abstract lines.  Mirrors render_file: directives and table lines one by one, a molecule type (header
    to the next top-level header / end of file, without the #include / #error lines and the conditionals around them)
    as one 'mol' line identified by reading its text in isolation."""
    raw = [strip_line(x) for x in open(path).read().splitlines()]
    raw = [x for x in raw if x and not x.startswith("*")]
    out = []
    section = None
    mol = None          # buffer of the current molecule type
    mol_closed = False  # an include / #error was met inside the molecule region: no further molecule content may follow

    def flush():
        nonlocal mol, mol_closed
        if mol is not None:
            top = Values.fresh(mol)
            names = list(top.force_field.blocks)
            if len(names) != 1:
                raise OutOfDomain("molecule type text does not define exactly one block")
            pos = mol_pos[0]
            blk = top.force_field.blocks[names[0]]
            out.insert(pos, L("mol", names[0], vals.vid("mol", names[0], block_value(blk), True)))
            vals.vid("moledges", names[0], edge_value(blk), True)
            vals.vid("resedges", names[0], res_edge_value(blk), True)
        mol = None
        mol_closed = False
    mol_pos = [0]
    i = 0
    while i < len(raw):
        ln = raw[i]
        if ln.startswith("#"):
            tok = ln.split()
            d = tok[0]
            if d in ("#ifdef", "#ifndef"):
                j = i + 1
                while j < len(raw) and raw[j] != "#endif":
                    if raw[j].startswith("#ifdef") or raw[j].startswith("#ifndef"):
                        raise OutOfDomain("nested conditional")
                    j += 1
                if j == len(raw):
                    raise OutOfDomain("unbalanced conditional")
                body = raw[i + 1:j]
                guards = any(b.startswith("#include") or b.startswith("#error") for b in body)
                if not guards:
                    if mol is not None and not mol_closed:
                        mol.extend(raw[i:j + 1])       # opaque content of the molecule type
                    elif all(b.startswith("#else") for b in body):
                        out.append(L(d[1:], tok[1]))
                        out.extend(L("else") for b in body)
                        out.append(L("endif"))
                    else:
                        raise OutOfDomain("conditional around table lines")
                    i = j + 1
                    continue
                if not all(b.startswith(("#include", "#error", "#else")) for b in body):
                    raise OutOfDomain("conditional mixes includes with other lines")
                out.append(L(d[1:], tok[1]))
                for b in body:
                    out.append(lex_directive(b))
                out.append(L("endif"))
                if mol is not None:
                    mol.extend([raw[i]] + [b for b in body if b.startswith("#else")] + ["#endif"])
                    mol_closed = True
                section = None
                i = j + 1
                continue
            if d in ("#else", "#endif"):
                raise OutOfDomain("unbalanced conditional")
            out.append(lex_directive(ln))
            if d in ("#include", "#error"):
                if mol is not None:
                    mol_closed = True
                section = None
            i += 1
            continue
        if ln.startswith("["):
            name = ln.strip("[ ]").casefold()
            if name == "moleculetype":
                flush()
                mol = [ln]
                mol_pos[0] = len(out)
                section = "moleculetype"
            elif name in TOP_TABLES or name in TOP_SKIP or name == "molecules":
                flush()
                section = name
            elif mol is not None:
                if mol_closed:
                    raise OutOfDomain("molecule section continues after an #include (include inside a molecule type)")
                mol.append(ln)
            else:
                raise OutOfDomain("unknown top-level section %s" % name)
            i += 1
            continue
        # data line
        if mol is not None and section == "moleculetype":
            if mol_closed:
                raise OutOfDomain("molecule content after an #include")
            mol.append(ln)
        elif section is None:
            raise OutOfDomain("data line directly after an #include (include boundary inside a section)")
        elif section in TOP_SKIP:
            pass
        elif section == "molecules":
            name, n = ln.split()
            out.append(L("mols", name, int(n)))
        else:
            ents = table_entries(Values.fresh(["[ %s ]" % section, ln]))
            if len(ents) != 1:
                raise OutOfDomain("table line does not yield exactly one entry")
            kind, key, val = ents[0]
            out.append(L(kind, key, vals.vid(kind, key, val, True)))
        i += 1
    flush()
    return out


def lex_directive(ln):
    tok = ln.split()
    if tok[0] == "#define":
        if len(tok) < 2:
            raise OutOfDomain("bad define")
        return L("def", tok[1], 0) if len(tok) == 2 else L("def", tok[1], DEFVALS.setdefault(" ".join(tok[2:]), len(DEFVALS) + 1))
    if tok[0] == "#include":
        p = tok[1].strip('"')
        if os.path.isabs(p):
            raise OutOfDomain("absolute include")
        return L("incl", p=[x for x in p.split("/") if x])
    if tok[0] == "#error":
        return L("err")
    if tok[0].startswith("#else"):
        return L("else")
    raise OutOfDomain("directive %s" % tok[0])


DEFVALS = {}


def lex_tree(main_path):
    """real .top -> (root dir, main rel path, {path tuple: abstract lines}, Values)"""
    main_path = Path(main_path).resolve()
    root = main_path.parent
    vals = Values()
    files = {}
    todo = [main_path]
    while todo:
        f = todo.pop()
        try:
            rel = tuple(f.relative_to(root).parts)
        except ValueError:
            raise OutOfDomain("include leaves the directory of the main file")
        if rel in files:
            continue
        files[rel] = lex_file(f, vals)
        for l in files[rel]:
            if l["k"] == "incl":
                tgt = Path(os.path.normpath(f.parent.joinpath(*l["p"])))
                if tgt.exists():
                    todo.append(tgt)
    return root, tuple(main_path.relative_to(root).parts), files, vals


def make_project_real(vals):
    def project(top):
        o = {"abort": "", "defs": {}, "defaults": 0, "atypes": {}, "nbp": {}, "types": {}, "blocks": {}, "edged": {}, "molecules": [],
             "medged": [], "idx": {}}
        for k, v in top.defines.items():
            o["defs"][k] = 0 if v is True else DEFVALS.get(" ".join(v), -1)
        for kind, key, val in table_entries(top):
            n = vals.vid(kind, key, val, False)
            if kind == "defaults":
                o["defaults"] = n
            elif kind == "atype":
                o["atypes"][key] = n
            elif kind == "nbp":
                o["nbp"][key] = n
            else:
                o["types"].setdefault(key, []).append(n)
        for k, b in top.force_field.blocks.items():
            o["blocks"][k] = vals.vid("mol", k, block_value(b), False)
            o["edged"][k] = vals.vid("moledges", k, edge_value(b), False) != -1
        for m in top.molecules:
            same = block_value_of_instance(m) == block_value(top.force_field.blocks[m.mol_name]) if m.mol_name in top.force_field.blocks else False
            o["molecules"].append(m.mol_name if same else m.mol_name + "?not a copy of its block")
            o["medged"].append(vals.vid("moledges", m.mol_name, edge_value(m.molecule), False) != -1
                               and vals.vid("resedges", m.mol_name, edge_value(m), False) != -1)
        o["idx"] = {k: [int(i) for i in v] for k, v in top.mol_idx_by_name.items() if v}
        return o
    return project


def block_value_of_instance(m):
    mol = m.molecule
    return {"name": m.mol_name, "nrexcl": getattr(mol, "nrexcl", None),
            "atoms": [sorted((k, repr(v)) for k, v in mol.nodes[n].items()) for n in sorted(mol.nodes)],
            "inter": {k: [[list(map(repr, i.atoms)), list(map(str, i.parameters)), sorted((str(a), str(b_)) for a, b_ in i.meta.items())]
                          for i in v] for k, v in sorted(mol.interactions.items()) if v}}


def real_top_files():
    import polyply
    base = Path(os.environ.get("VERIF_REPO") or Path(polyply.__file__).resolve().parents[1])
    data = base / "polyply" / "tests" / "test_data"
    return sorted(data.rglob("*.top")) + sorted((c.VERIF / "selftest" / "fixtures").rglob("*.top"))


def record_real_files(ck):
    recs = []
    skipped = []
    for f in real_top_files():
        try:
            root, main, files, vals = lex_tree(f)
        except OutOfDomain as exc:
            skipped.append("%s: %s" % (f, exc))
            continue
        except Exception as exc:      # the isolated reference read failed: not an input the reader accepts at all
            skipped.append("%s: reference read failed (%s: %s)" % (f, type(exc).__name__, str(exc)[:80]))
            continue
        obs, pr = read_real(root, main, False, make_project_real(vals), probe=False)
        recs.append({"id": "file %s" % f, "main": list(main), "variant": -1, "relative": False,
                     "files": [{"path": list(p), "lines": ls} for p, ls in files.items()], "obs": obs_json(obs), "probe": None})
    ck.extra["real_top_files"] = [r["id"] for r in recs]
    ck.extra["real_top_files_outside_domain"] = skipped
    return recs


# --------------------------------------------------------------------------- trace validation

def validate(ck, recs, name, expect_reject=False):
    wd = c.workdir(PROP, name)
    f = wd / "traces.json"
    f.write_text(json.dumps({"traces": [{"main": r["main"], "files": r["files"], "obs": tla_safe(r)["obs"]} for r in recs]}))
    for attempt in (1, 2):
        res = c.tlc("TopReadTrace", "Top_trace.cfg", workers=1, env=dict(jvm(6), TRACE_FILE=str(f)), check=False, timeout=1500)
        if res.finished or res.errors:
            break           # a JVM that died without a TLC-level verdict is started once more
    rej = res.tagged("REJECTED")
    if res.tagged("OUTOFDOMAIN"):
        raise c.MachineryError("a recorded input is outside the domain of C08: trace %s" % res.tagged("OUTOFDOMAIN"))
    if (res.rc != 0 and not rej) or res.inv_violated:
        raise c.MachineryError("TopReadTrace failed: %s" % res.out[-3000:])
    rejected = {}
    for r in rej:
        rejected.update({int(t): w for t, w in r})
    expected = {int(e["tid"]): e["exp"] for e in res.tagged("EXPECTED")}
    if expect_reject:
        return rejected
    ck.add_tlc(res)
    ck.traces += len(recs) - len(rejected)
    for tid, why in sorted(rejected.items()):
        r = recs[tid - 1]
        ck.violation({"kind": "I->S record", "record": r, "expected": expected.get(tid), "why": why},
                     what="%s (variant %s): %s differ: read %s, TopRead gives %s" % (
                         r["id"], VARIANTS[r["variant"]] if r["variant"] >= 0 else "as is", why,
                         json.dumps(r["obs"])[:300], json.dumps(expected.get(tid))[:300]))
    for r in recs:
        if r.get("probe"):
            ck.violation({"kind": "independence", "record": r}, what="%s: instances are not independent copies: %s" % (r["id"], r["probe"]))
    return rejected


# --------------------------------------------------------------------------- entry points

def run(tier):
    ck = c.Check(PROP, tier)
    quick = tier == "quick"
    ck.rule = ("S->I: TLC enumerates the main files of <= 3 chunks over the chunk alphabets of TopReadMC (cond: 66 chunk kinds = define, "
               "moleculetype, table line, 3 includes incl. a sub-directory file including ../a.itp and its sibling a.itp (a name that also exists beside the main file) and a file with its own conditional "
               "#error, 60 #ifdef/#ifndef[/#else] forms; quick: all <= 2-chunk mains and the 3-chunk mains starting with a define, a "
               "moleculetype or the sub-directory include; thorough: all), sec (17 kinds: tables, overriding, valued defines, nested "
               "includes), mols (12 [molecules] entries, counts 0-3, repeated names), split ([molecules] spread over files); every case is "
               "rendered in 3 textual variants and read through absolute and relative paths; a case is distinct by its chunk sequence. "
               "I->S: seeded random include trees (2-9 files in 5 directories with clashing file names, ./ and ../ paths, missing files, 3 macros, molecule types re-read through several files; edges of types and instances compared) and real .top "
               "files; a record is distinct by its input.")
    ck.assumptions = [
        "domain (DESIGN 4.8): conditionals balanced, not nested inside one file, only #include/#error inside a conditional; #define outside conditionals",
        "include boundaries coincide with section boundaries (every included file and the text after an #include start with a header)",
        "include trees are acyclic; include paths traverse existing directories only; a molecule type name has one content",
        "[ molecules ] entries name molecule types declared textually before them",
        "independent copy = the instance's own residue graph, atoms, edges and interaction lists; nested fragment graphs (node attribute 'graph') and parameter lists are shared by reference in the tree and not probed",
        "values of single table lines / molecule types of real files are identified by reading that text in isolation with the same reader; the composition is decided by TopRead.tla",
    ]
    sd = c.seed()
    ck.stage("TLC: models, sensitivity runs, exports (concurrently)")
    wd = c.workdir(PROP, "cfg")
    cond_jobs = []
    if quick:
        cond_jobs.append(("TopReadMC", "Top_cond_quick.cfg", {"workers": max(2, c.NPROC // 3), "env": jvm(6)}))
    else:
        # the full 3-chunk instance, partitioned by first chunk into concurrent TLC runs
        nparts = 4
        base = (c.SPEC / "Top_cond_full.cfg").read_text()
        for p in range(nparts):
            first = "{%s}" % ", ".join(str(i) for i in range(1, 67) if i % nparts == p)
            f = wd / ("Top_cond_part%d.cfg" % p)
            f.write_text(base.replace("First = {}", "First = %s" % first))
            cond_jobs.append(("TopReadMC", f, {"workers": max(2, c.NPROC // 4), "timeout": 3000, "env": jvm(8)}))
    jobs = cond_jobs + [
        ("TopReadMC", "Top_sec.cfg", {"env": jvm(3), "workers": 2, "coverage": True}),
        ("TopReadMC", "Top_mols.cfg", {"env": jvm(3), "workers": 2}),
        ("TopReadMC", "Top_split.cfg", {"env": jvm(3), "workers": 2, "coverage": True}),
        ("TopReadMC", "Top_cond_intended.cfg", {"env": jvm(3), "workers": 2, "coverage": True}),
        ("TopReadMC", "Top_dev_f3.cfg", {"env": jvm(2), "workers": 1, "check": False}),
        ("TopReadMC", "Top_dev_molsperfile.cfg", {"env": jvm(2), "workers": 1, "check": False}),
        ("TopReadMC", "Top_dev_dirkeep.cfg", {"env": jvm(2), "workers": 1, "check": False}),
        ("TopReadMC", "Top_dev_elsekeep.cfg", {"env": jvm(2), "workers": 1, "check": False}),
        ("TopReadMC", "Top_dev_rootfirst.cfg", {"env": jvm(2), "workers": 1, "check": False}),
        ("TopReadMC", "Top_dev_edges.cfg", {"env": jvm(2), "workers": 1, "check": False}),
    ]
    results = tlc_jobs(jobs)
    conds = results[:len(cond_jobs)]
    sec, mols, split, cond_int, d_f3, d_mpf, d_dir, d_else, d_root, d_edges = results[len(cond_jobs):]
    for r in conds:
        ck.model_must_hold(r, "SameX (I-layer result = PRead) / NoStruct / DoneEmpty / CondOnlyGuards / DomainOK")
    ck.model_must_hold(sec, "SameX/ErrIff/Monotone (sec)")
    ck.model_must_hold(mols, "SameX (mols)")
    ck.model_must_hold(split, "SameX (split: [molecules] entries of all files instantiated once, in textual order, by the root director)")
    ck.model_must_hold(cond_int, "Same/ErrIff/CondOnlyGuards/Monotone (cond, <= 2 chunks, with action coverage)")
    ck.model_must_refute(d_f3, "Same", "deviation F3 (repaired): conditionals untracked once the itp buffer is non-empty")
    ck.model_must_refute(d_mpf, "Same", "deviation F16 molecules-per-file (repaired): [molecules] instantiated per file, numbered from 0")
    ck.model_must_refute(d_dir, "Same", "wrong design: nested include keeps the includer's directory")
    ck.model_must_refute(d_else, "Same", "wrong design: #else does not invert")
    ck.model_must_refute(d_root, "Same", "wrong design (seed-C08-1): include looked up next to the top-level file before the includer's directory")
    ck.model_must_refute(d_edges, "Same", "wrong design (seed-C08-2): edges made only for molecule types whose name is new in the file")
    ck.extra["F3_counterexample"] = c.counterexample(d_f3)[:1500]
    idle = [a for a in ACTIONS if not ck.actions.get(a)]
    if idle:
        raise c.MachineryError("I-layer actions never taken in the exhaustive instances (vacuous): %s" % idle)

    ck.stage("replay cond export")
    seen = set()
    for r in conds:
        cases, alpha, _ = replay_export(ck, r, "cond", seen=seen)
    mid = cases[len(cases) // 2]
    ck.sample({"S->I case (cond)": main_summary(alpha, mid["c"]), "expected": mid["exp"]})
    ck.stage("replay sec / mols / split exports")
    cases, alpha, _ = replay_export(ck, sec, "sec")
    mid = cases[len(cases) // 3]
    ck.sample({"S->I case (sec)": main_summary(alpha, mid["c"]), "expected": mid["exp"]})
    cases, alpha, _ = replay_export(ck, mols, "mols", probe=True)
    mid = cases[-7]
    ck.sample({"S->I case (mols)": main_summary(alpha, mid["c"]), "expected molecules": mid["exp"]["molecules"], "idx": mid["exp"]["idx"]})
    cases, alpha, _ = replay_export(ck, split, "split", probe=True)
    spread = sum(1 for x in cases if mols_files(alpha, x["c"]) >= 2)
    if not spread:
        raise c.MachineryError("split instance holds no case with [molecules] entries in several files (vacuous)")
    ck.extra["split_cases_with_molecules_in_several_files"] = spread

    ck.stage("I->S: random include trees and real .top files")
    n = 240 if quick else 3000
    size = 1 if quick else 2
    ids = list(range(n))
    recs = []
    for part in c.pmap(_record_random, [(sd, ch, size if k % 2 else size + 1) for k, ch in enumerate(c.chunks(ids, c.NPROC * 2))]):
        recs += part
    recs += record_real_files(ck)
    ck.evaluations += len(recs)
    aborted = sum(1 for r in recs if r["obs"]["abort"])
    ck.extra["records"] = {"total": len(recs), "aborted": aborted, "with_molecules": sum(1 for r in recs if r["obs"]["molecules"]),
                           "include_name_also_exists_beside_main_file": sum(1 for r in recs if r.get("stats", {}).get("clash")),
                           "molecule_type_declared_by_two_files": sum(1 for r in recs if r.get("stats", {}).get("reread")),
                           "instances_of_reread_types": sum(1 for r in recs if r.get("stats", {}).get("reread") and r["obs"]["molecules"])}
    if not ck.extra["records"]["include_name_also_exists_beside_main_file"] or not ck.extra["records"]["instances_of_reread_types"]:
        raise c.MachineryError("random trees never exercise clashing include names / re-read molecule types (vacuous): %s" % ck.extra["records"])
    if aborted in (0, len(recs)):
        raise c.MachineryError("random trees are degenerate: %d of %d aborted" % (aborted, len(recs)))
    ck.sample({"I->S record": recs[1]["id"], "files": {"/".join(f["path"]): [line_text(l)[1][0] if l["k"] != "mol" else "[moleculetype %s]" % l["a"]
                                                                       for l in f["lines"]] for f in recs[1]["files"]}, "observed": recs[1]["obs"]})
    for r in recs:
        ck.nontrivial.add("rec:" + json.dumps(r["files"], sort_keys=True))
    rejected = validate(ck, recs, "traces")
    # binding demonstration: one corrupted field must be rejected (on records the specification accepted as they are)
    ck.stage("binding demonstration")
    good = [r for i, r in enumerate(recs, 1) if i not in rejected and not r["obs"]["abort"] and r["obs"]["blocks"]][:4]
    if not good and not ck.violations:
        raise c.MachineryError("no accepted record with molecule types for the binding demonstration")
    if good:
        bad = json.loads(json.dumps(good))
        bad[0]["obs"]["blocks"] = bad[0]["obs"]["blocks"][:-1]
        rej = validate(ck, bad, "corrupt", expect_reject=True)
        if set(rej) != {1}:
            raise c.MachineryError("binding demonstration failed: rejected %s instead of exactly the corrupted record" % (rej,))
        ck.extra["binding_demo"] = "record with one molecule type removed from the observation rejected (%s); %d untouched records accepted" % (
            rej[1], len(good) - 1)
    ck.exhaustive = True
    return ck.finish()


def replay(path):
    doc = json.loads(open(path).read())
    case = doc["case"]
    c.REPLAYS = c.WORK / PROP / "replay_scratch"     # a Check object clears its replay directory: keep the stored cases
    ck = c.Check(PROP, "quick")
    if case["kind"] == "S->I replay":
        bad, _ = _replay_chunk((case["alphabet"], [(case["index"], {"c": case["c"], "exp": case["exp"], "impl": case["impl"]})], True))
        for ci, sig, what, detail in bad:
            print("still differs:", what)
        if not bad:
            print("replayed: matches now")
        return 1 if bad else 0
    if case["kind"] == "I->S record":
        r = case["record"]
        if r["id"].startswith("random"):
            sd, i = r["id"].split()[1].split("/")
            # the tree itself is stored: re-read exactly these files
            root = scratch("replay")
            files = {tuple(f["path"]): f["lines"] for f in r["files"]}
            for dd in (("sub", "deep"), ("lib", "ff")):
                root.joinpath(*dd).mkdir(parents=True, exist_ok=True)
            write_tree(root, files, r["variant"], "rnd-%s-%s" % (sd, i))
            obs, pr = read_real(root, ("main.top",), r["relative"], project_rendered, probe=True)
            r = dict(r, obs=obs_json(obs), probe=pr)
        else:
            f = r["id"].split(" ", 1)[1]
            root, main, files, vals = lex_tree(f)
            obs, pr = read_real(root, main, False, make_project_real(vals))
            r = dict(r, files=[{"path": list(p), "lines": ls} for p, ls in files.items()], obs=obs_json(obs))
        rej = validate(ck, [r], "replay")
        print("replayed: %s" % ("still rejected" if ck.violations else "accepted now"))
        return 1 if ck.violations else 0
    print("replay of kind %s: re-run the check" % case["kind"])
    return 1
