"""C16 - the neighbour engine reflects exactly the currently positioned residues.

spec/NBEngine.tla (I-layer actions Add / RemoveNodes / Concatenate, P-layer Views, QueriesAgree, LastGiven, MetricLaws)
S->I : NBExport behaviours (all operation sequences up to MaxOps, with and without the 5000-point tree threshold)
       replayed on the real NonBondEngine, state and query answers compared after every operation.
I->S : seeded random operation sequences on the real engine validated by NBTrace.
"""
import json
import random
import re

import numpy as np

from .. import common as c

H = 0.3          # lattice spacing in nm
CUT = 0.36       # between H and sqrt(2) H  ->  Cut2 = 1
TYPES = ["A", "B", "A", "B", "A", "B", "A", "B"]
IMAT = {frozenset(["A", "A"]): (0.30, 1.0), frozenset(["A", "B"]): (0.25, 1.5), frozenset(["B", "B"]): (0.20, 2.0)}


def lj_monitor(point, refs, box, sig_eps):
    """Independent LJ force: sum over refs of -grad U(r), r = minimum-image vector point - ref."""
    f = np.zeros(3)
    for ref, (sig, eps) in zip(refs, sig_eps):
        d = np.asarray(point, float) - np.asarray(ref, float)
        d -= box * np.round(d / box)
        r = float(np.sqrt((d * d).sum()))
        f += 24.0 * eps * (2.0 * sig ** 12 / r ** 13 - sig ** 6 / r ** 7) * d / r
    return f


def make_engine(nn, dims, fill=0):
    from polyply.src.nonbond_engine import NonBondEngine
    n = nn + fill
    pos = np.ones((n, 3)) * np.inf
    box = np.array([dims[0] * H, dims[1] * H, dims[2] * H])
    if fill:
        rng = np.random.default_rng(0)
        pos[nn:, 0] = rng.uniform(0, box[0], fill)
        pos[nn:, 1] = rng.uniform(0, box[1], fill)
        pos[nn:, 2] = box[2] / 2.0
    return NonBondEngine(pos, None, (TYPES[:nn] + ["A"] * fill), IMAT, None, None, cut_off=CUT, boxsize=box)


def set_index(e, molof, fill=0):
    """nodes_to_gndx: node key = global index, molecule from molof."""
    e.nodes_to_gndx = {(molof[i], i): i for i in range(len(molof))}
    for j in range(fill):
        e.nodes_to_gndx[(99, len(molof) + j)] = len(molof) + j


def lat(x):
    return [int(round(v / H)) for v in x]


def project(e, nn):
    pos = [[-1, -1, -1] if np.isinf(e.positions[i][0]) else lat(e.positions[i]) for i in range(nn)]
    defined = [[int(g) for g in d if g < nn] for d in e.defined_idxs]
    trees = []
    for t, d in zip(e.position_trees, e.defined_idxs):
        data = np.asarray(t.data).reshape(-1, 3)
        if t.n != len(d) or len(data) != len(d):
            trees.append("tree size %d != index list %d" % (t.n, len(d)))
            continue
        trees.append([lat(row) for row, g in zip(data, d) if g < nn])
    return {"pos": pos, "defined": defined, "trees": trees}


class Refs:
    """records which reference points compute_force_point hands to the pair potential"""

    def __init__(self):
        from polyply.src import nonbond_engine as nb
        self.nb = nb
        self.orig = nb.POTENTIAL_FUNC["LJ"]
        self.calls = []

        def rec(dist, point, ref, params):
            self.calls.append((float(dist), np.array(ref, float), tuple(params)))
            return self.orig(dist, point, ref, params)
        nb.POTENTIAL_FUNC["LJ"] = rec

    def close(self):
        self.nb.POTENTIAL_FUNC["LJ"] = self.orig


def query(e, refs, p, molof, qnode, excl, box):
    """run compute_force_point for lattice point p; return dict(close, refs(lattice), force, force_ok)"""
    refs.calls.clear()
    point = np.array(p, float) * H
    f = e.compute_force_point(point, molof[qnode], qnode, exclude=list(excl))
    if isinstance(f, float) and np.isinf(f):
        return {"close": True, "refs": [], "force_ok": True}
    used = [lat(np.mod(r, box)) if True else None for _, r, _ in refs.calls]
    # the monitor recomputes the force from the minimum-image vectors to the same reference points
    exp = lj_monitor(point, [r for _, r, _ in refs.calls], box, [pr for _, _, pr in refs.calls])
    got = np.zeros(3) if isinstance(f, (int, float)) else np.asarray(f, float)
    ok = bool(np.allclose(got, exp, rtol=1e-9, atol=1e-9))
    # the parameters must be those of the type pair (query node type, reference node type)
    return {"close": False, "refs": used, "force_ok": ok, "force": got.tolist(), "expect": exp.tolist(),
            "params": [list(pr) for _, _, pr in refs.calls]}


def as_iterable(nodes, form):
    """remove_positions documents node_keys as 'abc.iterable': every form of iterable must remove the same nodes"""
    nodes = list(nodes)
    form %= 7
    if form == 0:
        return list(nodes)
    if form == 1:
        return tuple(nodes)
    if form == 2:
        return (n for n in nodes)                 # generator: can be walked once only
    if form == 3:
        return reversed(nodes)
    if form == 4:
        return dict.fromkeys(nodes).keys()
    if form == 5:
        return iter(nodes)
    return np.array(nodes)


def dist_queries(e, p, molof, nn):
    """pbc_min_dist(point, get_point(node)) for every node, as RandomWalk.checks_milestones asks it: squared lattice distance, -1 if unpositioned"""
    point = np.array(p, float) * H
    out = []
    for n in range(nn):
        ref = e.get_point(molof[n], n)            # a view into the engine's table, exactly what the walk hands over
        if np.isinf(ref[0]):
            out.append(-1)
            continue
        d = float(e.pbc_min_dist(point, ref))
        q = (d / H) ** 2
        out.append(int(round(q)) if abs(q - round(q)) < 1e-6 else q)
    return out


# ------------------------------------------------------------------ S -> I

def _replay_chunk(arg):
    cases, fill, dims, nn, molof = arg
    refs = Refs()
    bad = []
    nsteps = 0
    box = np.array(dims, float) * H
    for ci, hist in cases:
        e = make_engine(nn, dims, fill)
        set_index(e, molof, fill)
        for k, ev in enumerate(hist):
            op = ev["op"]
            try:
                if op["op"] == "add":
                    e.add_positions(np.array(op["p"], float) * H, molof[op["n"]], op["n"], start=op["start"])
                elif op["op"] == "remove":
                    e.remove_positions(molof[op["nodes"][0]], as_iterable(op["nodes"], ci + k))
                else:
                    e.concatenate_trees()
                got = project(e, nn)
            except Exception as exc:  # the engine must not raise on any of these sequences
                bad.append((ci, k, "exception %s: %s" % (type(exc).__name__, exc), None))
                break
            nsteps += 1
            exp = {"pos": [ev["post"]["pos"][str(i)] if isinstance(ev["post"]["pos"], dict) else ev["post"]["pos"][i] for i in range(nn)],
                   "defined": ev["post"]["defined"], "trees": ev["post"]["trees"]}
            if got != exp:
                bad.append((ci, k, "state differs", {"got": got, "expected": exp}))
                break
            qbad = None
            for q in ev["q"]:
                for j, excl in enumerate(([], [0], [1, 0])):
                    r = query(e, refs, q["p"], molof, 1, excl, box)
                    if r["close"] != q["close"]:
                        qbad = ("overlap answer differs", q["p"], excl, r)
                    elif not r["close"]:
                        exp_pts = sorted(exp["pos"][n] for n in q["inr"][j])
                        if sorted(r["refs"]) != exp_pts:
                            qbad = ("residues taken into account differ: expected nodes %s at %s" % (q["inr"][j], exp_pts), q["p"], excl, r)
                        elif not r["force_ok"]:
                            qbad = ("pair force is not the 12-6 gradient along the minimum-image vector", q["p"], excl, r)
                        else:
                            # parameters: multiset of type-pair parameters
                            want = sorted(list(IMAT[frozenset([TYPES[1], TYPES[n]])]) for n in q["inr"][j])
                            if sorted(r["params"]) != want:
                                qbad = ("pair parameters differ", q["p"], excl, r)
                    if qbad:
                        break
                if not qbad and "d2" in q:
                    dq = dist_queries(e, q["p"], molof, nn)
                    if dq != list(q["d2"]):
                        qbad = ("pbc_min_dist(point, get_point(node)) differs: squared lattice distances %s, specification %s" % (dq, list(q["d2"])), q["p"], [], {})
                if qbad:
                    break
            if not qbad:
                again = project(e, nn)
                if again != exp:
                    qbad = ("a query changed the engine (QueryPure)", None, [], {"state after the queries": again, "state after the operation": exp})
            if qbad:
                bad.append((ci, k, "query: " + qbad[0], {"point": qbad[1], "exclude": qbad[2], "observed": qbad[3]}))
                break
            # position query
            for n in range(nn):
                pt = e.get_point(molof[n], n)
                g = [-1, -1, -1] if np.isinf(pt[0]) else lat(pt)
                if g != exp["pos"][n]:
                    bad.append((ci, k, "get_point differs", {"node": n, "got": g}))
    refs.close()
    return bad, nsteps


def _replay_cases(ck, cases, fill, dims, nn, molof, label):
    idx = list(enumerate(cases))
    parts = [(ch, fill, dims, nn, molof) for ch in c.chunks(idx, c.NPROC * 4)]
    nbad = 0
    for bad, nsteps in c.pmap(_replay_chunk, parts):
        ck.evaluations += nsteps
        for ci, k, why, detail in bad:
            nbad += 1
            ck.violation({"kind": "S->I replay", "instance": label, "fill": fill, "dims": dims, "nn": nn, "molof": molof,
                          "history": cases[ci][:k + 1], "step": k, "detail": detail},
                         what="%s: engine diverges from NBEngine at operation %d (%s): %s" % (label, k, json.dumps(cases[ci][k]["op"]), why))
    ck.replayed += len(cases)
    for h in cases:
        ck.nontrivial.add(json.dumps([ev["op"] for ev in h], sort_keys=True))
    for h in cases:
        for ev in h:
            ck.actions[ev["op"]["op"]] = ck.actions.get(ev["op"]["op"], 0) + 1
    return nbad


# ------------------------------------------------------------------ I -> S

def record_traces(ntr, length, sd, nn=6, L=4, corrupt=False):
    molof = [0, 0, 0, 1, 1, 2][:nn]
    rng = random.Random(sd)
    refs = Refs()
    box = np.array([L * H] * 3)
    traces = []
    for t in range(ntr):
        e = make_engine(nn, (L, L, L))
        set_index(e, molof)
        tr = []
        for k in range(length):
            placed = [i for i in range(nn) if not np.isinf(e.positions[i][0])]
            r = rng.random()
            if r < 0.55 or not placed:
                n = rng.randrange(nn)
                p = [rng.randrange(L), rng.randrange(L), rng.randrange(L)]
                s = rng.random() < 0.3
                ev = {"op": "add", "n": n, "p": p, "start": s}
            elif r < 0.9:
                m = rng.choice(sorted(set(molof)))
                cand = [i for i in range(nn) if molof[i] == m]
                nodes = sorted(rng.sample(cand, rng.randint(1, len(cand))))
                ev = {"op": "remove", "nodes": nodes}
            else:
                ev = {"op": "concat"}
            qn = rng.randrange(nn)
            qp = [rng.randrange(L), rng.randrange(L), rng.randrange(L)]
            cand = [i for i in range(nn) if molof[i] == molof[qn]]
            excl = sorted(rng.sample(cand, rng.randint(0, len(cand))))
            pn = rng.randrange(nn)
            try:
                if ev["op"] == "add":
                    e.add_positions(np.array(ev["p"], float) * H, molof[ev["n"]], ev["n"], start=ev["start"])
                elif ev["op"] == "remove":
                    e.remove_positions(molof[ev["nodes"][0]], as_iterable(ev["nodes"], t + k))
                else:
                    e.concatenate_trees()
                ev["post"] = project(e, nn)
                q = query(e, refs, qp, molof, qn, excl, box)
                pt = e.get_point(molof[pn], pn)
                ev["q"] = {"p": qp, "excl": excl, "close": q["close"], "refs": q["refs"], "force_ok": q["force_ok"],
                           "point_of": {"n": pn, "p": [-1, -1, -1] if np.isinf(pt[0]) else lat(pt)},
                           "d2": dist_queries(e, qp, molof, nn)}
                ev["post_q"] = project(e, nn)
            except Exception as exc:  # the engine must not raise; the event is logged so that the trace is rejected here
                ev["exception"] = "%s: %s" % (type(exc).__name__, exc)
                ev.setdefault("post", {"pos": [[-9, -9, -9]] * nn, "defined": [], "trees": []})
                ev.setdefault("q", {"p": qp, "excl": excl, "close": False, "refs": [], "force_ok": False, "point_of": {"n": pn, "p": [-9, -9, -9]}, "d2": [-9] * nn})
                ev.setdefault("post_q", ev["post"])
                tr.append(ev)
                break
            tr.append(ev)
        traces.append(tr)
    refs.close()
    if corrupt:
        traces[0][len(traces[0]) // 2]["post"]["defined"] = [[0]]
    return {"nnodes": nn, "molof": molof, "traces": traces}


def validate_traces(ck, doc, name, expect_reject=False):
    wd = c.workdir("C16", name)
    f = wd / "traces.json"
    f.write_text(json.dumps(doc))
    res = c.tlc("NBTrace", "NB_trace.cfg", workers=1, env={"TRACE_FILE": str(f)}, check=False)
    rej = res.tagged("REJECTED")
    if res.rc != 0 and not rej:
        raise c.MachineryError("NBTrace failed: %s" % res.out[-2000:])
    rejected = {}
    for r in rej:
        rejected.update({int(t): int(m) for t, m in r})
    if expect_reject:
        return rejected
    ck.add_tlc(res)
    ck.traces += len(doc["traces"]) - len(rejected)
    for tid, matched in sorted(rejected.items()):
        tr = doc["traces"][tid - 1]
        ck.violation({"kind": "I->S trace", "nnodes": doc["nnodes"], "molof": doc["molof"], "trace": tr[:matched + 1], "matched_events": matched},
                     what="recorded engine trace rejected by NBEngine after %d matched events; next event %s" % (
                         matched, json.dumps(tr[matched])[:400] if matched < len(tr) else "-"))
    return rejected


# ------------------------------------------------------------------ metric

def metric_check(ck):
    """pbc_min_dist of the code against the lattice metric D2 of the specification (values exported by TLC are the
    MetricLaws the model checker proved; here the code is compared with the same closed form on all lattice pairs)."""
    L = (3, 4, 5)
    e = make_engine(2, L)
    box = np.array(L, float) * H
    n = 0
    pts = [(x, y, z) for x in range(L[0]) for y in range(L[1]) for z in range(L[2])]
    for p in pts:
        for q in pts:
            d2 = sum(min((a - b) % l, (b - a) % l) ** 2 for a, b, l in zip(p, q, L))
            a, b = np.array(p, float) * H, np.array(q, float) * H
            for shift in ((0, 0, 0), (1, 0, 0), (0, -1, 0), (0, 0, 2)):
                d = e.pbc_min_dist(a + np.array(shift) * box, b)
                d_sym = e.pbc_min_dist(b, a + np.array(shift) * box)
                n += 1
                direct = float(np.linalg.norm(a - b))
                if abs(d - np.sqrt(d2) * H) > 1e-9 or abs(d - d_sym) > 1e-12 or (shift == (0, 0, 0) and d > direct + 1e-12):
                    ck.violation({"kind": "metric", "p": p, "q": q, "shift": shift, "got": float(d), "expected": float(np.sqrt(d2) * H)},
                                 what="pbc_min_dist(%s+%s box, %s) = %.6f, lattice metric gives %.6f" % (p, shift, q, d, np.sqrt(d2) * H))
                    return n
    ck.evaluations += n
    return n


# ------------------------------------------------------------------ entry points

def run(tier):
    ck = c.Check("C16", tier)
    ck.rule = ("S->I: every operation sequence (add with/without start, multi-node remove, concatenate) of NBEngine up to MaxOps on 3 nodes / "
               "4 lattice sites, in a no-filler instance and in an instance whose first tree holds 5000 filler points (tree threshold reachable), "
               "plus simulated longer sequences; a case is distinct by its operation sequence. I->S: seeded random sequences of 40-300 operations "
               "on 6 nodes in 3 molecules on a 4x4x4 periodic lattice, each followed by a force/overlap query and a position query")
    ck.assumptions = ["lattice positions (spacing 0.3 nm, cut-off 0.36 nm) so that the in-range set is decided by exact integer arithmetic",
                      "the value of the pair force is compared by a numeric monitor (12-6 gradient along the minimum-image vector, rtol 1e-9)",
                      "the hard-coded 5000-point threshold is reached with immovable filler points modelled by the constant Filler"]
    sd = c.seed()
    ck.stage('TLC: model, sensitivity, exports, simulation (concurrently)')
    nsim, depth = (30, 9) if tier == "quick" else (500, 13)
    wd = c.workdir("C16", "sim")
    cfg = wd / "NB_sim.cfg"
    cfg.write_text((c.SPEC / "NB_export.cfg").read_text().replace("MaxOps = 3", "MaxOps = %d" % (depth - 1)))
    ind_cfg, ind_n = ("NB_ind3.cfg", 29404) if tier == "quick" else ("NB_ind4.cfg", 51699)
    small, dev, ex, ex2, sim, ind, ind_dev = c.tlc_many([
        ("MC_NB", "NB_small.cfg" if tier == "quick" else "NB_deep.cfg", {"timeout": 3000, "workers": 6 if tier == "quick" else 10}),
        ("MC_NB", "NB_dev_readd.cfg", {"check": False, "workers": 1}),
        ("NBExport", "NB_export.cfg", {"workers": 4}),
        ("NBExport", "NB_export_thr.cfg", {"workers": 3}),
        ("NBExport", cfg, {"workers": 1, "simulate": "num=%d" % nsim, "depth": depth, "tseed": sd + 7}),
        ("NBInductive", ind_cfg, {"timeout": 3000, "workers": 4 if tier == "quick" else 8}),
        ("NBInductive", "NB_ind_dev_readd.cfg", {"check": False, "workers": 2}),
    ])
    # 1. design level
    ck.model_must_hold(small, "Views/QueriesAgree/LastGiven/MetricLaws")
    ck.model_must_refute(dev, "Views", "deviation F8: re-add duplicates the index")
    # 1b. Views as an inductive invariant: one operation from EVERY Views-state of the instance (histories of any length)
    ck.model_must_hold(ind, "Views inductive (one step from every Views-state), Views => QueriesAgree, LastGiven on every step")
    m = re.search(r"Finished computing initial states: (\d+) distinct", ind.out)
    if not m or int(m.group(1)) != ind_n:
        raise c.MachineryError("NBInductive: %s initial states, closed form says %d (IndInit does not enumerate all Views-states)" % (m and m.group(1), ind_n))
    ck.extra["inductive_step_from_states"] = ind_n
    ck.model_must_refute(ind_dev, "Views", "deviation F8 under the inductive instance")
    # 2. S->I exhaustive export + replay
    ck.stage('replay exhaustive export')
    molof = [0, 0, 1]
    ck.model_must_hold(ex, "export")
    cases = ex.cases()
    if not cases:
        raise c.MachineryError("NBExport produced no cases")
    ck.sample({"S->I case": [ev["op"] for ev in cases[len(cases) // 2]], "post of last op": cases[len(cases) // 2][-1]["post"]})
    _replay_cases(ck, cases, 0, (3, 3, 3), 3, molof, "NB_export")
    ck.stage('replay threshold export')
    ck.model_must_hold(ex2, "export thr")
    cases2 = ex2.cases()
    two_trees = sum(1 for h in cases2 if any(len(ev["post"]["defined"]) > 1 for ev in h))
    if not two_trees:
        raise c.MachineryError("threshold instance never opened a second tree (vacuous)")
    ck.extra["behaviours_opening_second_tree"] = two_trees
    if tier == "quick":
        rng = random.Random(sd)
        keep = [h for h in cases2 if any(len(ev["post"]["defined"]) > 1 for ev in h)]
        rest = [h for h in cases2 if not any(len(ev["post"]["defined"]) > 1 for ev in h)]
        cases2 = rng.sample(keep, min(len(keep), 1200)) + rng.sample(rest, min(len(rest), 300))
    _replay_cases(ck, cases2, 5000, (3, 3, 33), 3, molof, "NB_export_thr")
    # 3. simulated longer behaviours
    ck.stage('replay simulated behaviours')
    ck.add_tlc(sim)
    sc = {json.dumps(h, sort_keys=True): h for h in sim.cases()}
    _replay_cases(ck, list(sc.values()), 0, (3, 3, 3), 3, molof, "NB_sim depth %d" % (depth - 1))
    ck.stage('traces')
    ntr, ln = (120, 40) if tier == "quick" else (600, 120)
    doc = record_traces(ntr, ln, sd)
    ck.sample({"I->S trace event": doc["traces"][0][3]})
    validate_traces(ck, doc, "traces")
    if tier == "thorough":
        validate_traces(ck, record_traces(60, 300, sd + 1), "traces_long")
    # binding demonstration: a corrupted field must be rejected
    rej = validate_traces(ck, record_traces(5, 20, sd + 2, corrupt=True), "corrupt", expect_reject=True)
    if 1 not in rej:
        raise c.MachineryError("binding demonstration failed: corrupted trace was accepted")
    ck.extra["binding_demo"] = "trace with one corrupted index list rejected after %d matched events" % rej[1]
    ck.stage('metric')
    ck.extra["metric_pairs_checked"] = metric_check(ck)
    ck.exhaustive = True
    return ck.finish()


def replay(path):
    doc = json.loads(open(path).read())
    case = doc["case"]
    ck = c.Check("C16", "quick")
    if case["kind"] == "S->I replay":
        n = _replay_cases(ck, [case["history"]], case["fill"], tuple(case["dims"]), case["nn"], case["molof"], "replay")
        print("replayed: %s" % ("still diverges" if ck.violations else "matches now"))
    elif case["kind"] == "I->S trace":
        validate_traces(ck, {"nnodes": case["nnodes"], "molof": case["molof"], "traces": [case["trace"]]}, "replay")
        print("replayed: %s" % ("still rejected" if ck.violations else "accepted now"))
    else:
        metric_check(ck)
    return 1 if ck.violations else 0
